import LP.Proofs.ZeroAllocG1e
/-
  LP.Proofs.ZeroAllocG1f — zero-size allocations for `Variant.guarV1`, part 6: the vested claim and
  the filter on the erased state.
-/
namespace LP
open LP.FY LP.Events

/-! ### the vested claim -/

section
variable {w : zg_O}

theorem zg_claimPay (v2 : Bool) (t : Tx) (e : Env) (c : Nat) :
    claimPay v2 (zg_wt t w) e c = mapR (zg_wt · w) (claimPay v2 t e c) := by
  unfold claimPay
  by_cases hc : c > 0
  · rw [if_pos hc, if_pos hc]
    simp only [mapR_bind]
    refine bind_eq_bind_of_mapR (zg_wt · w) ?_ ?_
    · rhs_exact zg_send _ _ _
    · intro t1
      cases v2 <;> rfl
  · rw [if_neg hc, if_neg hc]; rfl

/-- the rest of the claim after the settlement part -/
theorem zg_claimBody_of_settle (t : Tx) (e : Env) (w' : zg_O)
    (h : claimSettle (zg_wt t w) e = mapR (zg_wt · w') (claimSettle t e)) :
    claimBody false (zg_wt t w) e = mapR (zg_wt · w') (claimBody false t e) := by
  unfold claimBody
  rw [h]
  simp only [mapR_bind, bind_mapR, Bool.false_eq_true, if_false]
  refine bind_congr_fun ?_
  intro t1
  show (claimable1 t1.s e e.caller >>= _) = _
  refine bind_congr_fun ?_
  intro c
  exact zg_claimPay false t1 e c

theorem zg_settle (s : State) (e : Env) (r : Range) (hr : s.range e.caller = some r)
    (hR : w.R e.caller = some r) (hC : w.C e.caller = s.claimed e.caller) :
    settle (zg_w s w) e
      = mapR (fun p => (zg_w p.1 ⟨upd w.R e.caller none, upd w.B r.first none, w.K,
                                  upd w.C e.caller true, w.U⟩, p.2))
          (settle s e) := by
  unfold settle
  simp only [mapR_bind]
  show (requireStage s e .claim _ >>= fun _ => _) = _
  refine bind_congr_fun ?_; intro _
  show (req (!w.C e.caller) _ >>= fun _ => _) = _
  rw [hC]
  refine bind_congr_fun ?_; intro _
  show (match w.R e.caller with | none => _ | some r => _) = _
  rw [hR, hr]
  simp only [mapR_bind, mapR_ite, pure_bind]
  repeat' (first | rfl | (refine bind_congr_fun ?_; intro _) | ite_both)

/-- settlement part, caller settled on both sides -/
theorem zg_claimSettle_done (t : Tx) (e : Env) (hcl : t.s.claimed e.caller = true)
    (hC : w.C e.caller = true) :
    claimSettle (zg_wt t w) e = mapR (zg_wt · w) (claimSettle t e) := by
  unfold claimSettle
  have hC' : (zg_wt t w).s.claimed e.caller = true := hC
  rw [if_pos hcl, if_pos hC']; rfl

/-- settlement part, caller not settled and holding a non-empty range -/
theorem zg_claimSettle_real (t : Tx) (e : Env) (r : Range) (hcl : t.s.claimed e.caller = false)
    (hC : w.C e.caller = false) (hr : t.s.range e.caller = some r) (hR : w.R e.caller = some r) :
    claimSettle (zg_wt t w) e
      = mapR (zg_wt · ⟨upd w.R e.caller none, upd w.B r.first none, w.K, upd w.C e.caller true, w.U⟩)
          (claimSettle t e) := by
  unfold claimSettle
  have hC' : (zg_wt t w).s.claimed e.caller = false := hC
  rw [if_neg (by rw [hC']; simp), if_neg (by rw [hcl]; simp)]
  have hs : settle (zg_wt t w).s e = _ := zg_settle (w := w) t.s e r hr hR (by rw [hC, hcl])
  rw [hs]
  simp only [mapR_bind, bind_mapR]
  refine bind_congr_fun ?_
  intro ⟨s1, rd, rf⟩
  simp only
  refine bind_eq_bind_of_mapR
    (zg_wt · ⟨upd w.R e.caller none, upd w.B r.first none, w.K, upd w.C e.caller true, w.U⟩) ?_ ?_
  · rhs_exact zg_refund _ _ _ _
  · intro t1
    by_cases hrd : rd > 0
    · simp only [hrd, if_true]; rfl
    · simp only [hrd, if_false]; rfl

end

/-- **a claim by an address that is settled on both sides, or unsettled with a non-empty range**,
    is matched by the same claim on the erased state -/
theorem zg_exec_claim {hash : List Nat → List Nat} {t t' : Tx} {e : Env} (w : zg_O)
    (hv : t.s.variant = .guarV1) (h : exec hash t e .claim = .ok t')
    (hcase : (t.s.claimed e.caller = true ∧ w.C e.caller = true) ∨
      (t.s.claimed e.caller = false ∧ w.C e.caller = false ∧
        ∃ r, t.s.range e.caller = some r ∧ w.R e.caller = some r)) :
    ∃ w', exec hash (zg_wt t w) e .claim = .ok (zg_wt t' w') ∧
      ((t.s.claimed e.caller = true ∧ w' = w) ∨
       (t.s.claimed e.caller = false ∧ ∃ r, t.s.range e.caller = some r ∧
          w' = ⟨upd w.R e.caller none, upd w.B r.first none, w.K, upd w.C e.caller true, w.U⟩)) := by
  obtain ⟨f1, _, f3, _⟩ := g1_flags hv
  have f1' : (zg_wt t w).s.variant.vested = true := f1
  have f3' : (zg_wt t w).s.variant.isV2 = false := f3
  simp only [exec, f1, f1', if_true] at h ⊢
  rw [claimVested_eq] at h ⊢
  simp only [f3, f3', Bool.false_eq_true, if_false] at h ⊢
  rcases hcase with ⟨hcl, hC⟩ | ⟨hcl, hC, r, hr, hR⟩
  · refine ⟨w, ?_, Or.inl ⟨hcl, rfl⟩⟩
    rw [zg_claimBody_of_settle t e w (zg_claimSettle_done t e hcl hC), h]; rfl
  · refine ⟨_, ?_, Or.inr ⟨hcl, r, hr, rfl⟩⟩
    rw [zg_claimBody_of_settle t e _ (zg_claimSettle_real t e r hcl hC hr hR), h]; rfl

/-- **a repeat claim by an address without entitlement changes nothing** -/
theorem zg_claim_noop {hash : List Nat → List Nat} {s s' : State} {e : Env} {o : Out}
    (hv : s.variant = .guarV1) (hs : step hash s e .claim = .ok (s', o))
    (hcl : s.claimed e.caller = true) (hut : s.userTotal e.caller = 0) : s' = s := by
  obtain ⟨t, hx, rfl⟩ := rb_step_np (by intro m hm; simp [endpointMeta] at hm; rw [← hm]) hs
  obtain ⟨hvest, _, hv2, _⟩ := g1_flags hv
  simp only [exec, rbTx_s, hvest, if_true] at hx
  obtain ⟨t1, c, h1, hcl1, hts, _⟩ := g1_claimVested_state hv2 hx
  rcases v2_claimSettle_state h1 with ⟨_, rfl⟩ | ⟨hcl', _⟩
  · simp only [rbTx_s] at hcl1 hts
    have hc : c = 0 := by
      unfold claimable1 at hcl1
      simp only [hut, if_true] at hcl1
      injection hcl1 with hcl1; exact hcl1.symm
    subst hc
    rw [hts, Bal.sub_zero, Nat.add_zero, upd_self_val]
  · rw [hcl] at hcl'; cases hcl'

/-- **a first claim by an address whose range is empty changes nothing but the caller's `claimed`
    flag, its (stale) range and the batch slot at the range's first id**; nothing is paid and no
    entitlement is recorded -/
theorem zg_claim_stutter {hash : List Nat → List Nat} {s s' : State} {e : Env} {o : Out} {r : Range}
    (hv : s.variant = .guarV1) (hs : step hash s e .claim = .ok (s', o))
    (hcl : s.claimed e.caller = false)
    (hr : s.range e.caller = some r) (he : r.last < r.first) (hc : s.confirmed e.caller = 0)
    (hut : s.userTotal e.caller = 0) :
    s' = zg_w s ⟨upd s.range e.caller none, upd s.batch r.first none, s.blacklist,
                 upd s.claimed e.caller true, s.uts⟩ := by
  obtain ⟨t, hx, rfl⟩ := rb_step_np (by intro m hm; simp [endpointMeta] at hm; rw [← hm]) hs
  obtain ⟨hvest, _, hv2, _⟩ := g1_flags hv
  simp only [exec, rbTx_s, hvest, if_true] at hx
  obtain ⟨t1, c, h1, hcl1, hts, _⟩ := g1_claimVested_state hv2 hx
  have hlen : rangeLen r = 0 := by unfold rangeLen; omega
  unfold claimSettle at h1
  simp only [rbTx_s, hcl, Bool.false_eq_true, if_false, bind_ok_iff, Prod.exists, pure_ok_iff] at h1
  obtain ⟨s1, redeem, refund, hset, t2, href, hfin⟩ := h1
  obtain ⟨_, r', hr', hred, _, hrf, hs1⟩ := rb_settle_inv hset
  rw [hr] at hr'
  injection hr' with hr'
  subst hr'
  have hred0 : redeem = 0 := by rw [hred, hlen]; rfl
  subst hred0
  have hrf0 : refund = 0 := by rw [hrf, hc]
  subst hrf0
  have ht2 : t2 = (rbTx s e).setS s1 := by
    unfold Tx.refund at href
    simp only [if_true] at href
    injection href with href; exact href.symm
  subst ht2
  simp only [Nat.lt_irrefl, if_false] at hfin
  subst hfin
  have hut1 : s1.userTotal e.caller = 0 := by rw [hs1]; exact hut
  have hc0 : c = 0 := by
    have hcl1' : claimable1 s1 e e.caller = .ok c := hcl1
    unfold claimable1 at hcl1'
    simp only [hut1, if_true] at hcl1'
    injection hcl1' with hcl1'; exact hcl1'.symm
  subst hc0
  have hconf : upd s.confirmed e.caller 0 = s.confirmed := by
    funext x
    by_cases hx : x = e.caller
    · subst hx; simp [hc]
    · simp [upd, hx]
  rw [hts]
  show ({ s1 with bal := s1.bal.sub (.esdt s1.lpTok) 0 0,
                  userClaimed := upd s1.userClaimed e.caller (s1.userClaimed e.caller + 0) } : State) = _
  rw [Bal.sub_zero, Nat.add_zero, upd_self_val, hs1]
  unfold settled
  rw [hlen, hconf]
  rfl

/-! ### the filter -/

theorem zg_filStOf {s : State} {x : FilSt} (K C : Nat → Bool) (U : Nat → Option UTS)
    (h : filStOf s = some x) :
    filStOf (zg_w s ⟨z_eraseR s.range, z_eraseB s.batch, K, C, U⟩) = some (z_ef x) := by
  unfold filStOf at h ⊢
  show (match s.op with | .none => _ | .filter f r => _ | _ => _) = _
  cases hop : s.op <;> rw [hop] at h <;> simp only at h ⊢
  · injection h with h; subst h; rfl
  · injection h with h; subst h; rfl
  · cases h
  · cases h

/-- **the body of `filter`**: the same call on the erased state gives the erased result -/
theorem zg_filterTickets {t t' : Tx} {e : Env} {L0 : List (Nat × Nat)} (K C : Nat → Bool)
    (U : Nat → Option UTS)
    (h : filterTickets t e = .ok t') (hok : AllocOK t.s.confirmed L0)
    (hmid : ∀ x, filStOf t.s = some x → Mid t.s.confirmed t.s.lastTicketId L0 (z_ef x)) :
    filterTickets (zg_wt t ⟨z_eraseR t.s.range, z_eraseB t.s.batch, K, C, U⟩) e
      = .ok (zg_wt t' ⟨z_eraseR t'.s.range, z_eraseB t'.s.batch, K, C, U⟩) ∧
    t'.s.uts = t.s.uts ∧ t'.s.blacklist = t.s.blacklist ∧ t'.s.claimed = t.s.claimed := by
  obtain ⟨hpre, x, hxs⟩ := filterTickets_inv t t' e h
  have hpre' : FilterPre (zg_wt t ⟨z_eraseR t.s.range, z_eraseB t.s.batch, K, C, U⟩).s e :=
    ⟨hpre.notPaused, hpre.stage, hpre.notFiltered⟩
  have hxs' : filStOf (zg_wt t ⟨z_eraseR t.s.range, z_eraseB t.s.batch, K, C, U⟩).s = some (z_ef x) :=
    zg_filStOf K C U hxs
  have hloop := z_filter_loop hok (t.s.lastTicketId + 2) t.c.budget x (hmid x hxs)
  cases hrun : runWhile (filterBody t.s.confirmed t.s.lastTicketId) (t.s.lastTicketId + 2)
      t.c.budget x with
  | error err =>
    have := filterTickets_error t e x err hpre hxs hrun
    rw [this] at h; cases h
  | ok q =>
    obtain ⟨f, b, st⟩ := q
    rw [hrun] at hloop
    have hrun' : runWhile (filterBody (zg_wt t ⟨z_eraseR t.s.range, z_eraseB t.s.batch, K, C, U⟩).s.confirmed
        (zg_wt t ⟨z_eraseR t.s.range, z_eraseB t.s.batch, K, C, U⟩).s.lastTicketId)
        ((zg_wt t ⟨z_eraseR t.s.range, z_eraseB t.s.batch, K, C, U⟩).s.lastTicketId + 2)
        (zg_wt t ⟨z_eraseR t.s.range, z_eraseB t.s.batch, K, C, U⟩).c.budget (z_ef x)
          = .ok (z_ef f, b, st) := hloop
    cases st with
    | outOfFuel =>
      have := filterTickets_outOfFuel t e x f b hpre hxs hrun
      rw [this] at h; cases h
    | interrupted =>
      have h1 := filterTickets_interrupted t e x f b hpre hxs hrun
      rw [h1] at h
      injection h with h
      subst h
      rw [filterTickets_interrupted _ e (z_ef x) (z_ef f) b hpre' hxs' hrun']
      exact ⟨rfl, rfl, rfl, rfl⟩
    | completed =>
      by_cases hle : f.removed ≤ t.s.lastTicketId
      · have h1 := filterTickets_completed t e x f b hpre hxs hrun hle
        rw [h1] at h
        injection h with h
        subst h
        rw [filterTickets_completed _ e (z_ef x) (z_ef f) b hpre' hxs' hrun' hle]
        exact ⟨rfl, rfl, rfl, rfl⟩
      · obtain ⟨err, this⟩ := filterTickets_underflow t e x f b hpre hxs hrun hle
        rw [this] at h; cases h

end LP
