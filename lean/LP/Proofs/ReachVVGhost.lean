import LP.Proofs.ReachVVFrame
/-
  LP.Proofs.ReachVVGhost — "the entitlement is `perTicket ×` the winning tickets held AT
  SETTLEMENT", as an invariant of the reachable states of `Variant.guarV2`.

  The number of winning tickets a participant held when he settled is not part of the contract's
  storage afterwards (the settlement clears his range).  `vv_ReachW hash s r w` is the reachability
  relation `Reach hash .guarV2 s r` with a GHOST record `w : address → Nat` carried along: `w` starts
  at `0` everywhere and an accepted FIRST claim of `a` (his settlement) writes
  `w a := winCountOf s a`, the number of winning tickets in his range in the state the claim is
  executed in; nothing else writes `w`.  `vv_ReachW` and `Reach` have the same states
  (`vv_ReachW.reach`, `vv_reach_ghost`), and in every such state
  `userTotal a = w a × perTicket` (`vv_ghost_total`).
-/
namespace LP
open LP.FY LP.Events

/-- the ghost update: an accepted first claim records the caller's winning tickets -/
def vv_ghost (s : State) (e : Env) (c : Call) (w : Nat → Nat) : Nat → Nat :=
  match c with
  | .claim => if s.claimed e.caller then w else upd w e.caller (winCountOf s e.caller)
  | _ => w

theorem vv_ghost_not_claim {s : State} {e : Env} {c : Call} {w : Nat → Nat} (hc : c ≠ .claim) :
    vv_ghost s e c w = w := by
  cases c <;> first | rfl | exact absurd rfl hc

/-- reachable states of the v2 launchpad together with the ghost record of the winning tickets
    held at settlement -/
inductive vv_ReachW (hash : List Nat → List Nat) : State → Nat → (Nat → Nat) → Prop
  | init (a : InitArgs) (e : Env) (s : State) :
      init .guarV2 a e = .ok s → vv_ReachW hash s e.round (fun _ => 0)
  | call (s : State) (r : Nat) (w : Nat → Nat) (e : Env) (c : Call) (s' : State) (o : Out) :
      vv_ReachW hash s r w → r ≤ e.round → EnvOK e → CallOK c →
      step hash s e c = .ok (s', o) → vv_ReachW hash s' e.round (vv_ghost s e c w)
  | wait (s : State) (r r' : Nat) (w : Nat → Nat) :
      vv_ReachW hash s r w → r ≤ r' → vv_ReachW hash s r' w

theorem vv_ReachW.reach {hash : List Nat → List Nat} {s : State} {r : Nat} {w : Nat → Nat}
    (h : vv_ReachW hash s r w) : Reach hash .guarV2 s r := by
  induction h with
  | init a e s h => exact .init a e s h
  | call s r w e c s' o _ h1 h2 h3 h4 ih => exact .call s r e c s' o ih h1 h2 h3 h4
  | wait s r r' w _ h1 ih => exact .wait s r r' ih h1

/-- every reachable state carries a ghost record -/
theorem vv_reach_ghost {hash : List Nat → List Nat} {s : State} {r : Nat}
    (h : Reach hash .guarV2 s r) : ∃ w, vv_ReachW hash s r w := by
  induction h with
  | init a e s h => exact ⟨_, .init a e s h⟩
  | call s r e c s' o _ h1 h2 h3 h4 ih =>
    obtain ⟨w, ih⟩ := ih
    exact ⟨_, .call s r w e c s' o ih h1 h2 h3 h4⟩
  | wait s r r' _ h1 ih =>
    obtain ⟨w, ih⟩ := ih
    exact ⟨w, .wait s r r' w ih h1⟩

/-- **the entitlement is `perTicket ×` the winning tickets held at settlement**; a participant who
    has not settled has the ghost record `0` -/
theorem vv_ghost_total {hash : List Nat → List Nat} {s : State} {r : Nat} {w : Nat → Nat}
    (h : vv_ReachW hash s r w) :
    ∀ a, s.userTotal a = w a * s.perTicket ∧ (s.claimed a = false → w a = 0) := by
  induction h with
  | init a0 e s h =>
    obtain ⟨_, _, _, _, rfl⟩ := v2_init_inv h
    intro a
    exact ⟨by show 0 = 0 * _; rw [Nat.zero_mul], fun _ => rfl⟩
  | wait s r r' w _ _ ih => exact ih
  | call s r w e c s' o hprev h1 h2 _ h4 ih =>
    obtain ⟨a0, hA⟩ := Reach_iff.mp hprev.reach
    have hwf := reach_WF2 hA
    have hxx := vv_reach_Exact hA
    have hwf' : WF2 a0.nrWinning s' e.round := call_WF2 hwf h1 h2 h4
    by_cases hcc : c = .claim
    · subst hcc
      obtain ⟨_, j2, _, _, _, _, _, j8, j9, j10, j11⟩ := vv_claim_effect hwf hxx h1 h4
      intro a
      by_cases ha : a = e.caller
      · rw [ha]
        cases hcl : s.claimed e.caller with
        | true =>
          have hg : vv_ghost s e .claim w = w := by simp only [vv_ghost, hcl, if_true]
          rw [hg, j10 hcl, j2]
          exact ⟨(ih e.caller).1, fun hq => by rw [j9] at hq; cases hq⟩
        | false =>
          have hg : vv_ghost s e .claim w = upd w e.caller (winCountOf s e.caller) := by
            simp only [vv_ghost, hcl, Bool.false_eq_true, if_false]
          rw [hg, upd_same, (j11 hcl).1, j2]
          exact ⟨rfl, fun hq => by rw [j9] at hq; cases hq⟩
      · obtain ⟨_, q2, q3⟩ := j8 a ha
        have hg : vv_ghost s e .claim w a = w a := by
          simp only [vv_ghost]
          split
          · rfl
          · rw [upd_other _ _ _ _ ha]
        rw [hg, q2, q3, j2]
        exact ih a
    · rw [vv_ghost_not_claim hcc]
      have hcl : s'.claimed = s.claimed := vv_step_claimed hcc h4
      intro a
      have hzero : s'.userTotal a = 0 → s'.claimed a = false →
          s'.userTotal a = w a * s'.perTicket ∧ (s'.claimed a = false → w a = 0) := by
        intro hu hc
        have hw : w a = 0 := (ih a).2 (by rw [← hcl]; exact hc)
        exact ⟨by rw [hu, hw, Nat.zero_mul], fun _ => hw⟩
      cases hq' : s'.flags.additional with
      | false =>
        have hf := (hwf'.lp.pre hq').fresh a
        exact hzero hf.1 hf.2.2
      | true =>
        cases hq : s.flags.additional with
        | false =>
          have hf := (hwf.lp.pre hq).fresh a
          have hca : s'.claimed a = false := by rw [hcl]; exact hf.2.2
          exact hzero ((vv_records hwf' a).1 hca).1 hca
        | true =>
          have hd : AllDone s := ⟨(v2_phase_F hwf.phase hq).d.selected, hq⟩
          obtain ⟨_, k2, _, _, _, _, _, k8⟩ := vv_done_frame hwf h1 hd h4
          obtain ⟨q1, _, q3⟩ := k8 hcc
          rw [q1, q3, k2]
          exact ih a

end LP

#print axioms LP.vv_reach_ghost
#print axioms LP.vv_ghost_total
