import LP.Proofs.ReserveSeq
/-
  LP.Proofs.ReserveExamples — concrete instances: the invariant is satisfiable, and each
  strengthening / extra hypothesis of LP.Proofs.Reserve is necessary (counterexample traces).
-/
namespace LP

def sBase (v : Variant) : State :=
  { variant := v, owner := 0, lpTok := 1, perTicket := 1, payTok := .egld, price := 1,
    nrWinning := 5, cfg := ⟨5, 10, 15⟩, flags := {}, support := 0 }

def eOwner : Env := { caller := 0, round := 0 }

/-- v2: user 7 holds tickets 1..3 and a guarantee of 2; reserve 3 + 2 = 5 -/
def sLive : State :=
  { (sBase .guarV2) with
    whitelist := [7], totalGuaranteed := 2, nrWinning := 3,
    uts := upd (fun _ => none) 7 (some { a := 3, infos := [(2, 2)] }),
    range := upd (fun _ => none) 7 (some ⟨1, 3⟩), lastTicketId := 3 }

theorem sLive_inv : GuarInv true sLive := by
  refine ⟨by decide, by decide, ?_, ?_, ?_, ?_⟩
  · intro u st hu hp
    by_cases h : u = 7
    · simp [sLive, h]
    · simp [sLive, sBase, h] at hu
  · intro u hu
    have : u = 7 := by simpa [sLive] using hu
    subst this
    exact ⟨_, rfl, by decide⟩
  · intro u hu
    by_cases h : u = 7
    · subst h; rfl
    · simp [sLive, sBase, h] at hu
  · intro h; cases h

/-- Counterexample 1 (hypothesis `∀ u ∈ l, uts u = none` of the v2 restore hook):
    restoring a user who is NOT blacklisted overwrites his live record with the empty one;
    `totalGuaranteed` stays 2 while the whitelist sum drops to 0.  The endpoint excludes it:
    `removeUsersFromBlacklist` demands `blacklist u`, and blacklisted users have no live
    record (`GuarInvX.bl_none`). -/
theorem ce_restore_live : ∃ s', restoreGuaranteedV2 sLive [7] = .ok s' ∧ s'.whitelist = [7] ∧
    s'.totalGuaranteed = 2 ∧ gSum true s'.uts s'.whitelist = 0 :=
  ⟨_, rfl, rfl, rfl, by decide⟩

/-- v2: user 7 is blacklisted with a stored guarantee of 2 -/
def sBl : State :=
  { (sBase .guarV2) with
    blUts := upd (fun _ => none) 7 (some { a := 3, infos := [(2, 2)] }),
    blacklist := upd (fun _ => false) 7 true,
    range := upd (fun _ => none) 7 (some ⟨1, 3⟩), lastTicketId := 3 }

/-- Counterexample 2 (hypothesis `l.Nodup` of the v2 restore hook): the second occurrence
    finds `blUts 7` empty and overwrites the restored record: total 2, whitelist sum 0.
    The endpoint excludes it: the common un-blacklist loop rejects the second occurrence
    ("User is not blacklisted"). -/
theorem ce_restore_twice : ∃ s', restoreGuaranteedV2 sBl [7, 7] = .ok s' ∧ s'.whitelist = [7] ∧
    s'.nrWinning = 3 ∧ s'.totalGuaranteed = 2 ∧ gSum true s'.uts s'.whitelist = 0 :=
  ⟨_, rfl, rfl, rfl, rfl, by decide⟩

/-- v2: as `sLive` but user 7 has no ticket range (violates strengthening 1 only) -/
def sNoRange : State :=
  { (sBase .guarV2) with
    whitelist := [7], totalGuaranteed := 2, nrWinning := 3,
    uts := upd (fun _ => none) 7 (some { a := 3, infos := [(2, 2)] }) }

/-- Counterexample 3 (strengthening 1, `has_range`): the four clauses of the plain invariant
    hold in `sNoRange`, yet allocating again to user 7 (`setInsert` on an address already in
    the whitelist) replaces his record: total 2 + 1 = 3 but whitelist sum 1.  Unreachable in
    the contract: a record is only ever created together with a range, and ranges are not
    removed before winner selection. -/
theorem ce_add_whitelisted :
    (addTicketsV2 ⟨sNoRange, {}, {}⟩ eOwner [(7, 1, [(1, 1)])]).map
      (fun t' => (t'.s.whitelist, t'.s.totalGuaranteed, t'.s.nrWinning,
                  gSum true t'.s.uts t'.s.whitelist)) = .ok ([7], 3, 2, 1) := by
  rfl

/-- v1: user 7 has a range but neither a live nor a blacklisted record -/
def sV1 : State :=
  { (sBase .guarV1) with
    range := upd (fun _ => none) 7 (some ⟨1, 1⟩), lastTicketId := 1 }

/-- Counterexample 4 (strengthening 2, `bl_pos`, v1 only): the v1 restore hook whitelists a
    user whose stored record is empty, i.e. a whitelist member with guarantee 0 (fourth clause
    of the plain invariant broken; reserve still conserved).  Unreachable in the contract:
    the v1 variants expose only `addTickets` with guarantees, which always writes a record,
    and a record disappears only when a positive guarantee is moved to `blUts`. -/
theorem ce_restore_v1_empty : ∃ s', restoreGuaranteedV1 sV1 [7] = .ok s' ∧ s'.whitelist = [7] ∧
    s'.uts 7 = some {} ∧ s'.totalGuaranteed = 0 :=
  ⟨_, rfl, rfl, rfl, rfl⟩

/-- a complete accepted history on the real dispatcher: allocate (guarantee 2), blacklist,
    un-blacklist; the reserve 5 is split 3 + 2, then 5 + 0, then 3 + 2 again -/
def hist : List (Env × Call) :=
  [(eOwner, .addTicketsV2 [(7, 3, [(2, 2)]), (8, 1, [])]), (eOwner, .blacklist [7]),
   (eOwner, .unblacklist [7])]

theorem hist_guar : ∀ ec ∈ hist, isGuarCall ec.2 = true := by decide

theorem sBase_invX : GuarInvX (sBase .guarV2) :=
  GuarInvX_initial _ rfl rfl rfl rfl rfl

end LP

namespace LP

theorem hist_run :
    ((run (fun x => x) (sBase .guarV2) (hist.take 1)).nrWinning,
     (run (fun x => x) (sBase .guarV2) (hist.take 1)).totalGuaranteed,
     (run (fun x => x) (sBase .guarV2) (hist.take 2)).nrWinning,
     (run (fun x => x) (sBase .guarV2) (hist.take 2)).totalGuaranteed,
     (run (fun x => x) (sBase .guarV2) hist).nrWinning,
     (run (fun x => x) (sBase .guarV2) hist).totalGuaranteed,
     (run (fun x => x) (sBase .guarV2) hist).whitelist) = (3, 2, 5, 0, 3, 2, [7]) := by
  rfl

end LP
