import LP.Step
/-
  Helper lemmas for reasoning about `step`: inversion of an accepted call, and small facts
  about `req`, `creditPayments` and the Except monad used by the endpoint bodies.
-/
namespace LP

@[simp] theorem req_ok_iff (c : Bool) (msg : String) (u : Unit) : req c msg = .ok u ↔ c = true := by
  unfold req; cases c <;> simp

theorem req_true (msg : String) : req true msg = .ok () := rfl
theorem req_false (msg : String) : req false msg = .error (.user msg) := rfl

/-- the initial transaction record of a call -/
def tx0 (s : State) (e : Env) : Tx := ⟨creditPayments s e, ⟨e.budget, e.seeds, e.script⟩, {}⟩

/-- inversion of an accepted call: the endpoint exists, the dispatcher checks passed, the body ran -/
theorem step_ok_inv {hash : List Nat → List Nat} {s : State} {e : Env} {c : Call} {s' : State} {o : Out}
    (h : step hash s e c = .ok (s', o)) :
    ∃ m t, endpointMeta s.variant c = some m ∧
      (m.payable = true ∨ (e.egld = 0 ∧ e.esdts = [])) ∧
      (m.ownerOnly = true → e.caller = s.owner) ∧
      exec hash (tx0 s e) e c = .ok t ∧ s' = t.s ∧ o = t.o := by
  unfold step at h
  cases hm : endpointMeta s.variant c with
  | none => simp [hm] at h
  | some m =>
    simp only [hm] at h
    split at h
    · simp at h
    · split at h
      · simp at h
      · rename_i h1 h2
        cases hx : exec hash ⟨creditPayments s e, ⟨e.budget, e.seeds, e.script⟩, {}⟩ e c with
        | error err => simp [hx] at h
        | ok t =>
          simp [hx] at h
          refine ⟨m, t, rfl, ?_, ?_, hx, h.1.symm, h.2.symm⟩
          · cases hp : m.payable
            · right
              simp [hp] at h1
              constructor
              · omega
              · exact h1.2
            · left; rfl
          · intro ho
            simp [ho] at h2
            exact h2

@[simp] theorem creditPayments_owner (s : State) (e : Env) : (creditPayments s e).owner = s.owner := rfl
@[simp] theorem creditPayments_variant (s : State) (e : Env) : (creditPayments s e).variant = s.variant := rfl
@[simp] theorem creditPayments_paused (s : State) (e : Env) : (creditPayments s e).paused = s.paused := rfl
@[simp] theorem creditPayments_flags (s : State) (e : Env) : (creditPayments s e).flags = s.flags := rfl
@[simp] theorem creditPayments_cfg (s : State) (e : Env) : (creditPayments s e).cfg = s.cfg := rfl
@[simp] theorem creditPayments_support (s : State) (e : Env) : (creditPayments s e).support = s.support := rfl
@[simp] theorem creditPayments_price (s : State) (e : Env) : (creditPayments s e).price = s.price := rfl
@[simp] theorem creditPayments_payTok (s : State) (e : Env) : (creditPayments s e).payTok = s.payTok := rfl
@[simp] theorem creditPayments_perTicket (s : State) (e : Env) : (creditPayments s e).perTicket = s.perTicket := rfl
@[simp] theorem creditPayments_deposited (s : State) (e : Env) : (creditPayments s e).deposited = s.deposited := rfl
@[simp] theorem creditPayments_confirmed (s : State) (e : Env) : (creditPayments s e).confirmed = s.confirmed := rfl
@[simp] theorem creditPayments_blacklist (s : State) (e : Env) : (creditPayments s e).blacklist = s.blacklist := rfl
@[simp] theorem creditPayments_range (s : State) (e : Env) : (creditPayments s e).range = s.range := rfl
@[simp] theorem creditPayments_stage (s : State) (e : Env) : (creditPayments s e).stage e = s.stage e := rfl

/-- with no call value the credit is the identity on balances -/
theorem creditPayments_nopay (s : State) (e : Env) (h1 : e.egld = 0) (h2 : e.esdts = []) :
    creditPayments s e = s := by
  unfold creditPayments
  simp only [h1, h2, List.foldl_nil]
  have : s.bal.add .egld 0 0 = s.bal := by
    funext t n; unfold Bal.add; split <;> simp
  rw [this]

end LP

namespace LP

theorem bind_ok_iff {α β : Type} (x : Res α) (f : α → Res β) (b : β) :
    (x >>= f) = .ok b ↔ ∃ a, x = .ok a ∧ f a = .ok b := by
  cases x with
  | error e => simp [bind, Except.bind]
  | ok a => simp [bind, Except.bind]

theorem pure_ok_iff {α : Type} (a b : α) : (pure a : Res α) = .ok b ↔ a = b := by
  simp [pure, Except.pure]

theorem bind_error_iff {α β : Type} (x : Res α) (f : α → Res β) (err : Err) :
    (x >>= f) = .error err ↔ x = .error err ∨ ∃ a, x = .ok a ∧ f a = .error err := by
  cases x with
  | error e => simp [bind, Except.bind]
  | ok a => simp [bind, Except.bind]

end LP

namespace LP

theorem Token.beq_iff (a b : Token) : (a == b) = true ↔ a = b := by
  cases a <;> cases b <;> simp [BEq.beq, instBEqToken.beq]

instance : LawfulBEq Token where
  eq_of_beq := fun h => (Token.beq_iff _ _).mp h
  rfl := (Token.beq_iff _ _).mpr rfl

end LP
