import LP.Proofs.TopUp
/-
  LP.Proofs.Reserve — the guaranteed-ticket reserve: `nrWinning + totalGuaranteed` is conserved
  by allocation / blacklist / un-blacklist hooks, the counters never underflow, and
  `totalGuaranteed` is the sum of the guarantees of the whitelisted users.
-/
namespace LP

/-! ### setInsert / swapRemove -/

theorem setInsert_fst_of_mem {l : List Nat} {a : Nat} (h : a ∈ l) : (setInsert l a).1 = l := by
  simp [setInsert, h]

theorem setInsert_of_not_mem {l : List Nat} {a : Nat} (h : a ∉ l) :
    setInsert l a = (l ++ [a], true) := by
  simp [setInsert, h]

theorem idxOf?_split (l : List Nat) (a : Nat) (h : a ∈ l) :
    ∃ pre post, l = pre ++ a :: post ∧ a ∉ pre ∧ l.idxOf? a = some pre.length := by
  induction l with
  | nil => cases h
  | cons x xs ih =>
    by_cases hx : x = a
    · exact ⟨[], xs, by simp [hx], by simp, by simp [List.idxOf?_cons, hx]⟩
    · have h' : a ∈ xs := by
        rcases List.mem_cons.1 h with h | h
        · exact absurd h.symm hx
        · exact h
      obtain ⟨pre, post, h1, h2, h3⟩ := ih h'
      refine ⟨x :: pre, post, by simp [h1], ?_, ?_⟩
      · simp only [List.mem_cons, not_or]; exact ⟨fun e => hx e.symm, h2⟩
      · simp [List.idxOf?_cons, hx, h3]

/-- `swap_remove` removes exactly one occurrence (the first) of `a`, up to order. -/
theorem swapRemove_perm (l : List Nat) (a : Nat) : (swapRemove l a).1.Perm (l.erase a) := by
  by_cases h : a ∈ l
  · obtain ⟨pre, post, h1, h2, h3⟩ := idxOf?_split l a h
    have herase : l.erase a = pre ++ post := by
      rw [h1, List.erase_append, if_neg h2]; simp
    rw [herase]
    rcases List.eq_nil_or_concat post with hp | ⟨p', z, hp⟩
    · subst hp
      have hl : l.getLast? = some a := by rw [h1]; simp
      have hlen : pre.length + 1 = l.length := by rw [h1]; simp
      simp only [swapRemove, h3, hl, hlen, if_true]
      rw [h1]; simp
    · rw [List.concat_eq_append] at hp
      subst hp
      have hl : l.getLast? = some z := by rw [h1]; simp [List.getLast?_append, List.getLast?_cons]
      have hlen : ¬ (pre.length + 1 = l.length) := by rw [h1]; simp
      simp only [swapRemove, h3, hl, hlen, if_false]
      have hset : (l.set pre.length z).dropLast = pre ++ z :: p' := by
        rw [h1, List.set_append]
        simp only [Nat.lt_irrefl, if_false, Nat.sub_self, List.set_cons_zero]
        rw [List.dropLast_append_cons]
        have : z :: (p' ++ [z]) = (z :: p') ++ [z] := rfl
        rw [this, List.dropLast_concat]
      rw [hset]
      apply List.Perm.append_left
      exact (List.perm_append_comm : ([z] ++ p').Perm (p' ++ [z]))
  · have : l.idxOf? a = none := List.idxOf?_eq_none_iff.2 h
    simp only [swapRemove, this]
    rw [List.erase_of_not_mem h]

theorem swapRemove_snd (l : List Nat) (a : Nat) : (swapRemove l a).2 = decide (a ∈ l) := by
  by_cases h : a ∈ l
  · obtain ⟨pre, post, h1, h2, h3⟩ := idxOf?_split l a h
    have hl : ∃ z, l.getLast? = some z := by
      rw [h1]; simp [List.getLast?_append, List.getLast?_cons]
    obtain ⟨z, hz⟩ := hl
    simp only [swapRemove, h3, hz, h, decide_true]
    split <;> rfl
  · have : l.idxOf? a = none := List.idxOf?_eq_none_iff.2 h
    simp [swapRemove, this, h]

theorem swapRemove_of_not_mem {l : List Nat} {a : Nat} (h : a ∉ l) : swapRemove l a = (l, false) := by
  have : l.idxOf? a = none := List.idxOf?_eq_none_iff.2 h
  simp [swapRemove, this]

theorem swapRemove_nodup {l : List Nat} (a : Nat) (h : l.Nodup) : (swapRemove l a).1.Nodup :=
  (swapRemove_perm l a).nodup_iff.2 (h.erase a)

theorem mem_swapRemove {l : List Nat} {a x : Nat} (h : l.Nodup) :
    x ∈ (swapRemove l a).1 ↔ x ≠ a ∧ x ∈ l := by
  rw [(swapRemove_perm l a).mem_iff, h.mem_erase_iff]

theorem swapRemove_length {l : List Nat} {a : Nat} (h : a ∈ l) :
    (swapRemove l a).1.length + 1 = l.length := by
  rw [(swapRemove_perm l a).length_eq, List.length_erase_of_mem h]
  have : 0 < l.length := List.length_pos_of_mem h
  omega

/-! ### the guarantee amount and its sum over the whitelist -/

/-- guarantee amount of one record -/
def gOf (v2 : Bool) (st : UTS) : Nat := if v2 then sumG st.infos else st.c + st.d

@[simp] theorem gOf_default (v2 : Bool) : gOf v2 {} = 0 := by cases v2 <;> rfl

@[simp] theorem gOf_true (st : UTS) : gOf true st = sumG st.infos := rfl
@[simp] theorem gOf_false (st : UTS) : gOf false st = st.c + st.d := rfl

def gSum (v2 : Bool) (uts : Nat → Option UTS) (wl : List Nat) : Nat :=
  (wl.map (fun u => gOf v2 ((uts u).getD {}))).sum

@[simp] theorem gSum_nil (v2 : Bool) (uts : Nat → Option UTS) : gSum v2 uts [] = 0 := rfl

theorem gSum_cons (v2 : Bool) (uts : Nat → Option UTS) (u : Nat) (wl : List Nat) :
    gSum v2 uts (u :: wl) = gOf v2 ((uts u).getD {}) + gSum v2 uts wl := by
  simp [gSum]

theorem gSum_upd_not_mem (v2 : Bool) (uts : Nat → Option UTS) (wl : List Nat) (k : Nat)
    (v : Option UTS) (h : k ∉ wl) : gSum v2 (upd uts k v) wl = gSum v2 uts wl := by
  unfold gSum
  congr 1
  apply List.map_congr_left
  intro a ha
  have : a ≠ k := fun e => h (e ▸ ha)
  simp [this]

theorem gSum_append (v2 : Bool) (uts : Nat → Option UTS) (wl wl' : List Nat) :
    gSum v2 uts (wl ++ wl') = gSum v2 uts wl + gSum v2 uts wl' := by
  simp [gSum, List.sum_append]

theorem gSum_perm (v2 : Bool) (uts : Nat → Option UTS) {wl wl' : List Nat} (h : wl.Perm wl') :
    gSum v2 uts wl = gSum v2 uts wl' :=
  (h.map _).sum_nat

theorem gSum_erase (v2 : Bool) (uts : Nat → Option UTS) {wl : List Nat} {u : Nat} (h : u ∈ wl) :
    gSum v2 uts wl = gOf v2 ((uts u).getD {}) + gSum v2 uts (wl.erase u) := by
  rw [gSum_perm v2 uts (List.perm_cons_erase h), gSum_cons]

/-! ### the invariant, on the components the loops carry -/

/-- Core of the invariant on (whitelist, live records, blacklisted records, ranges,
    total guaranteed). -/
structure GI (v2 : Bool) (wl : List Nat) (uts blUts : Nat → Option UTS)
    (range : Nat → Option Range) (tg : Nat) : Prop where
  nodup : wl.Nodup
  total : tg = gSum v2 uts wl
  mem_of_pos : ∀ u st, uts u = some st → gOf v2 st > 0 → u ∈ wl
  pos_of_mem : ∀ u, u ∈ wl → ∃ st, uts u = some st ∧ gOf v2 st > 0
  /-- strengthening 1: a live record belongs to a user with a ticket range -/
  has_range : ∀ u, (uts u).isSome → (range u).isSome
  /-- strengthening 2 (v1 only): a user with tickets but without live record was blacklisted
      while holding a positive guarantee (his record is kept in `blUts`) -/
  bl_pos : v2 = false → ∀ u, (range u).isSome → uts u = none →
    ∃ st, blUts u = some st ∧ gOf false st > 0

/-- the invariant on a state -/
def GuarInv (v2 : Bool) (s : State) : Prop :=
  GI v2 s.whitelist s.uts s.blUts s.range s.totalGuaranteed

theorem GI.not_mem_of_none {v2 wl uts bl range tg} (h : GI v2 wl uts bl range tg) {u : Nat}
    (hu : uts u = none) : u ∉ wl := by
  intro hm
  obtain ⟨st, h1, _⟩ := h.pos_of_mem u hm
  rw [hu] at h1; cases h1

theorem GI.le_total {v2 wl uts bl range tg} (h : GI v2 wl uts bl range tg) {u : Nat}
    (hu : u ∈ wl) : gOf v2 ((uts u).getD {}) ≤ tg := by
  rw [h.total, gSum_erase v2 uts hu]; omega

/-- a record with a positive guarantee is created for a user without live record -/
theorem GI.insert {v2 wl uts bl range tg} (h : GI v2 wl uts bl range tg) {u : Nat} {st : UTS}
    {bl' : Nat → Option UTS} {range' : Nat → Option Range}
    (hu : uts u = none) (hg : gOf v2 st > 0) (hr : (range' u).isSome)
    (hr' : ∀ x, x ≠ u → range' x = range x) (hb' : ∀ x, x ≠ u → bl' x = bl x) :
    GI v2 (setInsert wl u).1 (upd uts u (some st)) bl' range' (tg + gOf v2 st) := by
  have hnm : u ∉ wl := h.not_mem_of_none hu
  rw [setInsert_of_not_mem hnm]
  refine ⟨?_, ?_, ?_, ?_, ?_, ?_⟩
  · rw [List.nodup_append]
    refine ⟨h.nodup, by simp, ?_⟩
    intro a ha b hb
    simp only [List.mem_singleton] at hb
    subst hb; exact fun e => hnm (e ▸ ha)
  · rw [gSum_append, gSum_upd_not_mem _ _ _ _ _ hnm, ← h.total]
    simp [gSum]
  · intro x st' hx hpos
    by_cases hxu : x = u
    · simp [hxu]
    · rw [upd_other _ _ _ _ hxu] at hx
      simp [h.mem_of_pos x st' hx hpos]
  · intro x hx
    by_cases hxu : x = u
    · subst hxu; exact ⟨st, by simp, hg⟩
    · rw [upd_other _ _ _ _ hxu]
      apply h.pos_of_mem
      simpa [hxu] using hx
  · intro x hx
    by_cases hxu : x = u
    · subst hxu; exact hr
    · rw [upd_other _ _ _ _ hxu] at hx
      rw [hr' x hxu]; exact h.has_range x hx
  · intro hv x hx hn
    by_cases hxu : x = u
    · subst hxu; simp at hn
    · rw [upd_other _ _ _ _ hxu] at hn
      rw [hr' x hxu] at hx; rw [hb' x hxu]
      exact h.bl_pos hv x hx hn

/-- a record with guarantee 0 is created for a user without live record -/
theorem GI.insert_zero {v2 wl uts bl range tg} (h : GI v2 wl uts bl range tg) {u : Nat} {st : UTS}
    {bl' : Nat → Option UTS} {range' : Nat → Option Range}
    (hu : uts u = none) (hg : gOf v2 st = 0) (hr : (range' u).isSome)
    (hr' : ∀ x, x ≠ u → range' x = range x) (hb' : ∀ x, x ≠ u → bl' x = bl x) :
    GI v2 wl (upd uts u (some st)) bl' range' tg := by
  have hnm : u ∉ wl := h.not_mem_of_none hu
  refine ⟨h.nodup, ?_, ?_, ?_, ?_, ?_⟩
  · rw [gSum_upd_not_mem _ _ _ _ _ hnm]; exact h.total
  · intro x st' hx hpos
    by_cases hxu : x = u
    · subst hxu
      simp at hx; subst hx; omega
    · rw [upd_other _ _ _ _ hxu] at hx
      exact h.mem_of_pos x st' hx hpos
  · intro x hx
    have hxu : x ≠ u := fun e => hnm (e ▸ hx)
    rw [upd_other _ _ _ _ hxu]
    exact h.pos_of_mem x hx
  · intro x hx
    by_cases hxu : x = u
    · subst hxu; exact hr
    · rw [upd_other _ _ _ _ hxu] at hx
      rw [hr' x hxu]; exact h.has_range x hx
  · intro hv x hx hn
    by_cases hxu : x = u
    · subst hxu; simp at hn
    · rw [upd_other _ _ _ _ hxu] at hn
      rw [hr' x hxu] at hx; rw [hb' x hxu]
      exact h.bl_pos hv x hx hn

/-- the record of a whitelisted user is moved to the blacklist store -/
theorem GI.remove {v2 wl uts bl range tg} (h : GI v2 wl uts bl range tg) {u : Nat}
    (hu : u ∈ wl) :
    GI v2 (swapRemove wl u).1 (upd uts u none) (upd bl u (some ((uts u).getD {}))) range
      (tg - gOf v2 ((uts u).getD {})) := by
  have hnm : u ∉ (swapRemove wl u).1 := by
    rw [mem_swapRemove h.nodup]; simp
  refine ⟨swapRemove_nodup u h.nodup, ?_, ?_, ?_, ?_, ?_⟩
  · rw [gSum_upd_not_mem _ _ _ _ _ hnm, gSum_perm v2 uts (swapRemove_perm wl u), h.total,
      gSum_erase v2 uts hu]
    omega
  · intro x st' hx hpos
    by_cases hxu : x = u
    · subst hxu; simp at hx
    · rw [upd_other _ _ _ _ hxu] at hx
      rw [mem_swapRemove h.nodup]
      exact ⟨hxu, h.mem_of_pos x st' hx hpos⟩
  · intro x hx
    rw [mem_swapRemove h.nodup] at hx
    rw [upd_other _ _ _ _ hx.1]
    exact h.pos_of_mem x hx.2
  · intro x hx
    by_cases hxu : x = u
    · subst hxu; simp at hx
    · rw [upd_other _ _ _ _ hxu] at hx
      exact h.has_range x hx
  · intro hv x hx hn
    by_cases hxu : x = u
    · subst hxu
      obtain ⟨st, h1, h2⟩ := h.pos_of_mem x hu
      subst hv
      exact ⟨st, by simp [h1], h2⟩
    · rw [upd_other _ _ _ _ hxu] at hn
      rw [upd_other _ _ _ _ hxu]
      exact h.bl_pos hv x hx hn

/-- v2 only: the (zero-guarantee or absent) record of a non-whitelisted user is moved -/
theorem GI.remove_not_mem {wl uts bl range tg} (h : GI true wl uts bl range tg) {u : Nat}
    (hu : u ∉ wl) (st : UTS) :
    GI true wl (upd uts u none) (upd bl u (some st)) range tg := by
  refine ⟨h.nodup, ?_, ?_, ?_, ?_, ?_⟩
  · rw [gSum_upd_not_mem _ _ _ _ _ hu]; exact h.total
  · intro x st' hx hpos
    by_cases hxu : x = u
    · subst hxu; simp at hx
    · rw [upd_other _ _ _ _ hxu] at hx
      exact h.mem_of_pos x st' hx hpos
  · intro x hx
    have hxu : x ≠ u := fun e => hu (e ▸ hx)
    rw [upd_other _ _ _ _ hxu]
    exact h.pos_of_mem x hx
  · intro x hx
    by_cases hxu : x = u
    · subst hxu; simp at hx
    · rw [upd_other _ _ _ _ hxu] at hx
      exact h.has_range x hx
  · intro hv; cases hv

theorem GI.gOf_zero_of_not_mem {v2 wl uts bl range tg} (h : GI v2 wl uts bl range tg) {u : Nat}
    (hu : u ∉ wl) : gOf v2 ((uts u).getD {}) = 0 := by
  cases hs : uts u with
  | none => simp
  | some st =>
    simp only [Option.getD_some]
    by_cases hz : gOf v2 st = 0
    · exact hz
    · exact absurd (h.mem_of_pos u st hs (by omega)) hu

end LP

namespace LP

/-- outcome classification: success with a result satisfying `P`, or rejection by a
    `require!` (user error) — never a panic, never a VM error -/
def SatU {α : Type} (r : Res α) (P : α → Prop) : Prop :=
  match r with
  | .ok a => P a
  | .error e => ∃ m, e = .user m

@[simp] theorem SatU_ok {α : Type} (a : α) (P : α → Prop) : SatU (.ok a : Res α) P = P a := rfl
@[simp] theorem SatU_user {α : Type} (m : String) (P : α → Prop) :
    SatU (.error (.user m) : Res α) P := ⟨m, rfl⟩

theorem SatU.of_ok {α : Type} {r : Res α} {P : α → Prop} (h : SatU r P) {a : α}
    (hr : r = .ok a) : P a := by subst hr; exact h

theorem SatU.no_panic {α : Type} {r : Res α} {P : α → Prop} (h : SatU r P) (site : String) :
    r ≠ .error (.panic site) := by
  intro hr; subst hr
  obtain ⟨m, hm⟩ := h
  cases hm

theorem SatU.mono {α : Type} {r : Res α} {P Q : α → Prop} (h : SatU r P) (hpq : ∀ a, P a → Q a) :
    SatU r Q := by
  cases r with
  | ok a => exact hpq a h
  | error e => exact h

/-! ### blacklist hook, v2 -/

theorem clearV2Many_spec (l : List Nat) (s : State) (nw tg : Nat)
    (h : GI true s.whitelist s.uts s.blUts s.range tg) :
    ∃ s' nw' tg', clearV2Many l (s, nw, tg) = .ok (s', nw', tg') ∧ nw' + tg' = nw + tg ∧
      GI true s'.whitelist s'.uts s'.blUts s'.range tg' := by
  induction l generalizing s nw tg with
  | nil => exact ⟨s, nw, tg, rfl, rfl, h⟩
  | cons u rest ih =>
    simp only [clearV2Many]
    have hle : sumG ((s.uts u).getD {}).infos ≤ tg := by
      by_cases hu : u ∈ s.whitelist
      · exact h.le_total hu
      · have := h.gOf_zero_of_not_mem hu
        simp only [gOf_true] at this; omega
    simp only [csub, hle, if_true]
    have hGI : GI true (swapRemove s.whitelist u).1 (upd s.uts u none)
        (upd s.blUts u (some ((s.uts u).getD {}))) s.range
        (tg - sumG ((s.uts u).getD {}).infos) := by
      by_cases hu : u ∈ s.whitelist
      · exact h.remove hu
      · have h0 := h.gOf_zero_of_not_mem hu
        simp only [gOf_true] at h0
        rw [swapRemove_of_not_mem hu, h0]
        exact h.remove_not_mem hu _
    obtain ⟨s', nw', tg', h1, h2, h3⟩ := ih
      { s with whitelist := (swapRemove s.whitelist u).1, uts := upd s.uts u none,
               blUts := upd s.blUts u (some ((s.uts u).getD {})) }
      (nw + sumG ((s.uts u).getD {}).infos) _ hGI
    exact ⟨s', nw', tg', h1, by omega, h3⟩

end LP

namespace LP

/-! ### un-blacklist hook, v2 -/

/-- the `GI` part of a loop accumulator -/
abbrev GIs (v2 : Bool) (s : State) (tg : Nat) : Prop :=
  GI v2 s.whitelist s.uts s.blUts s.range tg

theorem restoreV2Many_spec (l : List Nat) (s : State) (nw tg : Nat)
    (h : GIs true s tg) (hnd : l.Nodup) (hno : ∀ u ∈ l, s.uts u = none) :
    SatU (restoreV2Many l (s, nw, tg))
      (fun r => r.2.1 + r.2.2 = nw + tg ∧ GIs true r.1 r.2.2) := by
  induction l generalizing s nw tg with
  | nil => exact ⟨rfl, h⟩
  | cons u rest ih =>
    have hnd' := (List.nodup_cons.1 hnd)
    simp only [restoreV2Many]
    split
    · exact ih s nw tg h hnd'.2 (fun x hx => hno x (List.mem_cons_of_mem _ hx))
    · rename_i hr
      have hr' : (s.range u).isSome = true := by
        cases hq : s.range u <;> simp [hq] at hr ⊢
      have hu : s.uts u = none := hno u (List.mem_cons_self ..)
      have hrest : ∀ x ∈ rest, upd s.uts u (some ((s.blUts u).getD {})) x = none := by
        intro x hx
        have : x ≠ u := fun e => hnd'.1 (e ▸ hx)
        rw [upd_other _ _ _ _ this]
        exact hno x (List.mem_cons_of_mem _ hx)
      split
      · rename_i hpos
        split
        · exact SatU_user _ _
        · rename_i hle
          have hGI := h.insert (st := (s.blUts u).getD {}) (bl' := upd s.blUts u none)
            (range' := s.range) hu (by simpa using hpos) hr' (fun _ _ => rfl)
            (fun x hx => upd_other _ _ _ _ hx)
          refine (ih { s with whitelist := (setInsert s.whitelist u).1,
                              blUts := upd s.blUts u none,
                              uts := upd s.uts u (some ((s.blUts u).getD {})) }
            _ _ hGI hnd'.2 hrest).mono ?_
          intro r hr; refine ⟨?_, hr.2⟩
          have := hr.1
          simp only [gOf_true] at this; omega
      · rename_i hz
        have hGI := h.insert_zero (st := (s.blUts u).getD {}) (bl' := upd s.blUts u none)
            (range' := s.range) hu (by simp only [gOf_true]; omega) hr' (fun _ _ => rfl)
            (fun x hx => upd_other _ _ _ _ hx)
        exact ih { s with blUts := upd s.blUts u none,
                          uts := upd s.uts u (some ((s.blUts u).getD {})) }
            _ _ hGI hnd'.2 hrest

/-! ### allocation, v2 -/

theorem tryCreateTickets_cases (s : State) (buyer n : Nat) :
    (∃ m, tryCreateTickets s buyer n = .error (.user m)) ∨
    (s.range buyer = none ∧
      tryCreateTickets s buyer n = .ok
        { s with range := upd s.range buyer (some ⟨s.lastTicketId + 1, s.lastTicketId + 1 + n - 1⟩),
                 batch := upd s.batch (s.lastTicketId + 1) (some ⟨buyer, n⟩),
                 lastTicketId := s.lastTicketId + 1 + n - 1 }) := by
  unfold tryCreateTickets req
  cases hr : s.range buyer with
  | some r => left; exact ⟨"Duplicate entry for user", by simp [bind, Except.bind]⟩
  | none =>
    by_cases h2 : s.lastTicketId + 1 < usizeMax - n
    · right; simp [bind, Except.bind, h2, pure, Except.pure]
    · left; exact ⟨"Maximum number of tickets was reached", by simp [bind, Except.bind, h2]⟩

theorem addV2Many_spec (e : Env) (l : List (Nat × Nat × List (Nat × Nat))) (s : State)
    (tw tg uc ta ga : Nat) (h : GIs true s tg) :
    SatU (addV2Many e l (s, tw, tg, uc, ta, ga))
      (fun r => r.2.1 + r.2.2.1 = tw + tg ∧ GIs true r.1 r.2.2.1) := by
  induction l generalizing s tw tg uc ta ga with
  | nil => exact ⟨rfl, h⟩
  | cons x rest ih =>
    obtain ⟨buyer, n, infos⟩ := x
    simp only [addV2Many]
    split
    · exact ih s tw tg uc ta ga h
    split
    · exact SatU_user _ _
    split
    · exact SatU_user _ _
    split
    · exact SatU_user _ _
    rcases tryCreateTickets_cases s buyer n with ⟨m, hm⟩ | ⟨hnone, hok⟩
    · rw [hm]; exact SatU_user _ _
    · rw [hok]
      simp only []
      have hu : s.uts buyer = none := by
        cases hq : s.uts buyer with
        | none => rfl
        | some st =>
          have := h.has_range buyer (by simp [hq])
          simp [hnone] at this
      split
      · exact SatU_user _ _
      split
      · rename_i hpos
        split
        · exact SatU_user _ _
        · rename_i hle
          have hGI := h.insert (st := { a := n, infos := infos }) (bl' := s.blUts)
            (range' := upd s.range buyer (some ⟨s.lastTicketId + 1, s.lastTicketId + 1 + n - 1⟩))
            hu (by simpa using hpos) (by simp) (fun x hx => upd_other _ _ _ _ hx)
            (fun _ _ => rfl)
          refine (ih _ _ _ _ _ _ hGI).mono ?_
          intro r hr; refine ⟨?_, hr.2⟩
          have := hr.1
          omega
      · have hGI := h.insert_zero (st := { a := n, infos := [] }) (bl' := s.blUts)
            (range' := upd s.range buyer (some ⟨s.lastTicketId + 1, s.lastTicketId + 1 + n - 1⟩))
            hu (by simp) (by simp) (fun x hx => upd_other _ _ _ _ hx)
            (fun _ _ => rfl)
        exact ih _ _ _ _ _ _ hGI

end LP

namespace LP

/-! ### v1 family -/

theorem clearV1Many_spec (l : List Nat) (s : State) (removed tg : Nat)
    (h : GIs false s tg) :
    ∃ s' removed' tg', clearV1Many l (s, removed, tg) = .ok (s', removed', tg') ∧
      removed' + tg' = removed + tg ∧ GIs false s' tg' ∧ s'.nrWinning = s.nrWinning := by
  induction l generalizing s removed tg with
  | nil => exact ⟨s, removed, tg, rfl, rfl, h, rfl⟩
  | cons u rest ih =>
    simp only [clearV1Many]
    by_cases hu : u ∈ s.whitelist
    · have hsnd : (swapRemove s.whitelist u).2 = true := by rw [swapRemove_snd]; simp [hu]
      have hle := h.le_total hu
      simp only [gOf_false] at hle
      have h1 : ((s.uts u).getD {}).c ≤ tg := by omega
      have h2 : ((s.uts u).getD {}).d ≤ tg - ((s.uts u).getD {}).c := by omega
      simp only [hsnd, csub, h1, h2, if_true, Bool.not_true, Bool.false_eq_true, if_false]
      have hGI := h.remove hu
      simp only [gOf_false] at hGI
      rw [← Nat.sub_sub] at hGI
      obtain ⟨s', r', tg', e1, e2, e3, e4⟩ := ih
        { s with whitelist := (swapRemove s.whitelist u).1, uts := upd s.uts u none,
                 blUts := upd s.blUts u (some ((s.uts u).getD {})) }
        (removed + ((s.uts u).getD {}).c + ((s.uts u).getD {}).d) _ hGI
      exact ⟨s', r', tg', e1, by omega, e3, e4⟩
    · rw [swapRemove_of_not_mem hu]
      simp only [Bool.not_false, if_true]
      exact ih { s with whitelist := s.whitelist } removed tg h

theorem restoreV1Many_spec (l : List Nat) (s : State) (nw tg : Nat) (h : GIs false s tg) :
    SatU (restoreV1Many l (s, nw, tg))
      (fun r => r.2.1 + r.2.2 = nw + tg ∧ GIs false r.1 r.2.2) := by
  induction l generalizing s nw tg with
  | nil => exact ⟨rfl, h⟩
  | cons u rest ih =>
    simp only [restoreV1Many]
    split
    · exact ih s nw tg h
    · rename_i hc
      simp only [Bool.or_eq_true, not_or] at hc
      have hu : s.uts u = none := by
        cases hq : s.uts u <;> simp [hq] at hc ⊢
      have hr : (s.range u).isSome = true := by
        cases hq : s.range u <;> simp [hq] at hc ⊢
      have hnm : u ∉ s.whitelist := h.not_mem_of_none hu
      rw [setInsert_of_not_mem hnm]
      simp only [Bool.not_true, Bool.false_eq_true, if_false]
      obtain ⟨st, hst, hpos⟩ := h.bl_pos rfl u hr hu
      split
      · exact SatU_user _ _
      · rename_i hle
        have hGI := h.insert (st := (s.blUts u).getD {}) (bl' := upd s.blUts u none)
            (range' := s.range) hu (by rw [hst]; exact hpos) hr (fun _ _ => rfl)
            (fun x hx => upd_other _ _ _ _ hx)
        rw [setInsert_of_not_mem hnm] at hGI
        simp only [gOf_false] at hGI
        rw [← Nat.add_assoc] at hGI
        refine (ih { s with whitelist := s.whitelist ++ [u], blUts := upd s.blUts u none,
                            uts := upd s.uts u (some ((s.blUts u).getD {})) } _ _ hGI).mono ?_
        intro r hr; refine ⟨?_, hr.2⟩
        have := hr.1
        omega

theorem setInsert_idem (l : List Nat) (a : Nat) :
    (setInsert (setInsert l a).1 a).1 = (setInsert l a).1 := by
  by_cases h : a ∈ l
  · rw [setInsert_fst_of_mem h, setInsert_fst_of_mem h]
  · rw [setInsert_of_not_mem h]
    exact setInsert_fst_of_mem (by simp)

/-- one element of the v1 allocation loop, after `tryCreateTickets`: new whitelist,
    base winners, total, and the two guarantee flags -/
theorem addV1Many_spec (l : List (Nat × Nat × Nat × Bool)) (s : State) (tw tg : Nat)
    (h : GIs false s tg) :
    SatU (addV1Many l (s, tw, tg))
      (fun r => r.2.1 + r.2.2 = tw + tg ∧ GIs false r.1 r.2.2) := by
  induction l generalizing s tw tg with
  | nil => exact ⟨rfl, h⟩
  | cons x rest ih =>
    obtain ⟨buyer, staking, energy, migrated⟩ := x
    simp only [addV1Many]
    rcases tryCreateTickets_cases s buyer (staking + energy) with ⟨m, hm⟩ | ⟨hnone, hok⟩
    · rw [hm]; exact SatU_user _ _
    · rw [hok]
      simp only []
      have hu : s.uts buyer = none := by
        cases hq : s.uts buyer with
        | none => rfl
        | some st =>
          have := h.has_range buyer (by simp [hq])
          simp [hnone] at this
      -- the four combinations of (staking guarantee, migration guarantee)
      have key : ∀ (c d : Nat), c ≤ 1 → d ≤ 1 → c + d ≤ tw →
          SatU (addV1Many rest
            ({ s with range := upd s.range buyer (some ⟨s.lastTicketId + 1, s.lastTicketId + 1 + (staking + energy) - 1⟩),
                      batch := upd s.batch (s.lastTicketId + 1) (some ⟨buyer, staking + energy⟩),
                      lastTicketId := s.lastTicketId + 1 + (staking + energy) - 1,
                      whitelist := if c + d > 0 then (setInsert s.whitelist buyer).1 else s.whitelist,
                      uts := upd s.uts buyer (some { a := staking, b := energy, c := c, d := d }) },
              tw - c - d, tg + c + d))
            (fun r => r.2.1 + r.2.2 = tw + tg ∧ GIs false r.1 r.2.2) := by
        intro c d hc hd hle
        by_cases hpos : c + d > 0
        · have hGI := h.insert (st := { a := staking, b := energy, c := c, d := d }) (bl' := s.blUts)
            (range' := upd s.range buyer (some ⟨s.lastTicketId + 1, s.lastTicketId + 1 + (staking + energy) - 1⟩))
            hu (by simpa using hpos) (by simp) (fun x hx => upd_other _ _ _ _ hx)
            (fun _ _ => rfl)
          simp only [gOf_false] at hGI
          rw [← Nat.add_assoc tg c d] at hGI
          rw [if_pos hpos]
          refine (ih _ _ _ hGI).mono ?_
          intro r hr; refine ⟨?_, hr.2⟩
          have := hr.1
          omega
        · have hc0 : c = 0 := by omega
          have hd0 : d = 0 := by omega
          subst hc0; subst hd0
          have hGI := h.insert_zero (st := { a := staking, b := energy, c := 0, d := 0 }) (bl' := s.blUts)
            (range' := upd s.range buyer (some ⟨s.lastTicketId + 1, s.lastTicketId + 1 + (staking + energy) - 1⟩))
            hu (by simp) (by simp) (fun x hx => upd_other _ _ _ _ hx)
            (fun _ _ => rfl)
          rw [if_neg hpos]
          exact ih _ _ _ hGI
      cases migrated <;> by_cases hs : staking ≥ s.minConfirmed
      · -- staking guarantee only
        by_cases h0 : tw = 0
        · simp [hs, h0]
        · have := key 1 0 (by omega) (by omega) (by omega)
          simpa [hs, h0] using this
      · -- no guarantee
        have := key 0 0 (by omega) (by omega) (by omega)
        simpa [hs] using this
      · -- both guarantees
        by_cases h0 : tw = 0
        · simp [hs, h0]
        by_cases h1 : tw = 1
        · simp [hs, h1]
        · have := key 1 1 (by omega) (by omega) (by omega)
          have h2 : ¬ tw - 1 = 0 := by omega
          simpa [hs, h0, h2, setInsert_idem] using this
      · -- migration guarantee only
        by_cases h0 : tw = 0
        · simp [hs, h0]
        · have := key 0 1 (by omega) (by omega) (by omega)
          simpa [hs, h0] using this

end LP

namespace LP

/-! ### the six hooks on states -/

/-- reserve conserved and invariant re-established -/
def ReserveStep (v2 : Bool) (s s' : State) : Prop :=
  s'.nrWinning + s'.totalGuaranteed = s.nrWinning + s.totalGuaranteed ∧ GuarInv v2 s'

theorem addTicketsV2_reserve (t : Tx) (e : Env) (l : List (Nat × Nat × List (Nat × Nat)))
    (h : GuarInv true t.s) :
    SatU (addTicketsV2 t e l) (fun t' => ReserveStep true t.s t'.s) := by
  unfold addTicketsV2
  by_cases hst : (t.s.stage e == Stage.addTickets) = true
  · simp only [requireStage, req, hst, if_true, bind, Except.bind]
    have hsp := addV2Many_spec e l t.s t.s.nrWinning t.s.totalGuaranteed 0 0 0 h
    cases hres : addV2Many e l (t.s, t.s.nrWinning, t.s.totalGuaranteed, 0, 0, 0) with
    | error err =>
      rw [hres] at hsp; obtain ⟨m, rfl⟩ := hsp
      exact SatU_user _ _
    | ok r =>
      obtain ⟨s', tw', tg', uc, ta, ga⟩ := r
      rw [hres] at hsp
      exact hsp
  · simp only [requireStage, req, hst, bind, Except.bind]
    exact SatU_user _ _

theorem addTicketsV1_reserve (s : State) (e : Env) (l : List (Nat × Nat × Nat × Bool))
    (h : GuarInv false s) :
    SatU (addTicketsV1 s e l) (fun s' => ReserveStep false s s') := by
  unfold addTicketsV1
  by_cases hst : (s.stage e == Stage.addTickets) = true
  · simp only [requireStage, req, hst, if_true, bind, Except.bind]
    have hsp := addV1Many_spec l s s.nrWinning s.totalGuaranteed h
    cases hres : addV1Many l (s, s.nrWinning, s.totalGuaranteed) with
    | error err =>
      rw [hres] at hsp; obtain ⟨m, rfl⟩ := hsp
      exact SatU_user _ _
    | ok r =>
      obtain ⟨s', tw', tg'⟩ := r
      rw [hres] at hsp
      exact hsp
  · simp only [requireStage, req, hst, bind, Except.bind]
    exact SatU_user _ _

/-- the v2 blacklist hook never fails under the invariant -/
theorem clearGuaranteedV2_reserve (s : State) (l : List Nat) (h : GuarInv true s) :
    ∃ s', clearGuaranteedV2 s l = .ok s' ∧ ReserveStep true s s' := by
  obtain ⟨s', nw', tg', h1, h2, h3⟩ := clearV2Many_spec l s s.nrWinning s.totalGuaranteed h
  refine ⟨{ s' with nrWinning := nw', totalGuaranteed := tg' }, ?_, h2, h3⟩
  simp only [clearGuaranteedV2, h1, bind, Except.bind, pure, Except.pure]

/-- the v1 blacklist hook never fails under the invariant -/
theorem clearGuaranteedV1_reserve (s : State) (l : List Nat) (h : GuarInv false s) :
    ∃ s', clearGuaranteedV1 s l = .ok s' ∧ ReserveStep false s s' := by
  obtain ⟨s', r', tg', h1, h2, h3, h4⟩ := clearV1Many_spec l s 0 s.totalGuaranteed h
  refine ⟨{ s' with nrWinning := s'.nrWinning + r', totalGuaranteed := tg' }, ?_, ?_, h3⟩
  · simp only [clearGuaranteedV1, h1, bind, Except.bind, pure, Except.pure]
  · show s'.nrWinning + r' + tg' = _
    rw [h4]; omega

theorem restoreGuaranteedV2_reserve (s : State) (l : List Nat) (h : GuarInv true s)
    (hnd : l.Nodup) (hno : ∀ u ∈ l, s.uts u = none) :
    SatU (restoreGuaranteedV2 s l) (fun s' => ReserveStep true s s') := by
  unfold restoreGuaranteedV2
  have hsp := restoreV2Many_spec l s s.nrWinning s.totalGuaranteed h hnd hno
  cases hres : restoreV2Many l (s, s.nrWinning, s.totalGuaranteed) with
  | error err =>
    rw [hres] at hsp; obtain ⟨m, rfl⟩ := hsp
    exact SatU_user _ _
  | ok r =>
    obtain ⟨s', nw', tg'⟩ := r
    rw [hres] at hsp
    exact hsp

theorem restoreGuaranteedV1_reserve (s : State) (l : List Nat) (h : GuarInv false s) :
    SatU (restoreGuaranteedV1 s l) (fun s' => ReserveStep false s s') := by
  unfold restoreGuaranteedV1
  have hsp := restoreV1Many_spec l s s.nrWinning s.totalGuaranteed h
  cases hres : restoreV1Many l (s, s.nrWinning, s.totalGuaranteed) with
  | error err =>
    rw [hres] at hsp; obtain ⟨m, rfl⟩ := hsp
    exact SatU_user _ _
  | ok r =>
    obtain ⟨s', nw', tg'⟩ := r
    rw [hres] at hsp
    exact hsp

end LP
