import LP.Proofs.Unstuck
/-
  LP.Proofs.Unstuck2 — C04 at the level of REACHABLE states, continued: the additional steps
  with a distribution (`distribute` of guarV2 and of the v1 family, `secondary` of nftGuar), and
  the end-to-end "cannot be left stuck" sequences.

  * `us2_distLeft`        `|whitelist| + (lastTicketId + 1 - (nrWinning + offset))`, offset = the
                          saved offset (1 when nothing is saved): what the two loops of the v2
                          distribution decrease;
  * `us2_loop1_*`         the guaranteed-ticket loop (any variant): an interrupted call shortens the
                          stored whitelist, a completed one does not lengthen it;
  * `us2_leftCore_true`   a continuing iteration of the leftover loop (any version) under `LInv`;
  * `us2_dist_v2_shape`   what an accepted `distribute` call (guarV2) does to the measure.
-/
namespace LP
open LP.Props LP.Events LP.FY LP.Props.C17

/-! ## the measure of the distribution step -/

/-- the saved offset of the leftover loop (1 when nothing is saved) -/
def us2_distOff (s : State) : Nat :=
  match s.op with
  | .additional (.guar g) => g.offset
  | _ => 1

/-- whitelist entries still to honour + positions the leftover loop has not consumed -/
def us2_distLeft (s : State) : Nat :=
  s.whitelist.length + (s.lastTicketId + 1 - (s.nrWinning + us2_distOff s))

theorem us2_distOff_of_guarOpOf {t : Tx} {g : GuarOp} (h : guarOpOf t = some g) :
    us2_distOff t.s = g.offset := by
  unfold guarOpOf at h
  unfold us2_distOff
  rcases hop : t.s.op with _ | _ | _ | (g0 | r0)
  · rw [hop] at h; simp only [Option.some.injEq] at h; subst h; rfl
  · rw [hop] at h; cases h
  · rw [hop] at h; cases h
  · rw [hop] at h; simp only [Option.some.injEq] at h; subst h; rfl
  · rw [hop] at h; cases h

/-! ## the guaranteed-ticket loop (any variant) -/

theorem us2_guarBody_true (s : State) {x x' : GSt} (hb : guarBody s x = .ok (x', true))
    (hl : x.usersLeft = x.whitelist.length) :
    x'.usersLeft = x'.whitelist.length ∧ x'.whitelist.length < x.whitelist.length := by
  have hul : x.usersLeft ≠ 0 := by
    intro hul
    unfold guarBody at hb
    simp [hul] at hb
  obtain ⟨u, rest, hwl⟩ : ∃ u rest, x.whitelist = u :: rest := by
    cases hq : x.whitelist with
    | nil => rw [hq] at hl; simp at hl; exact absurd hl hul
    | cons u rest => exact ⟨u, rest, rfl⟩
  obtain ⟨x1, e1, _, e3, e4, _⟩ := guarBody_step s x u rest hwl hul
  rw [hb] at e1
  injection e1 with e1
  simp only [Prod.mk.injEq, and_true] at e1
  subst e1
  constructor <;> omega

/-- a call interrupted in the guaranteed-ticket loop has strictly shortened the whitelist -/
theorem us2_loop1_interrupted (s : State) (g : GuarOp) (f : Nat) (b b1 : Option Nat) (x : GSt)
    (h : runWhile (guarBody s) f b (guarX s g) = .ok (x, b1, .interrupted)) :
    x.whitelist.length < s.whitelist.length := by
  have := runWhile_interrupted_measure (guarBody s) (fun y => y.whitelist.length)
    (fun y => y.usersLeft = y.whitelist.length)
    (fun y y' hy hb => us2_guarBody_true s hb hy) f b (guarX s g) x b1 h rfl
  exact this.2

/-- a completed guaranteed-ticket loop ends with an empty whitelist -/
theorem us2_loop1_completed (s : State) (g : GuarOp) (f : Nat) (b b1 : Option Nat) (x : GSt)
    (h : runWhile (guarBody s) f b (guarX s g) = .ok (x, b1, .completed)) :
    x.whitelist = [] := by
  obtain ⟨y, hy, hby⟩ := (rb_runWhile_inv (fun y => y.usersLeft = y.whitelist.length) (guarBody s)
    (fun y y' hb hp => (us2_guarBody_true s hb hp).1) f b (guarX s g) x b1 .completed h rfl).2 rfl
  obtain ⟨h0, hxy⟩ := v2_guarBody_false hby
  subst hxy
  rw [h0] at hy
  exact List.eq_nil_of_length_eq_zero hy.symm

/-! ## the leftover loop: one continuing iteration (any version) -/

theorem us2_leftCore_true {hash : List Nat → List Nat} {v2 : Bool} {nrW last : Nat}
    {z z' : LCore} (hb : leftCoreBody hash v2 nrW last z = .ok (z', true))
    (h : LInv last nrW (LCore.lift default z)) :
    LInv last nrW (LCore.lift default z') ∧ nrW + z.offset ≤ last ∧ z.offset ≤ z'.offset ∧
    z'.leftover + z'.additional = z.leftover + z.additional ∧
    (∀ t, z.status t = true → z'.status t = true) ∧
    ((v2 = true ∨ lKind hash nrW last (LCore.lift default z) ≠ .redraw) →
      z'.offset = z.offset + 1) := by
  have hx : leftoverBody hash v2 nrW last (LCore.lift default z) = .ok (LCore.lift default z', true) := by
    rw [leftoverBody_lift, hb]; rfl
  have hk : lKind hash nrW last (LCore.lift default z) ≠ .stop := by
    intro hk
    obtain ⟨x', hb', _⟩ := leftoverBody_spec hash v2 nrW last _ h
    rw [hk, hx] at hb'
    simp at hb'
  obtain ⟨x'', hb'', hinv, _, _, hc, hsum, hmono, _, _, ho, hle⟩ :=
    leftoverBody_cont hash v2 nrW last _ h hk
  rw [hx] at hb''
  injection hb'' with hb''
  simp only [Prod.mk.injEq, and_true] at hb''
  subst hb''
  exact ⟨hinv, hc, hle, hsum, hmono, ho⟩

/-- a call of the v2 leftover loop that was interrupted has consumed at least one position -/
theorem us2_loop2_v2_interrupted {hash : List Nat → List Nat} {nrW last : Nat} (f : Nat)
    (b b2 : Option Nat) (z0 z : LCore)
    (h : runWhile (leftCoreBody hash true nrW last) f b z0 = .ok (z, b2, .interrupted))
    (h0 : LInv last nrW (LCore.lift default z0)) :
    LInv last nrW (LCore.lift default z) ∧
      last + 1 - (nrW + z.offset) < last + 1 - (nrW + z0.offset) := by
  refine runWhile_interrupted_measure (leftCoreBody hash true nrW last)
    (fun y => last + 1 - (nrW + y.offset)) (fun y => LInv last nrW (LCore.lift default y))
    ?_ f b z0 z b2 h h0
  intro y y' hy hb
  obtain ⟨h1, h2, _, _, _, h3⟩ := us2_leftCore_true hb hy
  have := h3 (Or.inl rfl)
  exact ⟨h1, by omega⟩

/-! ## `distribute` (guarV2): the measure on an accepted call -/

/-- what an accepted `distribute` call does in a state of the guarV2 development: a call that does
    not complete the step saves a cursor and has strictly decreased `us2_distLeft`; a call that
    completes it saves nothing -/
theorem us2_dist_v2_shape {T0 : Nat} {hash : List Nat → List Nat} {s s' : State} {e : Env} {o : Out}
    {r : Nat} (h : WF2 T0 s r) (hs : step hash s e .distribute = .ok (s', o)) :
    s'.owner = s.owner ∧ (s'.flags.additional = true → s'.op = .none) ∧
    (s'.flags.additional = false → s'.op ≠ .none ∧ us2_distLeft s' < us2_distLeft s) := by
  obtain ⟨t, hx, rfl⟩ := rb_step_np (by
    intro m hm; simp only [endpointMeta] at hm; split at hm
    · simp at hm; rw [← hm]
    · cases hm) hs
  simp only [exec] at hx
  obtain ⟨hpre, g, x, b1, hg, _, hcase⟩ := distribute_ok_cases hash _ _ _ hx
  simp only [rbTx_s] at hpre hcase
  have hE : PhE (T0 - s.totalGuaranteed) s.gcore := v2_phase_E h.phase hpre.selected hpre.notDone
  have hv2 : s.variant.isV2 = true := (v2_flags h.var).2.2.1
  simp only [hv2] at hcase
  have hRanges : RangesOK s.core := v2_alloc_ranges hE.alloc
  have hoff : us2_distOff s = g.offset := us2_distOff_of_guarOpOf (t := rbTx s e) hg
  obtain ⟨lo, off, add, hD, hop⟩ := hE.dist
  have hgv : g.leftover = lo ∧ g.offset = off ∧ g.additional = add := by
    rcases hop with ⟨hop, rfl, rfl, rfl⟩ | ⟨rng, hop⟩
    · have hop' : s.op = .none := hop
      simp only [guarOpOf, rbTx_s, hop', Option.some.injEq] at hg
      subst hg; exact ⟨rfl, rfl, rfl⟩
    · have hop' : s.op = .additional (.guar ⟨rng, lo, off, add⟩) := hop
      simp only [guarOpOf, rbTx_s, hop', Option.some.injEq] at hg
      subst hg; exact ⟨rfl, rfl, rfl⟩
  obtain ⟨hg1, hg2, hg3⟩ := hgv
  have hG0 : G1 s.gcore off (guarX s g) := by
    refine ⟨rfl, ?_⟩
    show DInv (gcoreWS s.gcore s.whitelist s.status) g.leftover off g.additional
    rw [hg1, hg3]; exact hD
  have hna : s.flags.additional = false := hpre.notDone
  rcases hcase with ⟨hrun, hs', _⟩ | ⟨hrun, z, b2, hcase2⟩
  · -- interrupted in the guaranteed-ticket loop
    have hlt := us2_loop1_interrupted s g _ _ _ _ hrun
    rw [hs']
    refine ⟨rfl, fun hq => ?_, fun _ => ⟨nofun, ?_⟩⟩
    · have : s.flags.additional = true := hq
      rw [hna] at this; cases this
    · show x.whitelist.length + (s.lastTicketId + 1 - (s.nrWinning + g.offset)) < us2_distLeft s
      unfold us2_distLeft
      rw [hoff]
      omega
  · have hxw := us2_loop1_completed s g _ _ _ _ hrun
    obtain ⟨y, hGy, hby⟩ := (rb_runWhile_inv (G1 s.gcore off) (guarBody s)
      (fun y y' hb hp => v2_guarBody_G1 hv2 hRanges hb hp) _ _ _ _ _ _ hrun hG0).2 rfl
    obtain ⟨_, hxy⟩ := v2_guarBody_false hby
    subst hxy
    have hd := hGy.d
    have hL0 : LInv s.lastTicketId s.nrWinning
        (LCore.lift default (leftZ (guarS1 s x) (guarG1 g x) (rbTx s e).dctx)) := by
      refine ⟨?_, hd.count⟩
      show PosInv s.lastTicketId x.status s.posToId (s.nrWinning + g.offset)
      rw [hg2]; exact hd.pinv
    rcases hcase2 with ⟨hrun2, hs', _⟩ | ⟨hrun2, hs', _⟩
    · -- interrupted in the leftover loop
      obtain ⟨_, hlt⟩ := us2_loop2_v2_interrupted _ _ _ _ _ hrun2 hL0
      rw [hs']
      refine ⟨rfl, fun hq => ?_, fun _ => ⟨nofun, ?_⟩⟩
      · have : s.flags.additional = true := hq
        rw [hna] at this; cases this
      · show x.whitelist.length + (s.lastTicketId + 1 - (s.nrWinning + z.offset)) < us2_distLeft s
        have hlt' : s.lastTicketId + 1 - (s.nrWinning + z.offset)
            < s.lastTicketId + 1 - (s.nrWinning + g.offset) := hlt
        unfold us2_distLeft
        rw [hoff, hxw]
        simp only [List.length_nil]
        omega
    · rw [hs']
      exact ⟨rfl, fun _ => rfl, fun hq => by have : true = false := hq; cases this⟩

/-- **`distribute` (guarV2) is never stuck**: accepted for every budget in every reachable state
    with the lottery complete and the distribution not; it completes or strictly decreases
    `us2_distLeft ≤ |whitelist| + lastTicketId` -/
theorem us2_dist_v2_never_stuck (hash : List Nat → List Nat) {s : State} {r : Nat} {e : Env}
    (hs : Reach hash .guarV2 s r) (hsd : s.flags.selected = true)
    (hna : s.flags.additional = false) (hr : r ≤ e.round) (hsel : s.cfg.sel ≤ e.round)
    (hpay : us_NoPay e) (hp : s.paused = false)
    (hcaller : e.caller = s.owner ∨ e.callerIsContract = false) :
    (s.op = .none ∨ ∃ g, s.op = .additional (.guar g)) ∧
    us2_distLeft s ≤ s.whitelist.length + s.lastTicketId ∧
    ∃ s' o, step hash s e .distribute = .ok (s', o) ∧ Reach hash .guarV2 s' e.round ∧
      s'.flags.selected = true ∧
      us_Outcome s' o e (fun s => s.flags.additional) us2_distLeft s := by
  obtain ⟨hop, s', o, hst, hre, hp', hcfg, hcases⟩ :=
    us_dist_v2_never_stuck hash hs hsd hna hr hsel hpay hp hcaller
  obtain ⟨a0, ha⟩ := Reach_iff.mp hs
  have h := reach_WF2 ha
  obtain ⟨how, hdone, hprog⟩ := us2_dist_v2_shape h hst
  have hbound : us2_distLeft s ≤ s.whitelist.length + s.lastTicketId := by
    have hE : PhE (a0.nrWinning - s.totalGuaranteed) s.gcore := v2_phase_E h.phase hsd hna
    obtain ⟨lo, off, add, hD, hop'⟩ := hE.dist
    have h1 : 1 ≤ s.nrWinning + off := hD.pinv.pos
    have hoff : us2_distOff s = off := by
      unfold us2_distOff
      rcases hop' with ⟨hop', _, rfl, _⟩ | ⟨rng, hop'⟩
      · have hop'' : s.op = .none := hop'
        rw [hop'']
      · have hop'' : s.op = .additional (.guar ⟨rng, lo, off, add⟩) := hop'
        rw [hop'']
    unfold us2_distLeft
    rw [hoff]
    omega
  have hsd' : s'.flags.selected = true := by
    obtain ⟨a1, ha1⟩ := Reach_iff.mp hre
    have h' := reach_WF2 ha1
    cases hadd : s'.flags.additional with
    | true => exact (v2_phase_F h'.phase hadd).d.selected
    | false =>
      cases hq : s'.flags.selected with
      | true => rfl
      | false =>
        exfalso
        have hg := (be_family_all hash).good (be_Covered.guarV2 hre)
        have hne := (hprog hadd).1
        -- a saved `.guar` cursor with the lottery incomplete is impossible: the flags are
        -- unchanged by an interrupted call
        obtain ⟨t, hx, rfl⟩ := rb_step_np (by
          intro m hm; simp only [endpointMeta] at hm; split at hm
          · simp at hm; rw [← hm]
          · cases hm) hst
        simp only [exec] at hx
        obtain ⟨_, g, x, b1, _, _, hcase⟩ := distribute_ok_cases hash _ _ _ hx
        simp only [rbTx_s] at hcase
        rcases hcase with ⟨_, hs', _⟩ | ⟨_, z, b2, ⟨_, hs', _⟩ | ⟨_, hs', _⟩⟩
        · rw [hs'] at hq
          have : s.flags.selected = false := hq
          rw [hsd] at this; cases this
        · rw [hs'] at hq
          have : s.flags.selected = false := hq
          rw [hsd] at this; cases this
        · rw [hs'] at hq
          have : s.flags.selected = false := hq
          rw [hsd] at this; cases this
  refine ⟨hop, hbound, s', o, hst, hre, hsd', ?_, by rw [hp', hp], hcfg, how⟩
  rcases hcases with ⟨h0, hadd⟩ | ⟨h1, hadd, hb⟩
  · exact Or.inl ⟨h0, hadd, hdone hadd⟩
  · exact Or.inr ⟨h1, hadd, (hprog hadd).1, (hprog hadd).2, hb⟩

theorem us2_dist_rejected_when_done (hash : List Nat → List Nat) (s : State) (e : Env)
    (h : s.flags.additional = true) : ∃ err, step hash s e .distribute = .error err := by
  cases hst : step hash s e .distribute with
  | error err => exact ⟨err, rfl⟩
  | ok x =>
    exfalso
    obtain ⟨m, t, _, _, _, hx, _, _⟩ := step_ok_inv hst
    simp only [exec] at hx
    have h3 := (distribute_inv hash _ _ e hx).1.notDone
    have h4 : (tx0 s e).s.flags = s.flags := rfl
    rw [h4, h] at h3
    cases h3

/-- any `us2_distLeft s + 1` successive `distribute` calls by eligible callers (the owner or
    non-contract accounts; arbitrary budgets) complete the distribution of guarV2 -/
theorem us2_dist_v2_completes (hash : List Nat → List Nat) {s : State} {r : Nat}
    (hs : Reach hash .guarV2 s r) (hsd : s.flags.selected = true) (hsel : s.cfg.sel ≤ r)
    (hp : s.paused = false) (es : List Env) (hr : RoundsFrom r (us_hist .distribute es))
    (hq : ∀ e ∈ es, us_NoPay e ∧ (e.caller = s.owner ∨ e.callerIsContract = false))
    (hlen : us2_distLeft s + 1 ≤ es.length) :
    (run hash s (us_hist .distribute es)).flags.additional = true := by
  refine us_run_completes hash .distribute
    (fun s1 r1 => Reach hash .guarV2 s1 r1 ∧ s1.flags.selected = true ∧ s1.cfg.sel ≤ r1 ∧
      s1.paused = false ∧ s1.owner = s.owner)
    (fun e => us_NoPay e ∧ (e.caller = s.owner ∨ e.callerIsContract = false))
    (fun s => s.flags.additional) us2_distLeft ?_
    (fun s e h => us2_dist_rejected_when_done hash s e h) es s r ⟨hs, hsd, hsel, hp, rfl⟩ hr hq hlen
  intro s1 r1 e hg hna hr1 hq1
  obtain ⟨hre, hsd1, hsel1, hp1, how1⟩ := hg
  obtain ⟨_, _, s', o, hst, hre', hsd', hout⟩ := us2_dist_v2_never_stuck hash hre hsd1 hna hr1
    (Nat.le_trans hsel1 hr1) hq1.1 hp1 (by rw [how1]; exact hq1.2)
  refine ⟨s', o, hst, ⟨hre', hsd', by rw [hout.cfg]; exact Nat.le_trans hsel1 hr1,
    by rw [hout.paused]; exact hp1, by rw [hout.owner]; exact how1⟩, ?_⟩
  rcases hout.cases with ⟨_, h, _⟩ | ⟨_, _, _, h, _⟩
  · exact Or.inl h
  · exact Or.inr h

/-! ## end to end: an explicit finite sequence of owner calls completes every step -/

/-- a call by the owner of `s`, without payment, with an unlimited budget -/
def us2_OwnerCall (s : State) (e : Env) : Prop :=
  us_NoPay e ∧ e.budget = none ∧ e.caller = s.owner

/-- the four contracts whose reachable states are given by `Reach` -/
def us2_RV (v : Variant) : Prop := Plain v ∨ v = .nft ∨ v = .guarV2

theorem us2_cov {hash : List Nat → List Nat} {v : Variant} {s : State} {r : Nat} (hv : us2_RV v)
    (h : Reach hash v s r) : be_Covered hash s r := by
  rcases hv with hv | rfl | rfl
  · exact .plain hv h
  · exact .nft h
  · exact .guarV2 h

/-- reachable, un-paused, in the selection stage, owned by the owner of `s0` -/
structure us2_Open (hash : List Nat → List Nat) (v : Variant) (s0 s : State) (r : Nat) : Prop where
  reach : Reach hash v s r
  notPaused : s.paused = false
  sel : s.cfg.sel ≤ r
  owner : s.owner = s0.owner

theorem us2_Open.wait {hash : List Nat → List Nat} {v : Variant} {s0 s : State} {r r' : Nat}
    (h : us2_Open hash v s0 s r) (hr : r ≤ r') : us2_Open hash v s0 s r' :=
  ⟨.wait _ _ _ h.reach hr, h.notPaused, Nat.le_trans h.sel hr, h.owner⟩

theorem us2_run_one_err {hash : List Nat → List Nat} {s : State} {e : Env} {c : Call} {err : Err}
    (h : step hash s e c = .error err) : run hash s [(e, c)] = s := by
  rw [run_cons_error _ h]; rfl

theorem us2_run_one_ok {hash : List Nat → List Nat} {s s' : State} {e : Env} {c : Call} {o : Out}
    (h : step hash s e c = .ok (s', o)) : run hash s [(e, c)] = s' := by
  rw [run_cons_ok _ h]; rfl

/-- stage 1: one `filter` call of the owner with an unlimited budget -/
theorem us2_stage_filter (hash : List Nat → List Nat) {v : Variant} (hv : us2_RV v) {s0 s : State}
    {r : Nat} (h : us2_Open hash v s0 s r) {e : Env} (hr : r ≤ e.round) (ho : us2_OwnerCall s0 e) :
    us2_Open hash v s0 (run hash s [(e, .filter)]) e.round ∧
    (run hash s [(e, .filter)]).flags.filtered = true := by
  cases hf : s.flags.filtered with
  | true =>
    obtain ⟨err, herr⟩ := us_filter_rejected_when_done hash s e hf
    rw [us2_run_one_err herr]
    exact ⟨h.wait hr, hf⟩
  | false =>
    obtain ⟨_, _, s', o, hst, _, hout⟩ := us_filter_never_stuck hash (us2_cov hv h.reach) hf hr
      (Nat.le_trans h.sel hr) ho.1 h.notPaused
    rw [us2_run_one_ok hst]
    refine ⟨⟨.call _ _ _ _ _ _ h.reach hr ho.1.envOK (by trivial) hst, by rw [hout.paused, h.notPaused],
      by rw [hout.cfg]; exact Nat.le_trans h.sel hr, by rw [hout.owner, h.owner]⟩, ?_⟩
    exact (hout.unlimited ho.2.1).2.1

/-- stage 2: one `select` call of the owner with an unlimited budget -/
theorem us2_stage_select (hash : List Nat → List Nat) {v : Variant} (hv : us2_RV v) {s0 s : State}
    {r : Nat} (h : us2_Open hash v s0 s r) (hfil : s.flags.filtered = true) {e : Env}
    (hr : r ≤ e.round) (ho : us2_OwnerCall s0 e) :
    us2_Open hash v s0 (run hash s [(e, .select)]) e.round ∧
    (run hash s [(e, .select)]).flags.selected = true := by
  cases hf : s.flags.selected with
  | true =>
    obtain ⟨err, herr⟩ := us_select_rejected_when_done hash s e hf
    rw [us2_run_one_err herr]
    exact ⟨h.wait hr, hf⟩
  | false =>
    obtain ⟨_, _, s', o, hst, _, hout⟩ := us_select_never_stuck hash (us2_cov hv h.reach) hfil hf hr
      (Nat.le_trans h.sel hr) ho.1 h.notPaused (Or.inl (by rw [h.owner]; exact ho.2.2))
    rw [us2_run_one_ok hst]
    refine ⟨⟨.call _ _ _ _ _ _ h.reach hr ho.1.envOK (by trivial) hst, by rw [hout.paused, h.notPaused],
      by rw [hout.cfg]; exact Nat.le_trans h.sel hr, by rw [hout.owner, h.owner]⟩, ?_⟩
    exact (hout.unlimited ho.2.1).2.1

/-- stage 3 (launchpad with NFT draw): one `selectNft` call with an unlimited budget -/
theorem us2_stage_nft (hash : List Nat → List Nat) {s0 s : State}
    {r : Nat} (h : us2_Open hash .nft s0 s r) (hsd : s.flags.selected = true) {e : Env}
    (hr : r ≤ e.round) (ho : us2_OwnerCall s0 e) :
    us2_Open hash .nft s0 (run hash s [(e, .selectNft)]) e.round ∧
    AllDone (run hash s [(e, .selectNft)]) := by
  cases hf : s.flags.additional with
  | true =>
    obtain ⟨err, herr⟩ := us_nft_rejected_when_done hash s e hf
    rw [us2_run_one_err herr]
    exact ⟨h.wait hr, hsd, hf⟩
  | false =>
    obtain ⟨_, _, s', o, hst, hre, hsd', hout⟩ := us_nft_never_stuck hash h.reach hsd hf hr
      (Nat.le_trans h.sel hr) ho.1
    rw [us2_run_one_ok hst]
    exact ⟨⟨hre, by rw [hout.paused, h.notPaused], by rw [hout.cfg]; exact Nat.le_trans h.sel hr,
      by rw [hout.owner, h.owner]⟩, hsd', (hout.unlimited ho.2.1).2.1⟩

/-- stage 3 (guarV2): one `distribute` call of the owner with an unlimited budget -/
theorem us2_stage_dist_v2 (hash : List Nat → List Nat) {s0 s : State}
    {r : Nat} (h : us2_Open hash .guarV2 s0 s r) (hsd : s.flags.selected = true) {e : Env}
    (hr : r ≤ e.round) (ho : us2_OwnerCall s0 e) :
    us2_Open hash .guarV2 s0 (run hash s [(e, .distribute)]) e.round ∧
    AllDone (run hash s [(e, .distribute)]) := by
  cases hf : s.flags.additional with
  | true =>
    obtain ⟨err, herr⟩ := us2_dist_rejected_when_done hash s e hf
    rw [us2_run_one_err herr]
    exact ⟨h.wait hr, hsd, hf⟩
  | false =>
    obtain ⟨_, _, s', o, hst, hre, hsd', hout⟩ := us2_dist_v2_never_stuck hash h.reach hsd hf hr
      (Nat.le_trans h.sel hr) ho.1 h.notPaused (Or.inl (by rw [h.owner]; exact ho.2.2))
    rw [us2_run_one_ok hst]
    exact ⟨⟨hre, by rw [hout.paused, h.notPaused], by rw [hout.cfg]; exact Nat.le_trans h.sel hr,
      by rw [hout.owner, h.owner]⟩, hsd', (hout.unlimited ho.2.1).2.1⟩

theorem us2_run_two (hash : List Nat → List Nat) (s : State) (p q : Env × Call) :
    run hash s [p, q] = run hash (run hash s [p]) [q] :=
  run_append hash [p] [q] s

theorem us2_run_three (hash : List Nat → List Nat) (s : State) (p q w : Env × Call) :
    run hash s [p, q, w] = run hash (run hash (run hash s [p]) [q]) [w] := by
  rw [show [p, q, w] = [p] ++ ([q] ++ [w]) from rfl, run_append, run_append]

/-- `filter`, `select` by the owner with unlimited budgets: lottery complete -/
theorem us2_two_steps (hash : List Nat → List Nat) {v : Variant} (hv : us2_RV v) {s : State}
    {r : Nat} (hs : Reach hash v s r) (hsel : s.cfg.sel ≤ r) (hp : s.paused = false) (e1 e2 : Env)
    (hr : RoundsFrom r [(e1, .filter), (e2, .select)])
    (h1 : us2_OwnerCall s e1) (h2 : us2_OwnerCall s e2) :
    us2_Open hash v s (run hash s [(e1, .filter), (e2, .select)]) e2.round ∧
    (run hash s [(e1, .filter), (e2, .select)]).flags.selected = true := by
  obtain ⟨hr1, hr2, _⟩ := hr
  obtain ⟨hA, hfil⟩ := us2_stage_filter hash hv (s0 := s) ⟨hs, hp, hsel, rfl⟩ hr1 h1
  rw [us2_run_two]
  exact us2_stage_select hash hv hA hfil hr2 h2

/-! ## the v1 leftover loop: never an error; fuel exhaustion; progress of an interrupted call -/

theorem us2_leftCore_ok (hash : List Nat → List Nat) (v2 : Bool) (nrW last : Nat) (z : LCore) :
    ∃ p, leftCoreBody hash v2 nrW last z = .ok p := by
  have h := leftoverBody_lift hash v2 nrW last default z
  cases hb : leftCoreBody hash v2 nrW last z with
  | ok p => exact ⟨p, rfl⟩
  | error err =>
    exfalso
    rw [hb] at h
    rcases leftoverBody_cases hash v2 nrW last (LCore.lift default z) with
      ⟨_, hc⟩ | ⟨_, _, _, hc⟩ | ⟨_, _, _, _, _, _, _, ⟨_, hc⟩ | ⟨_, hc⟩⟩ <;>
    · rw [hc] at h
      cases h

theorem us2_runWhile_ok {σ : Type} (body : σ → Res (σ × Bool)) (hb : ∀ x, ∃ p, body x = .ok p) :
    ∀ (f : Nat) (b : Option Nat) (x : σ), ∃ r, runWhile body f b x = .ok r := by
  intro f
  induction f with
  | zero => intro b x; exact ⟨_, rfl⟩
  | succ f ih =>
    intro b x
    obtain ⟨⟨x', c⟩, hx⟩ := hb x
    cases c with
    | false => exact ⟨_, runWhile_stop hx f b⟩
    | true =>
      cases b with
      | none => rw [runWhile_cont_none hx]; exact ih _ _
      | some k =>
        cases k with
        | zero => exact ⟨_, runWhile_cont_zero hx f⟩
        | succ k => rw [runWhile_cont_succ hx]; exact ih _ _

/-- a run that exhausts its fuel would not have completed without a budget either -/
theorem us2_outOfFuel_not_completed {σ : Type} (body : σ → Res (σ × Bool)) (f : Nat)
    (b b2 : Option Nat) (x z sf : σ) (h : runWhile body f b x = .ok (z, b2, .outOfFuel))
    (hc : runWhile body f none x = .ok (sf, none, .completed)) : False := by
  cases b with
  | none => rw [hc] at h; cases h
  | some k =>
    rcases runWhile_call_progress body f x sf hc k f (Nat.le_refl _) with ⟨b', h'⟩ | ⟨s1, h', _⟩
    · rw [h'] at h; cases h
    · rw [h'] at h; cases h

/-- the v1 redraw iteration leaves the offset where it is -/
theorem us2_leftCore_redraw {hash : List Nat → List Nat} {nrW last : Nat}
    {z z' : LCore} (hb : leftCoreBody hash false nrW last z = .ok (z', true))
    (h : LInv last nrW (LCore.lift default z))
    (hk : lKind hash nrW last (LCore.lift default z) = .redraw) : z'.offset = z.offset := by
  have hx : leftoverBody hash false nrW last (LCore.lift default z) = .ok (LCore.lift default z', true) := by
    rw [leftoverBody_lift, hb]; rfl
  obtain ⟨x', hb', _, _, _, _, _, h3, _⟩ := leftoverBody_spec hash false nrW last _ h
  rw [hx] at hb'
  injection hb' with hb'
  simp only [Prod.mk.injEq] at hb'
  obtain ⟨e1, _⟩ := hb'
  obtain ⟨_, _, _, _, _, e3, _⟩ := h3 hk
  rw [← e1] at e3
  exact e3

/-- number of iterations among the first `n` of the leftover loop from `z` whose draw hits an
    already winning ticket ("NewlySelectedAlreadyWinning") -/
def us2_redraws (hash : List Nat → List Nat) (v2 : Bool) (nrW last n : Nat) (z : LCore) : Nat :=
  lCount hash v2 nrW last LKind.redraws n (LCore.lift default z)

theorem us2_redraws_succ {hash : List Nat → List Nat} {v2 : Bool} {nrW last : Nat} {z z' : LCore}
    (hb : leftCoreBody hash v2 nrW last z = .ok (z', true)) (n : Nat) :
    us2_redraws hash v2 nrW last (n + 1) z =
      (lKind hash nrW last (LCore.lift default z)).redraws + us2_redraws hash v2 nrW last n z' := by
  have hx : leftoverBody hash v2 nrW last (LCore.lift default z) = .ok (LCore.lift default z', true) := by
    rw [leftoverBody_lift, hb]; rfl
  simp only [us2_redraws, lCount, hx]

/-- **progress of an interrupted call of the v1 leftover loop**: a call with budget `k`
    performs `k + 1` iterations; every one of them that is not a redraw consumes a position -/
theorem us2_loop2_v1_interrupted {hash : List Nat → List Nat} {nrW last : Nat} :
    ∀ (f k : Nat) (z0 z : LCore) (b2 : Option Nat),
      runWhile (leftCoreBody hash false nrW last) f (some k) z0 = .ok (z, b2, .interrupted) →
      LInv last nrW (LCore.lift default z0) →
      LInv last nrW (LCore.lift default z) ∧
      z.offset + us2_redraws hash false nrW last (k + 1) z0 = z0.offset + (k + 1) := by
  intro f
  induction f with
  | zero =>
    intro k z0 z b2 h
    rw [runWhile_zero] at h
    injection h with h
    simp only [Prod.mk.injEq] at h
    exact absurd h.2.2 (by decide)
  | succ f ih =>
    intro k z0 z b2 h h0
    obtain ⟨⟨z', c⟩, hb⟩ := us2_leftCore_ok hash false nrW last z0
    cases c with
    | false =>
      rw [runWhile_stop hb] at h
      injection h with h
      simp only [Prod.mk.injEq] at h
      exact absurd h.2.2 (by decide)
    | true =>
      obtain ⟨h1, _, _, _, _, h6⟩ := us2_leftCore_true hb h0
      have hstep : z'.offset + (lKind hash nrW last (LCore.lift default z0)).redraws
          = z0.offset + 1 := by
        by_cases hk : lKind hash nrW last (LCore.lift default z0) = .redraw
        · rw [hk, us2_leftCore_redraw hb h0 hk]; rfl
        · rw [h6 (Or.inr hk)]
          cases hq : lKind hash nrW last (LCore.lift default z0) with
          | redraw => exact absurd hq hk
          | stop => rfl
          | skip => rfl
          | ok => rfl
      cases k with
      | zero =>
        rw [runWhile_cont_zero hb] at h
        injection h with h
        simp only [Prod.mk.injEq] at h
        obtain ⟨rfl, _, _⟩ := h
        refine ⟨h1, ?_⟩
        rw [us2_redraws_succ hb]
        simp only [us2_redraws, lCount]
        omega
      | succ k =>
        rw [runWhile_cont_succ hb] at h
        obtain ⟨h2, h3⟩ := ih k z' z b2 h h1
        refine ⟨h2, ?_⟩
        rw [us2_redraws_succ hb]
        omega

/-- **when the v1 leftover loop runs out of fuel**: of the `f` iterations performed in the call
    at least `f - (last + 1 - (nrW + offset))` drew an already winning ticket -/
theorem us2_spin_redraws {hash : List Nat → List Nat} {v2 : Bool} {nrW last : Nat} (f : Nat)
    (b b2 : Option Nat) (z0 z : LCore)
    (h : runWhile (leftCoreBody hash v2 nrW last) f b z0 = .ok (z, b2, .outOfFuel))
    (h0 : LInv last nrW (LCore.lift default z0)) :
    f ≤ last + 1 - (nrW + z0.offset) + us2_redraws hash v2 nrW last f z0 := by
  apply Classical.byContradiction
  intro hn
  have hn' : last + 1 - (nrW + (LCore.lift default z0).offset) +
      lCount hash v2 nrW last LKind.redraws f (LCore.lift default z0) < f := by
    have : (LCore.lift default z0).offset = z0.offset := rfl
    rw [this]
    unfold us2_redraws at hn
    omega
  obtain ⟨x', hr, _⟩ := leftover_run_partial hash v2 nrW last f _ h0 hn'
  rw [runWhile_map (LCore.lift default) _ _ (leftoverBody_lift hash v2 nrW last default)] at hr
  cases hc : runWhile (leftCoreBody hash v2 nrW last) f none z0 with
  | error err => rw [hc] at hr; cases hr
  | ok q =>
    obtain ⟨zf, bf, stf⟩ := q
    rw [hc] at hr
    simp only [Except.map, Except.ok.injEq, Prod.mk.injEq] at hr
    obtain ⟨_, rfl, rfl⟩ := hr
    exact us2_outOfFuel_not_completed _ f b b2 z0 z zf h hc

/-! ## `guaranteedSubstep` of the v1 family: all outcomes, no invariant needed -/

/-- the v1 distribution sub-step: the guaranteed-ticket loop never fails and never runs out of fuel;
    the leftover loop never fails; the ONLY error is the exhaustion of `v1LeftoverFuel` by the
    leftover loop -/
theorem us2_guarSub_v1 (hash : List Nat → List Nat) (T : Tx) (g : GuarOp)
    (hv : T.s.variant.isV2 = false) :
    (∃ x b1, runWhile (guarBody T.s) (T.s.whitelist.length + 2) T.c.budget (guarX T.s g)
        = .ok (x, b1, .interrupted) ∧
      guaranteedSubstep hash T g
        = .ok (⟨guarS1 T.s x, { T.c with budget := b1 }, T.o⟩, guarG1 g x, .interrupted)) ∨
    (∃ x b1, runWhile (guarBody T.s) (T.s.whitelist.length + 2) T.c.budget (guarX T.s g)
        = .ok (x, b1, .completed) ∧
      ∃ z b2 st2, runWhile (leftCoreBody hash false T.s.nrWinning T.s.lastTicketId) v1LeftoverFuel b1
          (leftZ (guarS1 T.s x) (guarG1 g x) T.dctx) = .ok (z, b2, st2) ∧
        ((st2 = .outOfFuel ∧ guaranteedSubstep hash T g = .error (.vm "out of gas")) ∨
         (st2 ≠ .outOfFuel ∧
            guaranteedSubstep hash T g = .ok (leftTx T (guarS1 T.s x) z b2, leftG z, st2)))) := by
  rw [guaranteedSubstep_eq]
  obtain ⟨x, b1, st, hrun, hst⟩ := guarRun_total T.s g T.c.budget
  rw [hrun]
  have hfuel : leftFuel T.s = v1LeftoverFuel := by unfold leftFuel; rw [hv]; rfl
  cases st with
  | outOfFuel => exact absurd rfl hst
  | interrupted => exact Or.inl ⟨x, b1, rfl, rfl⟩
  | completed =>
    refine Or.inr ⟨x, b1, rfl, ?_⟩
    obtain ⟨⟨z, b2, st2⟩, h2⟩ := us2_runWhile_ok (leftCoreBody hash false T.s.nrWinning T.s.lastTicketId)
      (us2_leftCore_ok hash false _ _) v1LeftoverFuel b1 (leftZ (guarS1 T.s x) (guarG1 g x) T.dctx)
    refine ⟨z, b2, st2, h2, ?_⟩
    simp only [guarSubOutcome, hfuel, hv, h2]
    cases st2 with
    | outOfFuel => exact Or.inl ⟨rfl, rfl⟩
    | interrupted => exact Or.inr ⟨by decide, rfl⟩
    | completed => exact Or.inr ⟨by decide, rfl⟩

/-- the leftover loop of a `distribute` / `secondary` call on storage `s` in environment `e`: the
    loop state it starts from and the budget left for it — when the saved operation is none or a
    guaranteed-ticket cursor and the guaranteed-ticket loop completes within the call -/
def us2_leftStart (s : State) (e : Env) : Option (LCore × Option Nat) :=
  match guarOpOf (callTx s e e.budget) with
  | none => none
  | some g =>
    match runWhile (guarBody s) (s.whitelist.length + 2) e.budget (guarX s g) with
    | .ok (x, b1, .completed) =>
      some (leftZ (guarS1 s x) (guarG1 g x) (callTx s e e.budget).dctx, b1)
    | _ => none

/-- **the only way a v1 distribution call can fail in the selection stage**: the call reaches
    the leftover loop and that loop performs `v1LeftoverFuel` (= 200000) iterations within the
    call without completing or being interrupted -/
def us2_Spins (hash : List Nat → List Nat) (s : State) (e : Env) : Prop :=
  ∃ z0 b1 z b2, us2_leftStart s e = some (z0, b1) ∧
    runWhile (leftCoreBody hash false s.nrWinning s.lastTicketId) v1LeftoverFuel b1 z0
      = .ok (z, b2, .outOfFuel)

theorem us2_step_distribute (hash : List Nat → List Nat) (s : State) (e : Env)
    (hm : endpointMeta s.variant .distribute = some ⟨false, false⟩)
    (h1 : e.egld = 0) (h2 : e.esdts = []) :
    step hash s e .distribute =
      match distribute hash (callTx s e e.budget) e with
      | .error err => .error err
      | .ok t => .ok (t.s, t.o) := by
  unfold step
  rw [hm]
  simp only [exec, creditPayments_nopay s e h1 h2, h1, h2, callTx]
  simp
  cases distribute hash ⟨s, ⟨e.budget, e.seeds, e.script⟩, {}⟩ e <;> rfl

theorem us2_distFinish_ok (e : Env) (T : Tx) (g : GuarOp) (st : LoopStatus) :
    ∃ t', distFinish e (T, g, st) = .ok t' := by
  cases st with
  | completed => obtain ⟨t', h, _⟩ := us_distFinish_completed e T g; exact ⟨t', h⟩
  | interrupted => exact ⟨_, rfl⟩
  | outOfFuel => exact ⟨_, rfl⟩

/-- **acceptance of `distribute` in the v1 family** (no invariant needed beyond the shape of the
    saved operation): in the selection stage with the lottery complete and the distribution not,
    the call is accepted IFF the leftover loop does not exhaust its fuel; if it does, the call
    fails with "out of gas" and changes nothing.  The endpoint reads neither the pause flag nor
    the caller. -/
theorem us2_dist_v1_accept (hash : List Nat → List Nat) {s : State} {e : Env}
    (hm : endpointMeta s.variant .distribute = some ⟨false, false⟩)
    (hiv2 : s.variant.isV2 = false)
    (hop : s.op = .none ∨ ∃ g, s.op = .additional (.guar g))
    (hv : validPeriods s.cfg = true) (hsd : s.flags.selected = true)
    (hna : s.flags.additional = false) (hsel : s.cfg.sel ≤ e.round) (hpay : us_NoPay e) :
    (us2_Spins hash s e → step hash s e .distribute = .error (.vm "out of gas")) ∧
    (¬ us2_Spins hash s e → ∃ s' o, step hash s e .distribute = .ok (s', o)) := by
  have hpre : DistPre s e :=
    ⟨fun h => (by rw [hiv2] at h; cases h), us_stage hv hsel (by rw [hna]; simp),
      fun h => (by rw [hiv2] at h; cases h), hsd, hna⟩
  obtain ⟨g, hg⟩ : ∃ g, guarOpOf (callTx s e e.budget) = some g := by
    rcases hop with hop | ⟨g, hop⟩
    · exact ⟨{ rng := (callTx s e e.budget).freshRng.1 }, by simp only [guarOpOf, callTx, hop]⟩
    · exact ⟨g, by simp only [guarOpOf, callTx, hop]⟩
  have hstep := us2_step_distribute hash s e hm hpay.1 hpay.2
  rw [distribute_eq hash (callTx s e e.budget) e g hpre hg] at hstep
  have hTs : (selTxOf (callTx s e e.budget)).s = s := selTxOf_s _
  have hsub := us2_guarSub_v1 hash (selTxOf (callTx s e e.budget)) g (by rw [hTs]; exact hiv2)
  simp only [selTxOf_s, selTxOf_budget, selTxOf_dctx] at hsub
  have hTs' : (callTx s e e.budget).s = s := rfl
  have hTb : (callTx s e e.budget).c.budget = e.budget := rfl
  rw [hTs', hTb] at hsub
  rcases hsub with ⟨x, b1, hrun, hgs⟩ | ⟨x, b1, hrun, z, b2, st2, hrun2, hcase⟩
  · have hls : us2_leftStart s e = none := by
      unfold us2_leftStart
      rw [hg]
      simp only [hrun]
    refine ⟨fun ⟨z0, b1', z, b2, h, _⟩ => (by rw [hls] at h; cases h), fun _ => ?_⟩
    rw [hgs] at hstep
    exact ⟨_, _, hstep⟩
  · have hls : us2_leftStart s e
        = some (leftZ (guarS1 s x) (guarG1 g x) (callTx s e e.budget).dctx, b1) := by
      unfold us2_leftStart
      rw [hg]
      simp only [hrun]
    rcases hcase with ⟨rfl, hgs⟩ | ⟨hne, hgs⟩
    · refine ⟨fun _ => ?_, fun hns => absurd ⟨_, _, _, _, hls, hrun2⟩ hns⟩
      rw [hgs] at hstep
      exact hstep
    · refine ⟨fun ⟨z0, b1', z', b2', h, hr⟩ => ?_, fun _ => ?_⟩
      · rw [hls] at h
        simp only [Option.some.injEq, Prod.mk.injEq] at h
        obtain ⟨rfl, rfl⟩ := h
        rw [hrun2] at hr
        simp only [Except.ok.injEq, Prod.mk.injEq] at hr
        exact absurd hr.2.2 hne
      · rw [hgs] at hstep
        obtain ⟨t', ht'⟩ := us2_distFinish_ok e (leftTx (selTxOf (callTx s e e.budget)) (guarS1 s x) z b2)
          (leftG z) st2
        have : (Except.ok (leftTx (selTxOf (callTx s e e.budget)) (guarS1 s x) z b2, leftG z, st2)
            >>= distFinish e) = .ok t' := ht'
        rw [this] at hstep
        exact ⟨_, _, hstep⟩

/-! ## the v1 distribution under the reachable-state invariant -/

/-- what the phase-E invariant of the three v1 developments says about the distribution data
    (`v1_PhE.dist` + the ticket-space facts), on the state itself -/
structure us2_DistSt (s : State) : Prop where
  notV2 : s.variant.isV2 = false
  ri : v1_RI s
  dist : ∃ lo off add,
    ((s.op = .none ∧ lo = 0 ∧ off = 1 ∧ add = 0) ∨
      ∃ rng, s.op = .additional (.guar ⟨rng, lo, off, add⟩)) ∧
    PosInv s.lastTicketId s.status s.posToId (s.nrWinning + off) ∧
    countTrue s.status s.lastTicketId = s.nrWinning + add ∧
    lo + add + gSum false s.uts s.whitelist = s.totalGuaranteed ∧
    (∀ u st, s.uts u = some st → gOf false st > 0 → u ∈ s.whitelist ∨ v1_HonS s s.status u st)

theorem us2_DistSt.op {s : State} (h : us2_DistSt s) :
    s.op = .none ∨ ∃ g, s.op = .additional (.guar g) := by
  obtain ⟨lo, off, add, hop, _⟩ := h.dist
  rcases hop with ⟨hop, _⟩ | ⟨rng, hop⟩
  · exact Or.inl hop
  · exact Or.inr ⟨_, hop⟩

/-- the start of the leftover loop satisfies the loop invariant, at the saved offset -/
theorem us2_loop1_to_loop2 {s : State} (hd : us2_DistSt s) {g : GuarOp} {t : Tx} (ht : t.s = s)
    (hg : guarOpOf t = some g) {f : Nat} {b b1 : Option Nat} {x : GSt}
    (hrun : runWhile (guarBody s) f b (guarX s g) = .ok (x, b1, .completed)) (d : DCtx) :
    LInv s.lastTicketId s.nrWinning (LCore.lift default (leftZ (guarS1 s x) (guarG1 g x) d)) ∧
    g.offset = us2_distOff s ∧ x.whitelist = [] := by
  obtain ⟨lo, off, add, hop, hpos, hcount, hsplit, hhon⟩ := hd.dist
  have hoff : us2_distOff s = g.offset := by
    have := us2_distOff_of_guarOpOf hg
    rw [ht] at this; exact this
  have hgv : g.leftover = lo ∧ g.offset = off ∧ g.additional = add := by
    unfold guarOpOf at hg
    rw [ht] at hg
    rcases hop with ⟨hop, rfl, rfl, rfl⟩ | ⟨rng, hop⟩
    · rw [hop] at hg
      simp only [Option.some.injEq] at hg
      subst hg; exact ⟨rfl, rfl, rfl⟩
    · rw [hop] at hg
      simp only [Option.some.injEq] at hg
      subst hg; exact ⟨rfl, rfl, rfl⟩
  obtain ⟨hg1, hg2, hg3⟩ := hgv
  have hG0 : v1_G1 s s.nrWinning s.totalGuaranteed (guarX s g) := by
    refine ⟨rfl, hpos.inside, fun _ ht => ht, ?_, ?_, hhon⟩
    · show countTrue s.status s.lastTicketId = s.nrWinning + g.additional
      rw [hg3]; exact hcount
    · show g.leftover + g.additional + gSum false s.uts s.whitelist = s.totalGuaranteed
      rw [hg1, hg3]; exact hsplit
  have hpos' : PosInv s.lastTicketId s.status s.posToId (s.nrWinning + g.offset) := by
    rw [hg2]; exact hpos
  obtain ⟨hG, hnil⟩ := (v1_loop1 hd.notV2 hd.ri hrun hG0).2 rfl
  exact ⟨⟨v1_PosInv_mono hpos' hG.mono hG.flagsIn, hG.count⟩, hoff.symm, hnil⟩

theorem us2_leftStart_inv {s : State} (hd : us2_DistSt s) {e : Env} {z0 : LCore} {b1 : Option Nat}
    (h : us2_leftStart s e = some (z0, b1)) :
    LInv s.lastTicketId s.nrWinning (LCore.lift default z0) ∧ z0.offset = us2_distOff s ∧
    (e.budget = none → b1 = none) := by
  unfold us2_leftStart at h
  cases hg : guarOpOf (callTx s e e.budget) with
  | none => rw [hg] at h; cases h
  | some g =>
    rw [hg] at h
    simp only at h
    cases hrun : runWhile (guarBody s) (s.whitelist.length + 2) e.budget (guarX s g) with
    | error err => rw [hrun] at h; cases h
    | ok q =>
      obtain ⟨x, b1', st⟩ := q
      rw [hrun] at h
      cases st with
      | outOfFuel => cases h
      | interrupted => cases h
      | completed =>
        simp only [Option.some.injEq, Prod.mk.injEq] at h
        obtain ⟨rfl, rfl⟩ := h
        obtain ⟨h1, h2, _⟩ := us2_loop1_to_loop2 hd (t := callTx s e e.budget) rfl hg hrun
          (callTx s e e.budget).dctx
        refine ⟨h1, h2, fun hb => ?_⟩
        rw [hb] at hrun
        exact (runWhile_none_budget _ _ _ _ _ _ hrun).1

/-- **what "the leftover loop spins" means**: of the 200000 iterations made in the call at least
    `200000 - (lastTicketId + 1 - (nrWinning + offset))` drew an already winning ticket -/
theorem us2_spins_redraws (hash : List Nat → List Nat) {s : State} (hd : us2_DistSt s) {e : Env}
    (h : us2_Spins hash s e) :
    ∃ z0 b1, us2_leftStart s e = some (z0, b1) ∧
      v1LeftoverFuel ≤ s.lastTicketId + 1 - (s.nrWinning + us2_distOff s) +
        us2_redraws hash false s.nrWinning s.lastTicketId v1LeftoverFuel z0 := by
  obtain ⟨z0, b1, z, b2, hls, hrun⟩ := h
  obtain ⟨hinv, hoff, _⟩ := us2_leftStart_inv hd hls
  have := us2_spin_redraws v1LeftoverFuel b1 b2 z0 z hrun hinv
  rw [hoff] at this
  exact ⟨z0, b1, hls, this⟩

/-- the three outcomes of an accepted `distribute` call of the v1 family -/
theorem us2_dist_v1_shape (hash : List Nat → List Nat) {s s' : State} {e : Env} {o : Out}
    (hd : us2_DistSt s) (hs : step hash s e .distribute = .ok (s', o)) :
    s'.owner = s.owner ∧ s'.paused = s.paused ∧ s'.cfg = s.cfg ∧
    s'.flags.selected = s.flags.selected ∧ s'.lastTicketId = s.lastTicketId ∧
    ((o.ret = [1] ∧ s'.flags = s.flags ∧ s'.op ≠ .none ∧ s'.nrWinning = s.nrWinning ∧
        s'.whitelist.length < s.whitelist.length ∧ us2_distOff s' = us2_distOff s ∧
        e.budget ≠ none) ∨
     (o.ret = [1] ∧ s'.flags = s.flags ∧ s'.op ≠ .none ∧ s'.nrWinning = s.nrWinning ∧
        s'.whitelist = [] ∧ e.budget ≠ none ∧
        ∃ z0 k, us2_leftStart s e = some (z0, some k) ∧
          us2_distOff s' + us2_redraws hash false s.nrWinning s.lastTicketId (k + 1) z0
            = us2_distOff s + (k + 1)) ∨
     (o.ret = [0] ∧ s'.flags.additional = true ∧ s'.op = .none)) := by
  obtain ⟨t, hx, rfl, rfl⟩ := LP.Props.C20.step_nopay_inv (by
    intro m hm; simp only [endpointMeta] at hm; split at hm
    · simp at hm; rw [← hm]
    · cases hm) hs
  simp only [exec] at hx
  have hx' : distribute hash (callTx s e e.budget) e = .ok t := hx
  obtain ⟨hpre, g, x, b1, hg, _, hcase⟩ := distribute_ok_cases hash (callTx s e e.budget) t e hx'
  have hTs : (callTx s e e.budget).s = s := rfl
  have hTb : (callTx s e e.budget).c.budget = e.budget := rfl
  rw [hTs, hTb, hd.notV2] at hcase
  have hoff : us2_distOff s = g.offset := us2_distOff_of_guarOpOf (t := callTx s e e.budget) hg
  rcases hcase with ⟨hrun, hs', hret, _⟩ | ⟨hrun, z, b2, hcase2⟩
  · have hlt := us2_loop1_interrupted s g _ _ _ _ hrun
    obtain ⟨k, hk⟩ := runWhile_interrupted_budget hrun
    rw [hs']
    refine ⟨rfl, rfl, rfl, rfl, rfl, Or.inl ⟨hret, rfl, nofun, rfl, hlt, ?_, by rw [hk]; simp⟩⟩
    show g.offset = us2_distOff s
    exact hoff.symm
  · obtain ⟨hinv, hgo, hnil⟩ := us2_loop1_to_loop2 hd (t := callTx s e e.budget) rfl hg hrun
      (callTx s e e.budget).dctx
    have hls : us2_leftStart s e
        = some (leftZ (guarS1 s x) (guarG1 g x) (callTx s e e.budget).dctx, b1) := by
      unfold us2_leftStart
      rw [hg]
      simp only [hrun]
    have hfuel : leftFuel s = v1LeftoverFuel := by unfold leftFuel; rw [hd.notV2]; rfl
    rw [hfuel] at hcase2
    rcases hcase2 with ⟨hrun2, hs', hret, _⟩ | ⟨hrun2, hs', hret, _⟩
    · obtain ⟨k, hk⟩ := runWhile_interrupted_budget hrun2
      subst hk
      obtain ⟨_, hprog⟩ := us2_loop2_v1_interrupted _ _ _ _ _ hrun2 hinv
      have hbud : e.budget ≠ none := by
        intro hb
        rw [hb] at hrun
        have := (runWhile_none_budget _ _ _ _ _ _ hrun).1
        cases this
      rw [hs']
      refine ⟨rfl, rfl, rfl, rfl, rfl, Or.inr (Or.inl ⟨hret, rfl, nofun, rfl, hnil, hbud,
        _, k, hls, ?_⟩)⟩
      show z.offset + _ = _
      rw [hoff]
      exact hprog
    · rw [hs']
      exact ⟨rfl, rfl, rfl, rfl, rfl, Or.inr (Or.inr ⟨hret, rfl, rfl⟩)⟩

/-! ## the three contracts with the v1 `distribute` endpoint -/

/-- reachable states of `migration`, `lockedGuar` (`v1_Reach`) and `guarV1` (`g1_Reach`) -/
inductive us2_V1Cov (hash : List Nat → List Nat) : State → Nat → Prop
  | v1 {v : Variant} {s : State} {r : Nat} : v1_Fam v → v1_Reach hash v s r → us2_V1Cov hash s r
  | guarV1 {s : State} {r : Nat} : g1_Reach hash s r → us2_V1Cov hash s r

theorem us2_V1Cov.covered {hash : List Nat → List Nat} {s : State} {r : Nat}
    (h : us2_V1Cov hash s r) : be_Covered hash s r := by
  cases h with
  | v1 hv h => exact .v1 hv h
  | guarV1 h => exact .guarV1 h

theorem us2_V1Cov.call {hash : List Nat → List Nat} {s s' : State} {r : Nat} {e : Env} {c : Call}
    {o : Out} (h : us2_V1Cov hash s r) (hr : r ≤ e.round) (he : EnvOK e) (hc : v1_CallOK c)
    (hst : step hash s e c = .ok (s', o)) : us2_V1Cov hash s' e.round := by
  cases h with
  | v1 hv h => exact .v1 hv (.call _ _ _ _ _ _ h hr he hc hst)
  | guarV1 h => exact .guarV1 (.call _ _ _ _ _ _ h hr he hc hst)

theorem us2_V1Cov.meta {hash : List Nat → List Nat} {s : State} {r : Nat}
    (h : us2_V1Cov hash s r) :
    endpointMeta s.variant .distribute = some ⟨false, false⟩ ∧ s.variant.isV2 = false := by
  cases h with
  | v1 hv h =>
    obtain ⟨a0, ha⟩ := v1_Reach_iff.mp h
    have hvar := (v1_reach_WF hv ha).var
    rcases hvar with hvar | hvar <;> rw [hvar] <;> exact ⟨rfl, rfl⟩
  | guarV1 h =>
    obtain ⟨a0, ha⟩ := g1_Reach_iff.mp h
    have hvar := (g1_reach_WF ha).var
    rw [hvar]; exact ⟨rfl, rfl⟩

theorem us2_DistSt_of_PhE {T0 : Nat} {s : State} (hv : s.variant.isV2 = false)
    (hE : v1_PhE T0 s.core (v1_gv s)) : us2_DistSt s :=
  ⟨hv, v1_RI_of_alloc hE.alloc, hE.dist⟩

theorem us2_V1Cov.distSt {hash : List Nat → List Nat} {s : State} {r : Nat}
    (h : us2_V1Cov hash s r) (hsd : s.flags.selected = true) (hna : s.flags.additional = false) :
    us2_DistSt s := by
  have hv := h.meta.2
  cases h with
  | v1 hv1 h =>
    obtain ⟨a0, ha⟩ := v1_Reach_iff.mp h
    exact us2_DistSt_of_PhE hv (v1_phase_E (v1_reach_WF hv1 ha).phase hsd hna).2
  | guarV1 h =>
    obtain ⟨a0, ha⟩ := g1_Reach_iff.mp h
    exact us2_DistSt_of_PhE hv (v1_phase_E (g1_reach_WF ha).phase hsd hna).2

/-- the outcome of an accepted v1 `distribute` call, as a predicate -/
structure us2_V1Out (hash : List Nat → List Nat) (s : State) (e : Env) (s' : State) (o : Out) :
    Prop where
  owner : s'.owner = s.owner
  paused : s'.paused = s.paused
  cfg : s'.cfg = s.cfg
  selected : s'.flags.selected = s.flags.selected
  last : s'.lastTicketId = s.lastTicketId
  cases :
    -- interrupted in the guaranteed-ticket phase
    (o.ret = [1] ∧ s'.flags = s.flags ∧ s'.op ≠ .none ∧ s'.nrWinning = s.nrWinning ∧
        s'.whitelist.length < s.whitelist.length ∧ us2_distOff s' = us2_distOff s ∧
        e.budget ≠ none) ∨
    -- interrupted in the leftover phase
    (o.ret = [1] ∧ s'.flags = s.flags ∧ s'.op ≠ .none ∧ s'.nrWinning = s.nrWinning ∧
        s'.whitelist = [] ∧ e.budget ≠ none ∧
        ∃ z0 k, us2_leftStart s e = some (z0, some k) ∧
          us2_distOff s' + us2_redraws hash false s.nrWinning s.lastTicketId (k + 1) z0
            = us2_distOff s + (k + 1)) ∨
    -- completed
    (o.ret = [0] ∧ s'.flags.additional = true ∧ s'.op = .none)

/-- **`distribute` of the v1 family in a reachable state**: accepted unless the leftover loop
    spins; the outcome of an accepted call -/
theorem us2_dist_v1_never_stuck (hash : List Nat → List Nat) {s : State} {r : Nat} {e : Env}
    (hs : us2_V1Cov hash s r) (hsd : s.flags.selected = true) (hna : s.flags.additional = false)
    (hr : r ≤ e.round) (hsel : s.cfg.sel ≤ e.round) (hpay : us_NoPay e) :
    (s.op = .none ∨ ∃ g, s.op = .additional (.guar g)) ∧
    (us2_Spins hash s e → step hash s e .distribute = .error (.vm "out of gas") ∧
      ∃ z0 b1, us2_leftStart s e = some (z0, b1) ∧
        v1LeftoverFuel ≤ s.lastTicketId + 1 - (s.nrWinning + us2_distOff s) +
          us2_redraws hash false s.nrWinning s.lastTicketId v1LeftoverFuel z0) ∧
    (¬ us2_Spins hash s e → ∃ s' o, step hash s e .distribute = .ok (s', o) ∧
      us2_V1Cov hash s' e.round ∧ us2_V1Out hash s e s' o) := by
  have hd := hs.distSt hsd hna
  obtain ⟨hm, hiv2⟩ := hs.meta
  have hvalid := ((be_family_all hash).good hs.covered).valid
  obtain ⟨hA, hB⟩ := us2_dist_v1_accept hash hm hiv2 hd.op hvalid hsd hna hsel hpay
  refine ⟨hd.op, fun hsp => ⟨hA hsp, us2_spins_redraws hash hd hsp⟩, fun hns => ?_⟩
  obtain ⟨s', o, hst⟩ := hB hns
  obtain ⟨h1, h2, h3, h4, h5, h6⟩ := us2_dist_v1_shape hash hd hst
  exact ⟨s', o, hst, hs.call hr hpay.envOK (by trivial) hst, ⟨h1, h2, h3, h4, h5, h6⟩⟩

/-- with an unlimited budget and fewer than `200000 - left` draws hitting an already winning
    ticket, the call completes the step -/
theorem us2_dist_v1_completes_one (hash : List Nat → List Nat) {s : State} {r : Nat} {e : Env}
    (hs : us2_V1Cov hash s r) (hsd : s.flags.selected = true) (hna : s.flags.additional = false)
    (hr : r ≤ e.round) (hsel : s.cfg.sel ≤ e.round) (hpay : us_NoPay e) (hb : e.budget = none)
    (hdraws : ∀ z0 b1, us2_leftStart s e = some (z0, b1) →
      s.lastTicketId + 1 - (s.nrWinning + us2_distOff s) +
        us2_redraws hash false s.nrWinning s.lastTicketId v1LeftoverFuel z0 < v1LeftoverFuel) :
    ∃ s' o, step hash s e .distribute = .ok (s', o) ∧ us2_V1Cov hash s' e.round ∧
      o.ret = [0] ∧ s'.flags.additional = true ∧ s'.flags.selected = true ∧ s'.op = .none := by
  obtain ⟨_, hA, hB⟩ := us2_dist_v1_never_stuck hash hs hsd hna hr hsel hpay
  have hns : ¬ us2_Spins hash s e := by
    intro hsp
    obtain ⟨_, z0, b1, hls, hle⟩ := hA hsp
    have := hdraws z0 b1 hls
    omega
  obtain ⟨s', o, hst, hcov, hout⟩ := hB hns
  refine ⟨s', o, hst, hcov, ?_⟩
  rcases hout.cases with ⟨_, _, _, _, _, _, h⟩ | ⟨_, _, _, _, _, h, _⟩ | ⟨h1, h2, h3⟩
  · exact absurd hb h
  · exact absurd hb h
  · exact ⟨h1, h2, by rw [hout.selected]; exact hsd, h3⟩

/-! ## nftGuar: the NFT phase of `secondary` -/

theorem us2_secondary_nft_eq (hash : List Nat → List Nat) (t : Tx) (e : Env) (r : Rng)
    (hp : NftPre t.s e) (hop : t.s.op = .additional (.nft r)) :
    secondary hash t e = (nftSubstep hash t r >>= secNftFinish) := by
  obtain ⟨h1, h2, h3⟩ := hp
  have h1' : (t.s.stage e == Stage.winnerSelection) = true := by simp [h1]
  have h3' : (!t.s.flags.additional) = true := by simp [h3]
  unfold secondary
  simp only [bind, Except.bind, pure, Except.pure, req, requireStage, h1', h2, h3', if_true, hop]
  cases nftSubstep hash t r with
  | error err => rfl
  | ok q =>
    obtain ⟨t2, r2, st2⟩ := q
    cases st2 <;> rfl

theorem us2_step_secondary (hash : List Nat → List Nat) (s : State) (e : Env)
    (hv : s.variant = .nftGuar) (h1 : e.egld = 0) (h2 : e.esdts = []) :
    step hash s e .secondary =
      match secondary hash (callTx s e e.budget) e with
      | .error err => .error err
      | .ok t => .ok (t.s, t.o) := by
  simp only [step, endpointMeta, exec, hv, creditPayments_nopay s e h1 h2, h1, h2, callTx]
  simp
  cases secondary hash ⟨s, ⟨e.budget, e.seeds, e.script⟩, {}⟩ e <;> rfl

/-- `secondary` with the generator of the NFT draw saved: the call is the NFT draw -/
theorem us2_sec_nft_step (hash : List Nat → List Nat) {s : State} {e : Env}
    (hvar : s.variant = .nftGuar) {rg : Rng} (hop : s.op = .additional (.nft rg))
    (hrdy : NftReady s) (hw : s.nftWinners.length ≤ s.availNfts)
    (hv : validPeriods s.cfg = true) (hs : s.flags.selected = true)
    (hna : s.flags.additional = false) (hsel : s.cfg.sel ≤ e.round)
    (h1 : e.egld = 0) (h2 : e.esdts = []) :
    ∃ s' o, step hash s e .secondary = .ok (s', o) ∧ s'.flags.selected = true ∧
      (s'.flags.additional = false → ∃ rg', s'.op = .additional (.nft rg')) ∧
      us_Outcome s' o e (fun s => s.flags.additional) us_nftLeft s := by
  have hpre : NftPre s e := ⟨us_stage hv hsel (by rw [hna]; simp), hs, hna⟩
  have hi : NInv (nftCoreOf (callTx s e e.budget) rg) := ⟨hrdy.nodup, hrdy.disj, rfl, rfl⟩
  rw [us2_step_secondary hash s e hvar h1 h2,
    us2_secondary_nft_eq hash (callTx s e e.budget) e rg hpre hop, nftSubstep_eq]
  have hul : (nftCoreOf (callTx s e e.budget) rg).usersLeft = s.payers.length := rfl
  have hsl : (nftCoreOf (callTx s e e.budget) rg).selected = s.nftWinners.length := rfl
  rcases us_nft_loop hash s.availNfts (s.payers.length + 2) _ hi (by rw [hsl]; exact hw)
      (by rw [hul]; omega) e.budget with ⟨y', b', hrun⟩ | ⟨y', b', hrun, hi', hle', hlt, hb⟩
  · have hrun' : runWhile (nftCoreBody hash (callTx s e e.budget).s.availNfts)
        ((callTx s e e.budget).s.payers.length + 2) (callTx s e e.budget).c.budget
        (nftCoreOf (callTx s e e.budget) rg) = .ok (y', b', .completed) := hrun
    rw [hrun']
    exact ⟨_, _, rfl, hs, fun h => (by have : true = false := h; cases this),
      Or.inl ⟨rfl, rfl, rfl⟩, rfl, rfl, rfl⟩
  · have hrun' : runWhile (nftCoreBody hash (callTx s e e.budget).s.availNfts)
        ((callTx s e e.budget).s.payers.length + 2) (callTx s e e.budget).c.budget
        (nftCoreOf (callTx s e e.budget) rg) = .ok (y', b', .interrupted) := hrun
    rw [hrun']
    refine ⟨_, _, rfl, hs, fun _ => ⟨y'.rng, rfl⟩, Or.inr ⟨rfl, hna, ?_, ?_, hb⟩, rfl, rfl, rfl⟩
    · show Op.additional _ ≠ Op.none
      exact nofun
    · show min y'.payers.length (s.availNfts - y'.winners.length) < us_nftLeft s
      unfold us_nftLeft
      rw [← hi'.left, ← hi'.sel, ← hul, ← hsl]
      exact hlt

/-- **the NFT phase of `secondary` is never stuck**: in every reachable state of nftGuar in which
    the guaranteed sub-step has completed (the generator of the NFT draw is saved), a `secondary`
    call is accepted from the selection round on (no pause gate, no caller gate), whatever the
    budget; it completes the step or strictly decreases `us_nftLeft ≤ availNfts` -/
theorem us2_sec_nft_never_stuck (hash : List Nat → List Nat) {s : State} {r : Nat} {e : Env}
    (hs : ng_Reach hash s r) {rg : Rng} (hop : s.op = .additional (.nft rg)) (hr : r ≤ e.round)
    (hsel : s.cfg.sel ≤ e.round) (hpay : us_NoPay e) :
    s.flags.selected = true ∧ s.flags.additional = false ∧ us_nftLeft s ≤ s.availNfts ∧
    ∃ s' o, step hash s e .secondary = .ok (s', o) ∧ ng_Reach hash s' e.round ∧
      s'.flags.selected = true ∧
      (s'.flags.additional = false → ∃ rg', s'.op = .additional (.nft rg')) ∧
      us_Outcome s' o e (fun s => s.flags.additional) us_nftLeft s := by
  obtain ⟨a0, ha⟩ := ng_Reach_iff.mp hs
  have wf := ng_reach_WF ha
  have hF : ng_PhF a0.nrWinning (nf_core s) (v1_gv s) := by
    rcases wf.phase with h | ⟨hF, _⟩
    · exact absurd hop (ng_op_not_nft h rg)
    · exact hF
  have hsd : s.flags.selected = true := hF.post.selected
  have hna : s.flags.additional = false := hF.notDone
  have hrdy : NftReady s := ⟨wf.side.nodupP, wf.side.disj⟩
  have hw : s.nftWinners.length ≤ s.availNfts := wf.side.winLe
  have hvalid := ((be_family_all hash).good (be_Covered.nftGuar hs)).valid
  obtain ⟨s', o, hst, h1, h2, h3⟩ := us2_sec_nft_step hash wf.var hop hrdy hw hvalid hsd hna hsel
    hpay.1 hpay.2
  exact ⟨hsd, hna, by unfold us_nftLeft; omega, s', o, hst,
    .call _ _ _ _ _ _ hs hr hpay.envOK (by trivial) hst, h1, h2, h3⟩

theorem us2_sec_rejected_when_done (hash : List Nat → List Nat) (s : State) (e : Env)
    (h : s.flags.additional = true) : ∃ err, step hash s e .secondary = .error err := by
  cases hst : step hash s e .secondary with
  | error err => exact ⟨err, rfl⟩
  | ok x =>
    exfalso
    obtain ⟨m, t, _, _, _, hx, _, _⟩ := step_ok_inv hst
    simp only [exec] at hx
    have h3 := (ng_secondary_cases hash _ _ e hx).2.2.1
    have h4 : (tx0 s e).s.flags = s.flags := rfl
    rw [h4, h] at h3
    cases h3

/-- any `us_nftLeft s + 1 ≤ availNfts + 1` successive `secondary` calls (arbitrary callers and
    budgets) complete the step once its NFT phase has begun -/
theorem us2_sec_nft_completes (hash : List Nat → List Nat) {s : State} {r : Nat}
    (hs : ng_Reach hash s r) {rg : Rng} (hop : s.op = .additional (.nft rg)) (hsel : s.cfg.sel ≤ r)
    (es : List Env) (hr : RoundsFrom r (us_hist .secondary es)) (hpay : ∀ e ∈ es, us_NoPay e)
    (hlen : us_nftLeft s + 1 ≤ es.length) :
    (run hash s (us_hist .secondary es)).flags.additional = true := by
  refine us_run_completes hash .secondary
    (fun s1 r1 => ng_Reach hash s1 r1 ∧ s1.cfg.sel ≤ r1 ∧
      (s1.flags.additional = false → ∃ rg', s1.op = .additional (.nft rg'))) us_NoPay
    (fun s => s.flags.additional) us_nftLeft ?_
    (fun s e h => us2_sec_rejected_when_done hash s e h) es s r ⟨hs, hsel, fun _ => ⟨rg, hop⟩⟩
    hr hpay hlen
  intro s1 r1 e hg hna hr1 hq
  obtain ⟨hre, hsel1, hop1⟩ := hg
  obtain ⟨rg1, hop1⟩ := hop1 hna
  obtain ⟨_, _, _, s', o, hst, hre', _, hop', hout⟩ := us2_sec_nft_never_stuck hash hre hop1 hr1
    (Nat.le_trans hsel1 hr1) hq
  refine ⟨s', o, hst, ⟨hre', by rw [hout.cfg]; exact Nat.le_trans hsel1 hr1, hop'⟩, ?_⟩
  rcases hout.cases with ⟨_, h, _⟩ | ⟨_, _, _, h, _⟩
  · exact Or.inl h
  · exact Or.inr h

/-! ## nftGuar: the guaranteed phase of `secondary` -/

theorem us2_secondary_guar_eq (hash : List Nat → List Nat) (t : Tx) (e : Env) (g : GuarOp)
    (hp : NftPre t.s e) (hg : guarOpOf t = some g) :
    secondary hash t e = (guaranteedSubstep hash (selTxOf t) g >>= ng_secGuarFinish hash) := by
  obtain ⟨h1, h2, h3⟩ := hp
  have h1' : (t.s.stage e == Stage.winnerSelection) = true := by simp [h1]
  have h3' : (!t.s.flags.additional) = true := by simp [h3]
  unfold secondary
  simp only [bind, Except.bind, pure, Except.pure, req, requireStage, h1', h2, h3', if_true]
  rcases hop : t.s.op with _ | _ | _ | (g0 | r0)
  · simp only [guarOpOf, hop, Option.some.injEq] at hg
    subst hg
    simp only [selTxOf, hop]
    cases guaranteedSubstep hash t.freshRng.2 { rng := t.freshRng.1 } with
    | error err => rfl
    | ok q =>
      obtain ⟨t1, g1, st⟩ := q
      cases st with
      | completed =>
        simp only [ng_secGuarFinish, bind, Except.bind]
        cases nftSubstep hash (t1.setS (creditAdditional t1.s g1.additional)).freshRng.2
            (t1.setS (creditAdditional t1.s g1.additional)).freshRng.1 with
        | error err => rfl
        | ok q2 =>
          obtain ⟨t2, r2, st2⟩ := q2
          cases st2 <;> rfl
      | interrupted => rfl
      | outOfFuel => rfl
  · simp [guarOpOf, hop] at hg
  · simp [guarOpOf, hop] at hg
  · simp only [guarOpOf, hop, Option.some.injEq] at hg
    subst hg
    simp only [selTxOf, hop]
    cases guaranteedSubstep hash t g0 with
    | error err => rfl
    | ok q =>
      obtain ⟨t1, g1, st⟩ := q
      cases st with
      | completed =>
        simp only [ng_secGuarFinish, bind, Except.bind]
        cases nftSubstep hash (t1.setS (creditAdditional t1.s g1.additional)).freshRng.2
            (t1.setS (creditAdditional t1.s g1.additional)).freshRng.1 with
        | error err => rfl
        | ok q2 =>
          obtain ⟨t2, r2, st2⟩ := q2
          cases st2 <;> rfl
      | interrupted => rfl
      | outOfFuel => rfl
  · simp [guarOpOf, hop] at hg

/-- the NFT draw that `secondary` starts in the call in which the guaranteed sub-step completes:
    never an error; completes the step or saves the draw's generator -/
theorem us2_nft_tail (hash : List Nat → List Nat) (T2 : Tx) (r : Rng) (hrdy : NftReady T2.s)
    (hw : T2.s.nftWinners.length ≤ T2.s.availNfts) :
    ∃ t', (nftSubstep hash T2 r >>= secNftFinish) = .ok t' ∧
      t'.s.owner = T2.s.owner ∧ t'.s.paused = T2.s.paused ∧ t'.s.cfg = T2.s.cfg ∧
      t'.s.flags.selected = T2.s.flags.selected ∧ t'.s.lastTicketId = T2.s.lastTicketId ∧
      ((t'.o.ret = [0] ∧ t'.s.flags.additional = true ∧ t'.s.op = .none) ∨
       (t'.o.ret = [1] ∧ t'.s.flags = T2.s.flags ∧ (∃ rg', t'.s.op = .additional (.nft rg')) ∧
          T2.c.budget ≠ none)) := by
  have hi : NInv (nftCoreOf T2 r) := ⟨hrdy.nodup, hrdy.disj, rfl, rfl⟩
  rw [nftSubstep_eq]
  rcases us_nft_loop hash T2.s.availNfts (T2.s.payers.length + 2) _ hi hw (Nat.le_refl _)
      T2.c.budget with ⟨y', b', hrun⟩ | ⟨y', b', hrun, _, _, _, hb⟩
  · rw [hrun]
    exact ⟨_, rfl, rfl, rfl, rfl, rfl, rfl, Or.inl ⟨rfl, rfl, rfl⟩⟩
  · rw [hrun]
    exact ⟨_, rfl, rfl, rfl, rfl, rfl, rfl, Or.inr ⟨rfl, rfl, ⟨_, rfl⟩, hb⟩⟩

/-- the outcome of an accepted `secondary` call made while the guaranteed sub-step is in progress -/
structure us2_SecOut (hash : List Nat → List Nat) (s : State) (e : Env) (s' : State) (o : Out) :
    Prop where
  owner : s'.owner = s.owner
  paused : s'.paused = s.paused
  cfg : s'.cfg = s.cfg
  selected : s'.flags.selected = s.flags.selected
  last : s'.lastTicketId = s.lastTicketId
  cases :
    -- interrupted in the guaranteed-ticket phase
    (o.ret = [1] ∧ s'.flags = s.flags ∧ (∃ g', s'.op = .additional (.guar g')) ∧
        s'.nrWinning = s.nrWinning ∧ s'.whitelist.length < s.whitelist.length ∧
        us2_distOff s' = us2_distOff s ∧ e.budget ≠ none) ∨
    -- interrupted in the leftover phase
    (o.ret = [1] ∧ s'.flags = s.flags ∧ (∃ g', s'.op = .additional (.guar g')) ∧
        s'.nrWinning = s.nrWinning ∧ s'.whitelist = [] ∧ e.budget ≠ none ∧
        ∃ z0 k, us2_leftStart s e = some (z0, some k) ∧
          us2_distOff s' + us2_redraws hash false s.nrWinning s.lastTicketId (k + 1) z0
            = us2_distOff s + (k + 1)) ∨
    -- guaranteed sub-step completed, NFT draw interrupted
    (o.ret = [1] ∧ s'.flags = s.flags ∧ (∃ rg', s'.op = .additional (.nft rg')) ∧
        e.budget ≠ none) ∨
    -- step completed
    (o.ret = [0] ∧ s'.flags.additional = true ∧ s'.op = .none)

/-- **`secondary` while the guaranteed sub-step is in progress**: accepted IFF the leftover loop
    does not exhaust its fuel (then: "out of gas"); all outcomes of an accepted call -/
theorem us2_sec_guar_step (hash : List Nat → List Nat) {s : State} {e : Env}
    (hvar : s.variant = .nftGuar) (hd : us2_DistSt s) (hrdy : NftReady s)
    (hw : s.nftWinners.length ≤ s.availNfts)
    (hv : validPeriods s.cfg = true) (hsd : s.flags.selected = true)
    (hna : s.flags.additional = false) (hsel : s.cfg.sel ≤ e.round) (hpay : us_NoPay e) :
    (us2_Spins hash s e → step hash s e .secondary = .error (.vm "out of gas")) ∧
    (¬ us2_Spins hash s e → ∃ s' o, step hash s e .secondary = .ok (s', o) ∧
      us2_SecOut hash s e s' o) := by
  have hiv2 : s.variant.isV2 = false := hd.notV2
  have hpre : NftPre s e := ⟨us_stage hv hsel (by rw [hna]; simp), hsd, hna⟩
  obtain ⟨g, hg⟩ : ∃ g, guarOpOf (callTx s e e.budget) = some g := by
    rcases hd.op with hop | ⟨g, hop⟩
    · exact ⟨{ rng := (callTx s e e.budget).freshRng.1 }, by simp only [guarOpOf, callTx, hop]⟩
    · exact ⟨g, by simp only [guarOpOf, callTx, hop]⟩
  have hoff : us2_distOff s = g.offset := us2_distOff_of_guarOpOf (t := callTx s e e.budget) hg
  have hstep := us2_step_secondary hash s e hvar hpay.1 hpay.2
  rw [us2_secondary_guar_eq hash (callTx s e e.budget) e g hpre hg] at hstep
  have hTs : (selTxOf (callTx s e e.budget)).s = s := selTxOf_s _
  have hsub := us2_guarSub_v1 hash (selTxOf (callTx s e e.budget)) g (by rw [hTs]; exact hiv2)
  simp only [selTxOf_s, selTxOf_budget, selTxOf_dctx] at hsub
  have hTs' : (callTx s e e.budget).s = s := rfl
  have hTb : (callTx s e e.budget).c.budget = e.budget := rfl
  rw [hTs', hTb] at hsub
  rcases hsub with ⟨x, b1, hrun, hgs⟩ | ⟨x, b1, hrun, z, b2, st2, hrun2, hcase⟩
  · have hls : us2_leftStart s e = none := by
      unfold us2_leftStart
      rw [hg]
      simp only [hrun]
    refine ⟨fun ⟨z0, b1', z, b2, h, _⟩ => (by rw [hls] at h; cases h), fun _ => ?_⟩
    rw [hgs] at hstep
    have hlt := us2_loop1_interrupted s g _ _ _ _ hrun
    obtain ⟨k, hk⟩ := runWhile_interrupted_budget hrun
    have hst2 : step hash s e .secondary = .ok (distSaved1 s g x, _) := hstep
    exact ⟨_, _, hst2, rfl, rfl, rfl, rfl, rfl,
      Or.inl ⟨rfl, rfl, ⟨_, rfl⟩, rfl, hlt, hoff.symm, by rw [hk]; simp⟩⟩
  · obtain ⟨hinv, _, hnil⟩ := us2_loop1_to_loop2 hd (t := callTx s e e.budget) rfl hg hrun
      (callTx s e e.budget).dctx
    have hls : us2_leftStart s e
        = some (leftZ (guarS1 s x) (guarG1 g x) (callTx s e e.budget).dctx, b1) := by
      unfold us2_leftStart
      rw [hg]
      simp only [hrun]
    have hb1 : e.budget = none → b1 = none := fun hb => by
      rw [hb] at hrun
      exact (runWhile_none_budget _ _ _ _ _ _ hrun).1
    rcases hcase with ⟨rfl, hgs⟩ | ⟨hne, hgs⟩
    · refine ⟨fun _ => ?_, fun hns => absurd ⟨_, _, _, _, hls, hrun2⟩ hns⟩
      rw [hgs] at hstep
      exact hstep
    · refine ⟨fun ⟨z0, b1', z', b2', h, hr⟩ => ?_, fun _ => ?_⟩
      · rw [hls] at h
        simp only [Option.some.injEq, Prod.mk.injEq] at h
        obtain ⟨rfl, rfl⟩ := h
        rw [hrun2] at hr
        simp only [Except.ok.injEq, Prod.mk.injEq] at hr
        exact absurd hr.2.2 hne
      · rw [hgs] at hstep
        cases st2 with
        | outOfFuel => exact absurd rfl hne
        | interrupted =>
          obtain ⟨k, hk⟩ := runWhile_interrupted_budget hrun2
          subst hk
          obtain ⟨_, hprog⟩ := us2_loop2_v1_interrupted _ _ _ _ _ hrun2 hinv
          have hbud : e.budget ≠ none := fun hb => by cases hb1 hb
          have hst2 : step hash s e .secondary = .ok (distSaved2 s x z, _) := hstep
          refine ⟨_, _, hst2, rfl, rfl, rfl, rfl, rfl,
            Or.inr (Or.inl ⟨rfl, rfl, ⟨_, rfl⟩, rfl, hnil, hbud, _, k, hls, ?_⟩)⟩
          show z.offset + _ = _
          rw [hoff]
          exact hprog
        | completed =>
          have hb2 : e.budget = none → b2 = none := fun hb => by
            have := hb1 hb
            subst this
            exact (runWhile_none_budget _ _ _ _ _ _ hrun2).1
          obtain ⟨t', ht', h1, h2, h3, h4, h5, h6⟩ := us2_nft_tail hash
            ((leftTx (selTxOf (callTx s e e.budget)) (guarS1 s x) z b2).setS
              (creditAdditional (leftTx (selTxOf (callTx s e e.budget)) (guarS1 s x) z b2).s
                (leftG z).additional)).freshRng.2
            ((leftTx (selTxOf (callTx s e e.budget)) (guarS1 s x) z b2).setS
              (creditAdditional (leftTx (selTxOf (callTx s e e.budget)) (guarS1 s x) z b2).s
                (leftG z).additional)).freshRng.1
            (by rw [Tx.freshRng_s]; exact ⟨hrdy.nodup, hrdy.disj⟩)
            (by rw [Tx.freshRng_s]; exact hw)
          rw [Tx.freshRng_s] at h1 h2 h3 h4 h5 h6
          rw [Tx.freshRng_budget] at h6
          have hfin : (Except.ok (leftTx (selTxOf (callTx s e e.budget)) (guarS1 s x) z b2, leftG z,
              LoopStatus.completed) >>= ng_secGuarFinish hash) = .ok t' := ht'
          rw [hfin] at hstep
          refine ⟨_, _, hstep, h1, h2, h3, h4, h5, ?_⟩
          rcases h6 with h6 | ⟨h7, h8, h9, h10⟩
          · exact Or.inr (Or.inr (Or.inr h6))
          · refine Or.inr (Or.inr (Or.inl ⟨h7, h8, h9, fun hb => h10 ?_⟩))
            exact hb2 hb

theorem us2_ng_distSt {hash : List Nat → List Nat} {s : State} {r : Nat} (hs : ng_Reach hash s r)
    (hsd : s.flags.selected = true) (hna : s.flags.additional = false)
    (hopn : ∀ rg, s.op ≠ .additional (.nft rg)) : us2_DistSt s := by
  obtain ⟨a0, ha⟩ := ng_Reach_iff.mp hs
  have wf := ng_reach_WF ha
  rcases ng_phase_sel wf.phase hsd hna with ⟨_, hE⟩ | ⟨_, rr, hopF⟩
  · exact ⟨(ng_flags wf.var).2.2.1,
      ng_RI_of_alloc (P := fun L => PayPre (nf_core s) L) hE.alloc, hE.dist⟩
  · exact absurd hopF (hopn rr)

/-- **`secondary` of nftGuar while the guaranteed sub-step is in progress**, in a reachable state -/
theorem us2_sec_guar_never_stuck (hash : List Nat → List Nat) {s : State} {r : Nat} {e : Env}
    (hs : ng_Reach hash s r) (hsd : s.flags.selected = true) (hna : s.flags.additional = false)
    (hopn : ∀ rg, s.op ≠ .additional (.nft rg)) (hr : r ≤ e.round) (hsel : s.cfg.sel ≤ e.round)
    (hpay : us_NoPay e) :
    (s.op = .none ∨ ∃ g, s.op = .additional (.guar g)) ∧
    (us2_Spins hash s e → step hash s e .secondary = .error (.vm "out of gas") ∧
      ∃ z0 b1, us2_leftStart s e = some (z0, b1) ∧
        v1LeftoverFuel ≤ s.lastTicketId + 1 - (s.nrWinning + us2_distOff s) +
          us2_redraws hash false s.nrWinning s.lastTicketId v1LeftoverFuel z0) ∧
    (¬ us2_Spins hash s e → ∃ s' o, step hash s e .secondary = .ok (s', o) ∧
      ng_Reach hash s' e.round ∧ us2_SecOut hash s e s' o) := by
  have hd := us2_ng_distSt hs hsd hna hopn
  obtain ⟨a0, ha⟩ := ng_Reach_iff.mp hs
  have wf := ng_reach_WF ha
  have hrdy : NftReady s := ⟨wf.side.nodupP, wf.side.disj⟩
  have hw : s.nftWinners.length ≤ s.availNfts := wf.side.winLe
  have hvalid := ((be_family_all hash).good (be_Covered.nftGuar hs)).valid
  obtain ⟨hA, hB⟩ := us2_sec_guar_step hash wf.var hd hrdy hw hvalid hsd hna hsel hpay
  refine ⟨hd.op, fun hsp => ⟨hA hsp, us2_spins_redraws hash hd hsp⟩, fun hns => ?_⟩
  obtain ⟨s', o, hst, hout⟩ := hB hns
  exact ⟨s', o, hst, .call _ _ _ _ _ _ hs hr hpay.envOK (by trivial) hst, hout⟩

/-- the bound of the property text for guarV2: `|whitelist| + lastTicketId + 1` calls suffice -/
theorem us2_dist_v2_completes_within (hash : List Nat → List Nat) {s : State} {r : Nat}
    (hs : Reach hash .guarV2 s r) (hsd : s.flags.selected = true) (hsel : s.cfg.sel ≤ r)
    (hp : s.paused = false) (es : List Env) (hr : RoundsFrom r (us_hist .distribute es))
    (hq : ∀ e ∈ es, us_NoPay e ∧ (e.caller = s.owner ∨ e.callerIsContract = false))
    (hlen : s.whitelist.length + s.lastTicketId + 1 ≤ es.length) :
    (run hash s (us_hist .distribute es)).flags.additional = true := by
  cases hna : s.flags.additional with
  | true =>
    rw [us_run_done hash .distribute (fun s => s.flags.additional)
      (fun s e h => us2_dist_rejected_when_done hash s e h) es s hna]
    exact hna
  | false =>
    cases es with
    | nil => simp at hlen
    | cons e rest =>
      have hr1 : r ≤ e.round := hr.1
      have hq1 := hq e (List.mem_cons_self ..)
      have hle := (us2_dist_v2_never_stuck hash hs hsd hna hr1 (Nat.le_trans hsel hr1) hq1.1 hp
        hq1.2).2.1
      exact us2_dist_v2_completes hash hs hsd hsel hp _ hr hq (by omega)

/-! ## v1 `distribute`: sequences of calls, under an explicit hypothesis on the draws -/

theorem us2_DistSt.off_bound {s : State} (hd : us2_DistSt s) :
    1 ≤ s.nrWinning + us2_distOff s ∧ s.nrWinning + us2_distOff s ≤ s.lastTicketId + 1 := by
  obtain ⟨lo, off, add, hop, hpos, _⟩ := hd.dist
  have hoff : us2_distOff s = off := by
    unfold us2_distOff
    rcases hop with ⟨hop, _, rfl, _⟩ | ⟨rng, hop⟩
    · rw [hop]
    · rw [hop]
  rw [hoff]
  exact ⟨hpos.pos, hpos.bound⟩

/-- what is assumed of the draws of a call in environment `e`, in whatever reachable state it is
    made: the leftover loop does not spin, and when the call is interrupted in the leftover loop
    after `k + 1` iterations at least one of them did not re-draw an already winning ticket -/
def us2_DrawsOK (hash : List Nat → List Nat) (e : Env) : Prop :=
  ∀ s1 r1, us2_V1Cov hash s1 r1 → s1.flags.selected = true → s1.flags.additional = false →
    ¬ us2_Spins hash s1 e ∧
    ∀ z0 k, us2_leftStart s1 e = some (z0, some k) →
      us2_redraws hash false s1.nrWinning s1.lastTicketId (k + 1) z0 < k + 1

/-- under `us2_DrawsOK`, every interrupted call strictly decreases `us2_distLeft` -/
theorem us2_dist_v1_progress (hash : List Nat → List Nat) {s : State} {r : Nat} {e : Env}
    (hs : us2_V1Cov hash s r) (hsd : s.flags.selected = true) (hna : s.flags.additional = false)
    (hr : r ≤ e.round) (hsel : s.cfg.sel ≤ e.round) (hpay : us_NoPay e)
    (hdr : us2_DrawsOK hash e) :
    ∃ s' o, step hash s e .distribute = .ok (s', o) ∧ us2_V1Cov hash s' e.round ∧
      s'.flags.selected = true ∧ s'.cfg = s.cfg ∧
      (s'.flags.additional = true ∨ us2_distLeft s' < us2_distLeft s) := by
  obtain ⟨hns, hred⟩ := hdr s r hs hsd hna
  obtain ⟨s', o, hst, hcov, hout⟩ :=
    (us2_dist_v1_never_stuck hash hs hsd hna hr hsel hpay).2.2 hns
  have hsd' : s'.flags.selected = true := by rw [hout.selected]; exact hsd
  refine ⟨s', o, hst, hcov, hsd', hout.cfg, ?_⟩
  rcases hout.cases with ⟨_, _, _, hnw, hlt, hoff, _⟩ | ⟨_, hf, _, hnw, hnil, _, z0, k, hls, heq⟩ |
      ⟨_, h, _⟩
  · right
    unfold us2_distLeft
    rw [hoff, hnw, hout.last]
    omega
  · right
    have hna' : s'.flags.additional = false := by rw [hf]; exact hna
    have hb := (hcov.distSt hsd' hna').off_bound.2
    have hlt := hred z0 k hls
    rw [hnw, hout.last] at hb
    unfold us2_distLeft
    rw [hnw, hout.last, hnil]
    simp only [List.length_nil]
    omega
  · exact Or.inl h

theorem us2_dist_v1_completes_calls (hash : List Nat → List Nat) {s : State} {r : Nat}
    (hs : us2_V1Cov hash s r) (hsd : s.flags.selected = true) (hsel : s.cfg.sel ≤ r)
    (es : List Env) (hr : RoundsFrom r (us_hist .distribute es))
    (hq : ∀ e ∈ es, us_NoPay e ∧ us2_DrawsOK hash e)
    (hlen : us2_distLeft s + 1 ≤ es.length) :
    (run hash s (us_hist .distribute es)).flags.additional = true := by
  refine us_run_completes hash .distribute
    (fun s1 r1 => us2_V1Cov hash s1 r1 ∧ s1.flags.selected = true ∧ s1.cfg.sel ≤ r1)
    (fun e => us_NoPay e ∧ us2_DrawsOK hash e)
    (fun s => s.flags.additional) us2_distLeft ?_
    (fun s e h => us2_dist_rejected_when_done hash s e h) es s r ⟨hs, hsd, hsel⟩ hr hq hlen
  intro s1 r1 e hg hna hr1 hq1
  obtain ⟨hc1, hsd1, hsel1⟩ := hg
  obtain ⟨s', o, hst, hcov, hsd', hcfg, hprog⟩ := us2_dist_v1_progress hash hc1 hsd1 hna hr1
    (Nat.le_trans hsel1 hr1) hq1.1 hq1.2
  exact ⟨s', o, hst, ⟨hcov, hsd', by rw [hcfg]; exact Nat.le_trans hsel1 hr1⟩, hprog⟩

/-! ### `us2_DrawsOK` is satisfiable: one iteration per call, scripted draw `0` -/

theorem us2_runWhile_budget_zero {σ : Type} (body : σ → Res (σ × Bool)) (f : Nat) (x x' : σ)
    (b' : Option Nat) (st : LoopStatus) (h : runWhile body (f + 1) (some 0) x = .ok (x', b', st)) :
    st ≠ .outOfFuel ∧ b' = some 0 := by
  cases hb : body x with
  | error err => rw [runWhile_err hb] at h; cases h
  | ok p =>
    obtain ⟨x1, c⟩ := p
    cases c with
    | false =>
      rw [runWhile_stop hb] at h
      simp only [Except.ok.injEq, Prod.mk.injEq] at h
      obtain ⟨_, rfl, rfl⟩ := h
      exact ⟨by decide, rfl⟩
    | true =>
      rw [runWhile_cont_zero hb] at h
      simp only [Except.ok.injEq, Prod.mk.injEq] at h
      obtain ⟨_, rfl, rfl⟩ := h
      exact ⟨by decide, rfl⟩

/-- a call with budget 0 (one loop iteration) whose scripted first draw is `0` satisfies
    `us2_DrawsOK`, in every state: the draw `0` re-selects the current ticket, which is not a
    winner when a draw is made -/
theorem us2_DrawsOK_zero (hash : List Nat → List Nat) (e : Env) (hb : e.budget = some 0)
    (hscr : e.script = [0]) : us2_DrawsOK hash e := by
  intro s1 r1 _ _ _
  have hstart : ∀ z0 b1, us2_leftStart s1 e = some (z0, b1) →
      b1 = some 0 ∧ z0.d.script = [0] := by
    intro z0 b1 h
    unfold us2_leftStart at h
    cases hg : guarOpOf (callTx s1 e e.budget) with
    | none => rw [hg] at h; cases h
    | some g =>
      rw [hg] at h
      simp only at h
      cases hrun : runWhile (guarBody s1) (s1.whitelist.length + 2) e.budget (guarX s1 g) with
      | error err => rw [hrun] at h; cases h
      | ok q =>
        obtain ⟨x, b1', st⟩ := q
        rw [hrun] at h
        cases st with
        | outOfFuel => cases h
        | interrupted => cases h
        | completed =>
          simp only [Option.some.injEq, Prod.mk.injEq] at h
          obtain ⟨rfl, rfl⟩ := h
          rw [hb] at hrun
          exact ⟨(us2_runWhile_budget_zero _ _ _ _ _ _ hrun).2, hscr⟩
  refine ⟨fun ⟨z0, b1, z, b2, hls, hrun⟩ => ?_, fun z0 k hls => ?_⟩
  · obtain ⟨rfl, _⟩ := hstart z0 b1 hls
    have : v1LeftoverFuel = 199999 + 1 := rfl
    rw [this] at hrun
    exact (us2_runWhile_budget_zero _ _ _ _ _ _ hrun).1 rfl
  · obtain ⟨hk, hz⟩ := hstart z0 (some k) hls
    simp only [Option.some.injEq] at hk
    subst hk
    have hx : LCore.lift default z0 = (LCore.lift default z0).withScript (0 :: []) := by
      obtain ⟨st, p, rg, lo, off, add, ⟨scr, lg⟩⟩ := z0
      simp only at hz
      subst hz
      rfl
    have hnr := lKind_script_zero hash s1.nrWinning s1.lastTicketId (LCore.lift default z0) []
    rw [← hx] at hnr
    unfold us2_redraws
    simp only [lCount]
    have h0 : (lKind hash s1.nrWinning s1.lastTicketId (LCore.lift default z0)).redraws = 0 := by
      cases hq : lKind hash s1.nrWinning s1.lastTicketId (LCore.lift default z0) with
      | redraw => exact absurd hq hnr
      | stop => rfl
      | skip => rfl
      | ok => rfl
    rw [h0]
    split <;> omega

end LP
