import LP.Proofs.ZeroAllocNG2
/-
  LP.Proofs.ZeroAllocNG3 — zero-size allocations in `Variant.nftGuar`, part 3: the bodies of
  `confirm`, `blacklist` (blacklisting loop, guarantee hook, NFT-fee hook), `claim` and `filter` on
  the erased state.
-/
namespace LP
open LP.FY

/-! ### confirm -/

theorem zc_ticketsFor {s : State} {a total : Nat} (B : Nat → Option Batch) (K C : Nat → Bool)
    (U : Nat → Option UTS) (h : ticketsFor s a = .ok total) :
    ticketsFor (zc_w s (z_eraseR s.range) B K C U) a = .ok total := by
  unfold ticketsFor at h ⊢
  show (match z_eraseR s.range a with | none => _ | some r => _) = _
  cases hr : s.range a with
  | none => rw [hr] at h; rw [z_eraseR_of_none hr]; exact h
  | some r =>
    rw [hr] at h
    by_cases hle : r.first ≤ r.last
    · rw [z_eraseR_of_ne hr hle]; exact h
    · simp [csub, hle, bind, Except.bind] at h

open LP.Props.C07 in
theorem zc_exec_confirm {hash : List Nat → List Nat} {t t' : Tx} {e : Env} {n : Nat}
    (B : Nat → Option Batch) (K C : Nat → Bool) (U : Nat → Option UTS)
    (h : exec hash t e (.confirm n) = .ok t') (hK : K e.caller = true → t.s.blacklist e.caller = true) :
    exec hash (zc_wt t (z_eraseR t.s.range) B K C U) e (.confirm n)
      = .ok (zc_wt t' (z_eraseR t.s.range) B K C U) ∧
    t'.s.range = t.s.range ∧ t'.s.batch = t.s.batch ∧ t'.s.blacklist = t.s.blacklist ∧
    t'.s.claimed = t.s.claimed ∧ t'.s.flags = t.s.flags ∧ t'.s.lastTicketId = t.s.lastTicketId ∧
    t'.s.uts = t.s.uts ∧ t'.s.whitelist = t.s.whitelist := by
  simp only [exec] at h ⊢
  rw [confirmTickets_ok_iff] at h ⊢
  obtain ⟨total, ⟨a1, a2, a3, a4, a5, a6, a7⟩, rfl⟩ := h
  refine ⟨⟨total, ⟨a1, a2, a3, a4, ?_, zc_ticketsFor B K C U a6, a7⟩, rfl⟩, rfl, rfl, rfl, rfl, rfl,
    rfl, rfl, rfl⟩
  show K e.caller = false
  cases hk : K e.caller with
  | false => rfl
  | true => rw [hK hk] at a5; cases a5

/-! ### blacklist: the blacklisting loop -/

section
variable {R : Nat → Option Range} {B : Nat → Option Batch} {K C : Nat → Bool} {U : Nat → Option UTS}

theorem zc_refund (t : Tx) (e : Env) (a n : Nat) :
    (zc_wt t R B K C U).refund e a n = mapR (zc_wt · R B K C U) (t.refund e a n) := by
  unfold Tx.refund
  by_cases hn : n = 0
  · rw [if_pos hn, if_pos hn]; rfl
  · rw [if_neg hn, if_neg hn]
    simp only [mapR_bind]
    refine bind_eq_bind_of_mapR (zc_wt · R B K C U) ?_ ?_
    · rhs_exact zc_send _ _ _
    · intro t1; rfl

end

theorem zc_refund_frame {t t1 : Tx} {e : Env} {a n : Nat} (h : t.refund e a n = .ok t1) :
    t1.s.range = t.s.range ∧ t1.s.confirmed = t.s.confirmed ∧ t1.s.blacklist = t.s.blacklist ∧
    t1.s.whitelist = t.s.whitelist ∧ t1.s.payers = t.s.payers ∧ t1.s.uts = t.s.uts ∧
    t1.s.variant = t.s.variant := by
  rw [refund_ok_iff] at h
  rw [h.2, refundResult_state]
  exact ⟨rfl, rfl, rfl, rfl, rfl, rfl, rfl⟩

/-- what the blacklisting loop leaves alone -/
theorem zc_blacklistMany_frame (e : Env) : ∀ (l : List Nat) {t t' : Tx}, blacklistMany e l t = .ok t' →
    t'.s.range = t.s.range ∧ t'.s.whitelist = t.s.whitelist ∧ t'.s.payers = t.s.payers ∧
    t'.s.uts = t.s.uts ∧ t'.s.variant = t.s.variant
  | [], t, t', h => by
    simp only [blacklistMany, Except.ok.injEq] at h
    subst h
    exact ⟨rfl, rfl, rfl, rfl, rfl⟩
  | a :: rest, t, t', h => by
    unfold blacklistMany at h
    split at h
    · cases h
    split at h
    · cases h
    simp only at h
    cases hx : (if t.s.confirmed a > 0 then t.refund e a (t.s.confirmed a) else .ok t) with
    | error err => rw [hx] at h; cases h
    | ok t1 =>
      rw [hx] at h
      simp only at h
      have hfr : t1.s.range = t.s.range ∧ t1.s.whitelist = t.s.whitelist ∧ t1.s.payers = t.s.payers ∧
          t1.s.uts = t.s.uts ∧ t1.s.variant = t.s.variant := by
        split at hx
        · obtain ⟨f1, _, _, f4, f5, f6, f7⟩ := zc_refund_frame hx
          exact ⟨f1, f4, f5, f6, f7⟩
        · cases hx; exact ⟨rfl, rfl, rfl, rfl, rfl⟩
      obtain ⟨i1, i2, i3, i4, i5⟩ := zc_blacklistMany_frame e rest h
      refine ⟨i1.trans ?_, i2.trans ?_, i3.trans ?_, i4.trans ?_, i5.trans ?_⟩
      · show (if t.s.confirmed a > 0 then _ else t1.s).range = _
        split <;> exact hfr.1
      · show (if t.s.confirmed a > 0 then _ else t1.s).whitelist = _
        split <;> exact hfr.2.1
      · show (if t.s.confirmed a > 0 then _ else t1.s).payers = _
        split <;> exact hfr.2.2.1
      · show (if t.s.confirmed a > 0 then _ else t1.s).uts = _
        split <;> exact hfr.2.2.2.1
      · show (if t.s.confirmed a > 0 then _ else t1.s).variant = _
        split <;> exact hfr.2.2.2.2

/-- **the blacklisting loop**: on the erased state the addresses with an empty range are skipped -/
theorem zc_blacklistMany (e : Env) (R0 : Nat → Option Range) (B : Nat → Option Batch) (C : Nat → Bool)
    (U : Nat → Option UTS) :
    ∀ (l : List Nat) {t t' : Tx} (K : Nat → Bool), blacklistMany e l t = .ok t' → t.s.range = R0 →
      (∀ a, K a = true → t.s.blacklist a = true) →
      (∀ a ∈ l, z_eraseR R0 a = none → t.s.confirmed a = 0) →
      ∃ K', blacklistMany e (l.filter (fun a => (z_eraseR R0 a).isSome)) (zc_wt t (z_eraseR R0) B K C U)
          = .ok (zc_wt t' (z_eraseR R0) B K' C U) ∧
        (∀ a, K' a = true → t'.s.blacklist a = true)
  | [], t, t', K, h, _, hK, _ => by
    simp only [blacklistMany, Except.ok.injEq] at h
    subst h
    exact ⟨K, rfl, hK⟩
  | a :: rest, t, t', K, h, hR, hK, hc => by
    unfold blacklistMany at h
    by_cases hb : t.s.blacklist a = true
    · rw [if_pos hb] at h; cases h
    rw [if_neg hb] at h
    by_cases hn : (t.s.range a).isNone = true
    · rw [if_pos hn] at h; cases h
    rw [if_neg hn] at h
    simp only at h
    cases hz : z_eraseR R0 a with
    | none =>
      have hc0 : t.s.confirmed a = 0 := hc a (List.mem_cons_self ..) hz
      have hnot : ¬ (t.s.confirmed a > 0) := by omega
      simp only [hnot, if_false] at h
      obtain ⟨K', k1, k2⟩ := zc_blacklistMany e R0 B C U rest K h hR
        (fun b hb' => by
          show upd t.s.blacklist a true b = true
          by_cases hba : b = a
          · subst hba; simp
          · rw [upd_other _ _ _ _ hba]; exact hK b hb')
        (fun b hb' hz' => hc b (List.mem_cons_of_mem _ hb') hz')
      refine ⟨K', ?_, k2⟩
      rw [List.filter_cons_of_neg (by simp [hz])]
      exact k1
    | some r =>
      rw [List.filter_cons_of_pos (by simp [hz])]
      have hKa : K a = false := by
        cases hk : K a with
        | false => rfl
        | true => exact absurd (hK a hk) hb
      cases hx : (if t.s.confirmed a > 0 then t.refund e a (t.s.confirmed a) else .ok t) with
      | error err => rw [hx] at h; cases h
      | ok t1 =>
        rw [hx] at h
        simp only at h
        have hfr : t1.s.range = t.s.range ∧ t1.s.confirmed = t.s.confirmed ∧
            t1.s.blacklist = t.s.blacklist := by
          split at hx
          · obtain ⟨f1, f2, f3, _⟩ := zc_refund_frame hx
            exact ⟨f1, f2, f3⟩
          · cases hx; exact ⟨rfl, rfl, rfl⟩
        have hxz : (if (zc_wt t (z_eraseR R0) B K C U).s.confirmed a > 0
              then (zc_wt t (z_eraseR R0) B K C U).refund e a ((zc_wt t (z_eraseR R0) B K C U).s.confirmed a)
              else .ok (zc_wt t (z_eraseR R0) B K C U)) = .ok (zc_wt t1 (z_eraseR R0) B K C U) := by
          show (if t.s.confirmed a > 0 then (zc_wt t (z_eraseR R0) B K C U).refund e a (t.s.confirmed a)
                else .ok (zc_wt t (z_eraseR R0) B K C U)) = _
          split at hx
          · rename_i hpos
            rw [if_pos hpos, zc_refund, hx]; rfl
          · rename_i hpos
            rw [if_neg hpos]; cases hx; rfl
        obtain ⟨K', k1, k2⟩ := zc_blacklistMany e R0 B C U rest (upd K a true) h
          (by
            show (if t.s.confirmed a > 0 then _ else t1.s).range = R0
            split
            · exact hfr.1.trans hR
            · exact hfr.1.trans hR)
          (fun b hb' => by
            show upd (if t.s.confirmed a > 0 then _ else t1.s).blacklist a true b = true
            by_cases hba : b = a
            · subst hba; simp
            · rw [upd_other _ _ _ _ hba] at hb' ⊢
              have : (if t.s.confirmed a > 0 then
                  ({ t1.s with confirmed := upd t1.s.confirmed a 0 } : State) else t1.s).blacklist
                  = t.s.blacklist := by split <;> exact hfr.2.2
              rw [this]; exact hK b hb')
          (fun b hb' hz' => by
            have h0 := hc b (List.mem_cons_of_mem _ hb') hz'
            show (if t.s.confirmed a > 0 then
                  ({ t1.s with confirmed := upd t1.s.confirmed a 0 } : State) else t1.s).confirmed b = 0
            split
            · show upd t1.s.confirmed a 0 b = 0
              by_cases hba : b = a
              · subst hba; simp
              · rw [upd_other _ _ _ _ hba, hfr.2.1]; exact h0
            · rw [hfr.2.1]; exact h0)
        refine ⟨K', ?_, k2⟩
        unfold blacklistMany
        have g1 : ¬ ((zc_wt t (z_eraseR R0) B K C U).s.blacklist a = true) := by
          show ¬ (K a = true); rw [hKa]; simp
        have g2 : ¬ (((zc_wt t (z_eraseR R0) B K C U).s.range a).isNone = true) := by
          show ¬ ((z_eraseR R0 a).isNone = true); rw [hz]; simp
        rw [if_neg g1, if_neg g2]
        simp only
        rw [hxz]
        simp only
        refine Eq.trans ?_ k1
        congr 1
        by_cases hpos : t.s.confirmed a > 0
        · have hpos' : (zc_wt t (z_eraseR R0) B K C U).s.confirmed a > 0 := hpos
          simp only [hpos, hpos', if_true]; rfl
        · have hpos' : ¬ (zc_wt t (z_eraseR R0) B K C U).s.confirmed a > 0 := hpos
          simp only [hpos, hpos', if_false]; rfl

/-! ### blacklist: the guarantee hook -/

theorem zc_swapRemove_sub {l : List Nat} {a b : Nat} (h : b ∈ (swapRemove l a).1) : b ∈ l :=
  List.mem_of_mem_erase ((swapRemove_perm l a).mem_iff.mp h)

/-- **the v1 guarantee hook of `blacklist`**: the skipped addresses are not whitelisted; for the
    others the records agree -/
theorem zc_clearV1Many (R : Nat → Option Range) (B : Nat → Option Batch) (K C : Nat → Bool)
    (good : Nat → Bool) : ∀ (l : List Nat) {s s' : State} {rm tg rm' tg' : Nat} (U : Nat → Option UTS),
    clearV1Many l (s, rm, tg) = .ok (s', rm', tg') →
    (∀ a ∈ l, good a = false → a ∉ s.whitelist) → zc_UOK U s →
    ∃ U', clearV1Many (l.filter good) (zc_w s R B K C U, rm, tg) = .ok (zc_w s' R B K C U', rm', tg') ∧
      zc_UOK U' s' ∧ s'.range = s.range ∧ s'.batch = s.batch ∧ s'.blacklist = s.blacklist ∧
      s'.claimed = s.claimed ∧ s'.payers = s.payers ∧ s'.variant = s.variant ∧
      s'.nrWinning = s.nrWinning ∧ s'.totalGuaranteed = s.totalGuaranteed
  | [], s, s', rm, tg, rm', tg', U, h, _, hU => by
    simp only [clearV1Many, Except.ok.injEq, Prod.mk.injEq] at h
    obtain ⟨rfl, rfl, rfl⟩ := h
    exact ⟨U, rfl, hU, rfl, rfl, rfl, rfl, rfl, rfl, rfl, rfl⟩
  | u :: rest, s, s', rm, tg, rm', tg', U, h, hg, hU => by
    have hsub : ∀ b, b ∈ (swapRemove s.whitelist u).1 → b ∈ s.whitelist := fun b => zc_swapRemove_sub
    have hU1 : ∀ (X : Nat → Option UTS), (∀ a, a ≠ u → X a = s.uts a) →
        ∀ a, a ≠ u → (U a = X a ∨ (U a = none ∧ a ∉ (swapRemove s.whitelist u).1 ∧
          ∃ st, X a = some st ∧ st.c = 0 ∧ st.d = 0)) := by
      intro X hX a hau
      rw [hX a hau]
      rcases hU a with hl | ⟨u1, u2, u3⟩
      · exact Or.inl hl
      · exact Or.inr ⟨u1, fun hm => u2 (hsub a hm), u3⟩
    unfold clearV1Many at h
    simp only at h
    cases hgu : good u with
    | false =>
      have hnm : u ∉ s.whitelist := hg u (List.mem_cons_self ..) hgu
      rw [swapRemove_of_not_mem hnm] at h
      simp only [Bool.not_false, if_true] at h
      obtain ⟨U', i1, i2, i3⟩ := zc_clearV1Many R B K C good rest U h
        (fun a ha => hg a (List.mem_cons_of_mem _ ha)) hU
      refine ⟨U', ?_, i2, i3⟩
      rw [List.filter_cons_of_neg (by simp [hgu])]
      exact i1
    | true =>
      rw [List.filter_cons_of_pos (by simp [hgu])]
      unfold clearV1Many
      simp only
      show ∃ U', (if (!(swapRemove s.whitelist u).2) = true then _ else _) = _ ∧ _
      by_cases hw : (!(swapRemove s.whitelist u).2) = true
      · rw [if_pos hw] at h
        rw [if_pos hw]
        obtain ⟨U', i1, i2, i3⟩ := zc_clearV1Many R B K C good rest U h
          (fun a ha hga hm => hg a (List.mem_cons_of_mem _ ha) hga (hsub a hm))
          (by
            intro a
            rcases hU a with hl | ⟨u1, u2, u3⟩
            · exact Or.inl hl
            · exact Or.inr ⟨u1, fun hm => u2 (hsub a hm), u3⟩)
        exact ⟨U', i1, i2, i3⟩
      · rw [if_neg hw] at h
        rw [if_neg hw]
        have hmem : u ∈ s.whitelist := by
          have : (swapRemove s.whitelist u).2 = true := by
            cases hh : (swapRemove s.whitelist u).2 with
            | true => rfl
            | false => rw [hh] at hw; simp at hw
          rw [swapRemove_snd] at this
          exact of_decide_eq_true this
        have hUu : U u = s.uts u := by
          rcases hU u with hl | ⟨_, u2, _⟩
          · exact hl
          · exact absurd hmem u2
        have hUu' : (zc_w s R B K C U).uts u = s.uts u := hUu
        rw [hUu']
        cases h1 : csub tg ((s.uts u).getD {}).c "guaranteed_tickets_init.rs:95 total_guaranteed -= staking" with
        | error err => rw [h1] at h; cases h
        | ok tg1 =>
          rw [h1] at h
          simp only at h ⊢
          cases h2 : csub tg1 ((s.uts u).getD {}).d "guaranteed_tickets_init.rs:96 total_guaranteed -= migration" with
          | error err => rw [h2] at h; cases h
          | ok tg2 =>
            rw [h2] at h
            simp only at h ⊢
            obtain ⟨U', i1, i2, i3⟩ := zc_clearV1Many R B K C good rest (upd U u none) h
              (fun a ha hga hm => hg a (List.mem_cons_of_mem _ ha) hga (hsub a hm))
              (by
                intro a
                by_cases hau : a = u
                · subst hau
                  left
                  show upd U a none a = upd s.uts a none a
                  rw [upd_same, upd_same]
                · show upd U u none a = upd s.uts u none a ∨ (upd U u none a = none ∧ _ ∧
                    ∃ st, upd s.uts u none a = some st ∧ _)
                  rw [upd_other _ _ _ _ hau]
                  exact hU1 (upd s.uts u none) (fun b hb => upd_other _ _ _ _ hb) a hau)
            exact ⟨U', i1, i2, i3⟩


/-! ### blacklist: the NFT-fee hook -/

theorem zc_refundNftMany (R : Nat → Option Range) (B : Nat → Option Batch) (K C : Nat → Bool)
    (U : Nat → Option UTS) (good : Nat → Bool) : ∀ (l : List Nat) {t t' : Tx},
    refundNftMany l t = .ok t' → (∀ a ∈ l, good a = false → a ∉ t.s.payers) →
    refundNftMany (l.filter good) (zc_wt t R B K C U) = .ok (zc_wt t' R B K C U) ∧
      t'.s.range = t.s.range ∧ t'.s.batch = t.s.batch ∧ t'.s.blacklist = t.s.blacklist ∧
      t'.s.claimed = t.s.claimed ∧ t'.s.uts = t.s.uts ∧ t'.s.whitelist = t.s.whitelist ∧
      t'.s.variant = t.s.variant
  | [], t, t', h, _ => by
    simp only [refundNftMany, Except.ok.injEq] at h
    subst h
    exact ⟨rfl, rfl, rfl, rfl, rfl, rfl, rfl, rfl⟩
  | u :: rest, t, t', h, hg => by
    unfold refundNftMany at h
    simp only at h
    cases hgu : good u with
    | false =>
      have hnm : u ∉ t.s.payers := hg u (List.mem_cons_self ..) hgu
      rw [swapRemove_of_not_mem hnm] at h
      simp only [Bool.false_eq_true, if_false] at h
      rw [List.filter_cons_of_neg (by simp [hgu])]
      exact zc_refundNftMany R B K C U good rest h (fun a ha => hg a (List.mem_cons_of_mem _ ha))
    | true =>
      rw [List.filter_cons_of_pos (by simp [hgu])]
      unfold refundNftMany
      simp only
      show (if (swapRemove t.s.payers u).2 = true then _ else _) = _ ∧ _
      by_cases hd : (swapRemove t.s.payers u).2 = true
      · rw [if_pos hd] at h
        rw [if_pos hd]
        cases hx : (t.setS { t.s with payers := (swapRemove t.s.payers u).1 }).send u t.s.nftCost with
        | error err => rw [hx] at h; cases h
        | ok t1 =>
          rw [hx] at h
          simp only at h
          have hx' : ((zc_wt t R B K C U).setS { (zc_wt t R B K C U).s with
              payers := (swapRemove (zc_wt t R B K C U).s.payers u).1 }).send u (zc_wt t R B K C U).s.nftCost
              = .ok (zc_wt t1 R B K C U) := by
            have := zc_send (R := R) (B := B) (K := K) (C := C) (U := U)
              (t.setS { t.s with payers := (swapRemove t.s.payers u).1 }) u t.s.nftCost
            rw [hx] at this
            exact this
          rw [hx']
          simp only
          rw [send_ok_iff] at hx
          obtain ⟨_, rfl⟩ := hx
          obtain ⟨i1, i2⟩ := zc_refundNftMany R B K C U good rest h
            (fun a ha hga hm => hg a (List.mem_cons_of_mem _ ha) hga (zc_swapRemove_sub hm))
          exact ⟨i1, i2⟩
      · rw [if_neg hd] at h
        rw [if_neg hd]
        exact zc_refundNftMany R B K C U good rest h (fun a ha => hg a (List.mem_cons_of_mem _ ha))

/-! ### blacklist: the body -/

theorem zc_exec_blacklist {hash : List Nat → List Nat} {t t' : Tx} {e : Env} {l : List Nat}
    (B : Nat → Option Batch) (K C : Nat → Bool) (U : Nat → Option UTS) (hv : t.s.variant = .nftGuar)
    (h : exec hash t e (.blacklist l) = .ok t')
    (hK : ∀ a, K a = true → t.s.blacklist a = true)
    (hc : ∀ a ∈ l, z_eraseR t.s.range a = none →
      t.s.confirmed a = 0 ∧ a ∉ t.s.whitelist ∧ a ∉ t.s.payers)
    (hU : zc_UOK U t.s) :
    ∃ K' U', exec hash (zc_wt t (z_eraseR t.s.range) B K C U) e
          (.blacklist (l.filter (fun a => (z_eraseR t.s.range a).isSome)))
        = .ok (zc_wt t' (z_eraseR t.s.range) B K' C U') ∧
      (∀ a, K' a = true → t'.s.blacklist a = true) ∧ zc_UOK U' t'.s ∧
      t'.s.range = t.s.range ∧ t'.s.batch = t.s.batch ∧ t'.s.claimed = t.s.claimed := by
  obtain ⟨_, f1, f2, f3, _⟩ := ng_flags hv
  simp only [exec, bind_ok_iff] at h
  obtain ⟨t1, h1, h⟩ := h
  have hvar1 : t1.s.variant = t.s.variant := congrArg Terms.variant (addUsersToBlacklist_terms h1)
  simp only [hvar1, f2, f3, Bool.false_eq_true, if_false, if_true, bind_ok_iff, pure_bind] at h
  obtain ⟨s2, h2, h3⟩ := h
  have h1' := h1
  unfold addUsersToBlacklist at h1
  simp only [bind_ok_iff, req_ok_iff, exists_const] at h1
  obtain ⟨p1, p2, p3, p4⟩ := h1
  obtain ⟨g1, g2, g3, g4, _⟩ := zc_blacklistMany_frame e l p4
  obtain ⟨K', k1, k2⟩ := zc_blacklistMany e t.s.range B C U l K p4 rfl hK (fun a ha hz => (hc a ha hz).1)
  unfold clearGuaranteedV1 at h2
  simp only [bind_ok_iff, pure_ok_iff, Prod.exists] at h2
  obtain ⟨s2a, rm, tg, h2, rfl⟩ := h2
  have hgood : ∀ a ∈ l, (z_eraseR t.s.range a).isSome = false → a ∉ t1.s.whitelist := by
    intro a ha hz
    rw [g2]
    exact (hc a ha (by cases hq : z_eraseR t.s.range a <;> simp_all)).2.1
  have hU1 : zc_UOK U t1.s := by
    intro a
    rw [g4, g2]; exact hU a
  obtain ⟨U', c1, c2, c3, c4, c5, c6, c7, c8, _⟩ := zc_clearV1Many (z_eraseR t.s.range) B K' C
    (fun a => (z_eraseR t.s.range a).isSome) l U h2 hgood hU1
  have hvar2 : (t1.setS { s2a with nrWinning := s2a.nrWinning + rm, totalGuaranteed := tg }).s.variant
      = .nftGuar := by
    show s2a.variant = _
    rw [c8, hvar1, hv]
  have hvar2' : (t1.setS { s2a with nrWinning := s2a.nrWinning + rm, totalGuaranteed := tg }).s.variant
      = t.s.variant := hvar2.trans hv.symm
  simp only [hvar2', f1, if_true, bind_ok_iff] at h3
  obtain ⟨t3, h3, h4⟩ := h3
  have hgood3 : ∀ a ∈ l, (z_eraseR t.s.range a).isSome = false →
      a ∉ (t1.setS { s2a with nrWinning := s2a.nrWinning + rm, totalGuaranteed := tg }).s.payers := by
    intro a ha hz
    show a ∉ s2a.payers
    rw [c7, g3]
    exact (hc a ha (by cases hq : z_eraseR t.s.range a <;> simp_all)).2.2
  obtain ⟨r1, r2, r3, r4, r5, r6, r7, r8⟩ := zc_refundNftMany (z_eraseR t.s.range) B K' C U'
    (fun a => (z_eraseR t.s.range a).isSome) l h3 hgood3
  have hvar3 : t3.s.variant = .nftGuar := by rw [r8]; exact hvar2
  have hvar3' : t3.s.variant = t.s.variant := hvar3.trans hv.symm
  simp only [hvar3', f2, Bool.false_eq_true, if_false, pure_ok_iff] at h4
  subst h4
  refine ⟨K', U', ?_, ?_, ?_, ?_, ?_, ?_⟩
  · have hz1 : addUsersToBlacklist (zc_wt t (z_eraseR t.s.range) B K C U) e
        (l.filter (fun a => (z_eraseR t.s.range a).isSome)) = .ok (zc_wt t1 (z_eraseR t.s.range) B K' C U) := by
      unfold addUsersToBlacklist
      simp only [bind_ok_iff, req_ok_iff, exists_const]
      exact ⟨p1, p2, p3, k1⟩
    have hz2 : clearGuaranteedV1 (zc_wt t1 (z_eraseR t.s.range) B K' C U).s
        (l.filter (fun a => (z_eraseR t.s.range a).isSome))
        = .ok (zc_w { s2a with nrWinning := s2a.nrWinning + rm, totalGuaranteed := tg }
            (z_eraseR t.s.range) B K' C U') := by
      unfold clearGuaranteedV1
      simp only [bind_ok_iff, pure_ok_iff, Prod.exists]
      refine ⟨zc_w s2a (z_eraseR t.s.range) B K' C U', rm, tg, ?_, rfl⟩
      have : (zc_wt t1 (z_eraseR t.s.range) B K' C U).s.totalGuaranteed = t1.s.totalGuaranteed := rfl
      rw [this]
      exact c1
    have hvz1 : (zc_wt t1 (z_eraseR t.s.range) B K' C U).s.variant = t.s.variant := hvar1
    simp only [exec, hz1, bind, Except.bind, hvz1, f2, f3, f1, Bool.false_eq_true, if_false, if_true,
      hz2, pure, Except.pure]
    have hvz2 : ((zc_wt t1 (z_eraseR t.s.range) B K' C U).setS
        (zc_w { s2a with nrWinning := s2a.nrWinning + rm, totalGuaranteed := tg }
          (z_eraseR t.s.range) B K' C U')).s.variant = t.s.variant := hvar2'
    simp only [hvz2, f1, if_true]
    have r1' : refundNftMany (l.filter (fun a => (z_eraseR t.s.range a).isSome))
        ((zc_wt t1 (z_eraseR t.s.range) B K' C U).setS
          (zc_w { s2a with nrWinning := s2a.nrWinning + rm, totalGuaranteed := tg }
            (z_eraseR t.s.range) B K' C U')) = .ok (zc_wt t3 (z_eraseR t.s.range) B K' C U') := r1
    rw [r1']
    have hvz3 : (zc_wt t3 (z_eraseR t.s.range) B K' C U').s.variant = t.s.variant := hvar3'
    simp only [hvz3, f2, Bool.false_eq_true, if_false]
  · intro a ha
    rw [r4]
    show s2a.blacklist a = true
    rw [c5]; exact k2 a ha
  · intro a
    rw [r6, r7]
    exact c2 a
  · rw [r2]; show s2a.range = _; rw [c3, g1]
  · rw [r3]; show s2a.batch = _; rw [c4]
    exact tk_batch (blacklistMany_tk e l p4)
  · rw [r5]; show s2a.claimed = _; rw [c6]
    exact blacklistMany_claimed e l p4

end LP
