import LP.Proofs.ReachSelect
/-
  LP.Proofs.ReachClaim — preservation of `WF` by a participant's settlement (`claim`) and by the
  owner's withdrawal (`claimPayment`), in the base and the locked-tokens variant.
  The small characterisations of `settle` / `clearRange` used here are local (`rb_` prefix).
-/
namespace LP
open LP.FY

/-- storage after the settlement of participant `a` owning range `r` -/
def settled (s : State) (a : Nat) (r : Range) : State :=
  { s with status := (clearRange s.status s.posToId r.first (rangeLen r)).1,
           posToId := (clearRange s.status s.posToId r.first (rangeLen r)).2.1,
           confirmed := upd s.confirmed a 0,
           range := upd s.range a none,
           batch := upd s.batch r.first none,
           nrWinning := s.nrWinning - (clearRange s.status s.posToId r.first (rangeLen r)).2.2,
           claimed := upd s.claimed a true }

theorem rb_csub_ok {a b c : Nat} {m : String} (h : csub a b m = .ok c) : b ≤ a ∧ c = a - b := by
  unfold csub at h
  split at h
  · injection h with h; exact ⟨by assumption, h.symm⟩
  · cases h

theorem rb_settle_inv {s s1 : State} {e : Env} {redeem refund : Nat}
    (h : settle s e = .ok (s1, redeem, refund)) :
    s.stage e = .claim ∧ ∃ r, s.range e.caller = some r ∧
      redeem = (clearRange s.status s.posToId r.first (rangeLen r)).2.2 ∧
      redeem ≤ s.confirmed e.caller ∧ refund = s.confirmed e.caller - redeem ∧
      s1 = settled s e.caller r := by
  unfold settle at h
  simp only [bind_ok_iff, req_ok_iff, exists_const, requireStage] at h
  obtain ⟨hst, hcl, h⟩ := h
  split at h
  · cases h
  · rename_i r hr
    refine ⟨by simpa using hst, r, hr, ?_⟩
    by_cases hz : (clearRange s.status s.posToId r.first (rangeLen r)).2.2 > 0
    · rw [if_pos hz] at h
      simp only [bind_ok_iff, pure_ok_iff, Prod.mk.injEq] at h
      obtain ⟨nrw, h1, rf, h2, h3, h4, h5⟩ := h
      obtain ⟨_, rfl⟩ := rb_csub_ok h1
      obtain ⟨hle, rfl⟩ := rb_csub_ok h2
      subst h4
      exact ⟨rfl, hle, h5.symm, h3.symm⟩
    · rw [if_neg hz] at h
      simp only [bind_ok_iff, pure_ok_iff, Prod.mk.injEq] at h
      obtain ⟨nrw, h1, rf, h2, h3, h4, h5⟩ := h
      subst h1
      obtain ⟨hle, rfl⟩ := rb_csub_ok h2
      subst h4
      have hz' : (clearRange s.status s.posToId r.first (rangeLen r)).2.2 = 0 := by omega
      refine ⟨rfl, hle, h5.symm, ?_⟩
      rw [← h3]
      unfold settled
      rw [hz']
      rfl

/-! ### transfers only lower balances -/

theorem rb_sub_le (b : Bal) (t : Token) (n a : Nat) (k : Token) (m : Nat) : (b.sub t n a) k m ≤ b k m := by
  unfold Bal.sub; split <;> omega

/-- `t'` differs from `t` only in balances, which did not grow and changed only at token `tok` -/
def BalOnly (tok : Token) (t t' : Tx) : Prop :=
  ∃ b : Bal, t'.s = { t.s with bal := b } ∧ (∀ k n, b k n ≤ t.s.bal k n) ∧
    (∀ k n, k ≠ tok → b k n = t.s.bal k n)

theorem BalOnly.refl (tok : Token) (t : Tx) : BalOnly tok t t :=
  ⟨t.s.bal, rfl, fun _ _ => Nat.le_refl _, fun _ _ _ => rfl⟩

theorem BalOnly.trans {tok : Token} {t t' t'' : Tx} (h1 : BalOnly tok t t') (h2 : BalOnly tok t' t'') :
    BalOnly tok t t'' := by
  obtain ⟨b1, e1, l1, o1⟩ := h1
  obtain ⟨b2, e2, l2, o2⟩ := h2
  have hb : t'.s.bal = b1 := by rw [e1]
  refine ⟨b2, by rw [e2, e1], ?_, ?_⟩
  · intro k n; have := l2 k n; rw [hb] at this; exact Nat.le_trans this (l1 k n)
  · intro k n hk; rw [o2 k n hk, hb, o1 k n hk]

theorem BalOnly.lpTok {tok : Token} {t t' : Tx} (h : BalOnly tok t t') : t'.s.lpTok = t.s.lpTok := by
  obtain ⟨b, e, _⟩ := h; rw [e]

theorem BalOnly.send {t t' : Tx} {a : Nat} {p : Pay} (h : t.send a p = .ok t') : BalOnly p.tok t t' := by
  obtain ⟨hs, _, _⟩ := Tx.send_s h
  refine ⟨_, hs, fun k n => rb_sub_le _ _ _ _ _ _, ?_⟩
  intro k n hk
  simp [Bal.sub, hk]

theorem rb_sendLocked {t t' : Tx} {e : Env} {d a : Nat} (h : t.sendLocked e d a = .ok t') :
    BalOnly (.esdt t.s.lpTok) t t' := by
  unfold Tx.sendLocked at h
  dsimp only at h
  generalize (if e.epoch < t.s.unlockEpoch then lockSplit a t.s.lockPct else 0) = la at h
  split at h
  · simp only [bind_ok_iff, pure_ok_iff] at h
    obtain ⟨t0, h0, t1, rfl, h2⟩ := h
    have e1 : BalOnly (.esdt t.s.lpTok) t t0 := BalOnly.send h0
    split at h2
    · have e2 := BalOnly.send h2
      have hl : t0.s.lpTok = t.s.lpTok := e1.lpTok
      simp only [hl] at e2
      exact e1.trans e2
    · cases h2; exact e1
  · simp only [bind_ok_iff, pure_ok_iff] at h
    obtain ⟨t1, rfl, h2⟩ := h
    split at h2
    · exact BalOnly.send h2
    · cases h2; exact BalOnly.refl _ _

theorem rb_sendLp {t t' : Tx} {e : Env} {a n : Nat} (h : t.sendLaunchpadTokens e a n = .ok t') :
    BalOnly (.esdt t.s.lpTok) t t' := by
  unfold Tx.sendLaunchpadTokens at h
  split at h
  · cases h; exact BalOnly.refl _ _
  · dsimp only at h
    split at h
    · exact rb_sendLocked h
    · exact BalOnly.send h

/-! ### the claim endpoint -/

theorem rb_plain_flags {v : Variant} (hv : Plain v) :
    v.vested = false ∧ v.hasNft = false ∧ v.isV2 = false ∧ v.v1Alloc = false := by
  rcases hv with rfl | rfl <;> exact ⟨rfl, rfl, rfl, rfl⟩

theorem rb_claim_state {hash : List Nat → List Nat} {s : State} {e : Env} {t : Tx}
    (hv : Plain s.variant) (hne : s.payTok ≠ .esdt s.lpTok)
    (hx : exec hash (rbTx s e) e .claim = .ok t) :
    s.stage e = .claim ∧ ∃ r B, s.range e.caller = some r ∧
      (clearRange s.status s.posToId r.first (rangeLen r)).2.2 ≤ s.confirmed e.caller ∧
      t.s = { settled s e.caller r with bal := B } ∧ (∀ k n, B k n ≤ s.bal k n) ∧
      B s.payTok 0 = s.bal s.payTok 0 -
        s.price * (s.confirmed e.caller - (clearRange s.status s.posToId r.first (rangeLen r)).2.2) := by
  obtain ⟨hv1, hv2, _, _⟩ := rb_plain_flags hv
  simp only [exec, rbTx_s, hv1, Bool.false_eq_true, if_false, bind_ok_iff, Prod.exists] at hx
  obtain ⟨s1, redeem, refund, hset, t1, href, t2, hlp, hfin⟩ := hx
  obtain ⟨hst, r, hr, hred, hle, hrf, hs1⟩ := rb_settle_inv hset
  subst hred hrf
  refine ⟨hst, r, ?_⟩
  -- the refund
  have h1 : ∃ B1, t1.s = { s1 with bal := B1 } ∧ (∀ k n, B1 k n ≤ s1.bal k n) ∧
      B1 s1.payTok 0 = s1.bal s1.payTok 0 -
        s1.price * (s.confirmed e.caller - (clearRange s.status s.posToId r.first (rangeLen r)).2.2) ∧
      (∀ k n, k ≠ s1.payTok → B1 k n = s1.bal k n) := by
    rcases Nat.eq_zero_or_pos
      (s.confirmed e.caller - (clearRange s.status s.posToId r.first (rangeLen r)).2.2) with h0 | hpos
    · rw [h0] at href
      rw [Tx.refund_zero href, h0]
      exact ⟨s1.bal, rfl, fun _ _ => Nat.le_refl _, by simp, fun _ _ _ => rfl⟩
    · obtain ⟨hs, _, _, _⟩ := Tx.refund_pos href hpos
      simp only [Tx.setS_s] at hs
      refine ⟨_, hs, fun k n => rb_sub_le _ _ _ _ _ _, by simp [Bal.sub], ?_⟩
      intro k n hk; simp [Bal.sub, hk]
  obtain ⟨B1, e1, l1, p1, o1⟩ := h1
  -- the launchpad tokens
  obtain ⟨B2, e2, l2, o2⟩ := rb_sendLp hlp
  have hvar2 : t2.s.variant = s.variant := by rw [e2, e1, hs1]; rfl
  rw [hvar2, hv2] at hfin
  simp only [Bool.false_eq_true, if_false, pure_ok_iff] at hfin
  subst hfin
  have hb1 : t1.s.bal = B1 := by rw [e1]
  have hlp1 : t1.s.lpTok = s.lpTok := by rw [e1, hs1]; rfl
  have hpay1 : s1.payTok = s.payTok := by rw [hs1]; rfl
  have hprice1 : s1.price = s.price := by rw [hs1]; rfl
  have hbal1 : s1.bal = s.bal := by rw [hs1]; rfl
  refine ⟨B2, hr, hle, ?_, ?_, ?_⟩
  · rw [e2, e1, hs1]
  · intro k n
    have a1 := l2 k n
    rw [hb1] at a1
    have a2 := l1 k n
    rw [hbal1] at a2
    omega
  · rw [o2 s.payTok 0 (by rw [hlp1]; exact hne), hb1]
    rw [hpay1, hprice1, hbal1] at p1
    exact p1

/-- the projection after the settlement of `a` (owning range `r`) -/
def claimCore (c : Core) (a : Nat) (r : Range) (bt : Nat → Option Batch) (pb : Nat) : Core :=
  { c with status := (clearRange c.status c.posToId r.first (rangeLen r)).1,
           posToId := (clearRange c.status c.posToId r.first (rangeLen r)).2.1,
           confirmed := upd c.confirmed a 0, range := upd c.range a none, batch := bt,
           nrWinning := c.nrWinning - (clearRange c.status c.posToId r.first (rangeLen r)).2.2,
           payBal := pb }

/-- effect of a settlement on the post-selection phase -/
theorem rb_claim_phase {c : Core} (hD : PhD c) {a : Nat} {r : Range} (hr : c.range a = some r)
    {bt : Nat → Option Batch} {pb : Nat}
    (hpb : pb = c.payBal - c.price *
      (c.confirmed a - (clearRange c.status c.posToId r.first (rangeLen r)).2.2)) :
    PhD (claimCore c a r bt pb) := by
  obtain ⟨hsp1, _, hsp3⟩ := rb_clearRange_spec c.status c.posToId r.first (rangeLen r)
  obtain ⟨hfl, hlen⟩ := hD.rngOk a r hr
  have hrl : rangeLen r = c.confirmed a := by unfold rangeLen; omega
  have hca : c.confirmed a ≠ 0 := by omega
  obtain ⟨L, hnd, hsupp, hpost, hwin⟩ := hD.led
  have haL : a ∈ L := hsupp a hca
  have hwa : winOf c.range c.status a = (clearRange c.status c.posToId r.first (rangeLen r)).2.2 := by
    simp only [winOf, hr, hsp3]
  -- flags of the other participants are untouched
  have hother : ∀ b, b ≠ a →
      winOf (upd c.range a none) (clearRange c.status c.posToId r.first (rangeLen r)).1 b
        = winOf c.range c.status b := by
    intro b hba
    simp only [winOf, upd_other _ _ _ _ hba]
    cases hrb : c.range b with
    | none => rfl
    | some rb =>
      simp only []
      apply rb_countWinning_congr
      intro t h1 h2
      rw [hsp1]
      obtain ⟨hfb, _⟩ := hD.rngOk b rb hrb
      have hd := hD.disj a b r rb (Ne.symm hba) hr hrb
      have : rangeLen rb = rb.last + 1 - rb.first := rfl
      have : rangeLen r = r.last + 1 - r.first := rfl
      rw [if_neg (by omega)]
  have hwself : winOf (upd c.range a none) (clearRange c.status c.posToId r.first (rangeLen r)).1 a = 0 := by
    simp [winOf]
  refine ⟨hD.started, hD.filtered, hD.selected, hD.op, ?_, ?_, ?_, L, hnd, ?_, ?_, ?_⟩
  · intro b rb hrb
    have hba : b ≠ a := by
      intro hh; subst hh
      have : upd c.range b none b = some rb := hrb
      rw [upd_same] at this; cases this
    have hrb' : c.range b = some rb := by
      have : upd c.range a none b = some rb := hrb
      rwa [upd_other _ _ _ _ hba] at this
    show rb.first ≤ rb.last ∧ rb.last + 1 = rb.first + upd c.confirmed a 0 b
    rw [upd_other _ _ _ _ hba]
    exact hD.rngOk b rb hrb'
  · intro b hrb
    show upd c.confirmed a 0 b = 0
    by_cases hba : b = a
    · subst hba; simp
    · rw [upd_other _ _ _ _ hba]
      have : upd c.range a none b = none := hrb
      rw [upd_other _ _ _ _ hba] at this
      exact hD.rngNone b this
  · intro b1 b2 r1 r2 hne h1 h2
    have hb1 : b1 ≠ a := by
      intro hh; subst hh
      have : upd c.range b1 none b1 = some r1 := h1
      rw [upd_same] at this; cases this
    have hb2 : b2 ≠ a := by
      intro hh; subst hh
      have : upd c.range b2 none b2 = some r2 := h2
      rw [upd_same] at this; cases this
    have h1' : upd c.range a none b1 = some r1 := h1
    have h2' : upd c.range a none b2 = some r2 := h2
    rw [upd_other _ _ _ _ hb1] at h1'
    rw [upd_other _ _ _ _ hb2] at h2'
    exact hD.disj b1 b2 r1 r2 hne h1' h2'
  · intro b hb
    have hb' : upd c.confirmed a 0 b ≠ 0 := hb
    by_cases hba : b = a
    · subst hba; exact haL
    · rw [upd_other _ _ _ _ hba] at hb'; exact hsupp b hb'
  · -- the ledger equation
    have hdue : ∀ b ∈ L, dueC (claimCore c a r bt pb) b = upd (dueC c) a 0 b := by
      intro b _
      by_cases hba : b = a
      · subst hba; simp [dueC, claimCore]
      · rw [upd_other _ _ _ _ hba]
        unfold dueC claimCore
        simp only [upd_other _ _ _ _ hba, hother b hba]
    have hsum := sumOver_upd_mem (dueC c) L a 0 hnd haL
    have hda : dueC c a = c.price * (c.confirmed a - (clearRange c.status c.posToId r.first (rangeLen r)).2.2) := by
      simp only [dueC, hr, hwa]
    have hpost' : c.payBal = c.claimable + sumOver (dueC c) L := hpost
    show pb = c.claimable + sumOver _ L
    rw [sumOver_congr hdue, hpb, ← hda]
    omega
  · have hw : ∀ b ∈ L, winOf (upd c.range a none) (clearRange c.status c.posToId r.first (rangeLen r)).1 b
        = upd (winOf c.range c.status) a 0 b := by
      intro b _
      by_cases hba : b = a
      · subst hba; rw [hwself]; simp
      · rw [upd_other _ _ _ _ hba]; exact hother b hba
    have hsum := sumOver_upd_mem (winOf c.range c.status) L a 0 hnd haL
    show sumOver (winOf (upd c.range a none) (clearRange c.status c.posToId r.first (rangeLen r)).1) L
      = c.nrWinning - (clearRange c.status c.posToId r.first (rangeLen r)).2.2
    rw [sumOver_congr hw, ← hwa]
    omega

theorem rb_claim {T0 : Nat} {hash : List Nat → List Nat} {s s' : State} {e : Env} {o : Out}
    {r : Nat} (h : WF T0 s r) (_hr : r ≤ e.round)
    (hs : step hash s e .claim = .ok (s', o)) : WF T0 s' e.round := by
  obtain ⟨t, hx, rfl⟩ := rb_step_np (by intro m hm; simp [endpointMeta] at hm; rw [← hm]) hs
  obtain ⟨hst, rg, B, hrg, _, hs', hBle, hBpay⟩ := rb_claim_state h.var h.tokNe hx
  obtain ⟨hsel, hc1, hc2⟩ := rb_stage_claim hst
  have hD : PhD s.core := rb_phase_D h.phase hsel
  have hD' := rb_claim_phase (c := s.core) hD (a := e.caller) (r := rg) hrg
    (bt := upd s.batch rg.first none) (pb := B s.payTok 0) hBpay
  rw [hs']
  refine ⟨h.var, h.pricePos, h.tokNe, h.add, ?_, ?_, ?_, Or.inr (Or.inr hD')⟩
  · intro k h1 h2
    have := hBle k 0
    have h0 := h.balOther k h1 h2
    show B k 0 = 0
    omega
  · intro hlt; exfalso; have : e.round < s.cfg.conf := hlt; omega
  · intro _; exact ⟨hc1, hc2⟩

/-! ### the owner's withdrawal -/

theorem rb_claimPaymentCommon_frame {t t' : Tx} {e : Env} (h : claimPaymentCommon t e = .ok t') :
    t.s.stage e = .claim ∧ ∃ B cp, t'.s = { t.s with bal := B, claimablePayment := cp } ∧
      ∀ k n, B k n ≤ t.s.bal k n := by
  unfold claimPaymentCommon at h
  simp only [bind_ok_iff, requireStage, req_ok_iff, exists_const] at h
  obtain ⟨hst, h⟩ := h
  refine ⟨by simpa using hst, ?_⟩
  have k1 : ∀ t1 : Tx, (if t.s.claimablePayment > 0 then
        (t.setS { t.s with claimablePayment := 0 }).send e.caller ⟨t.s.payTok, 0, t.s.claimablePayment⟩
      else pure t) = .ok t1 →
      ∃ B cp, t1.s = { t.s with bal := B, claimablePayment := cp } ∧ ∀ k n, B k n ≤ t.s.bal k n := by
    intro t1 h1
    split at h1
    · obtain ⟨hs1, _, _⟩ := Tx.send_s h1
      exact ⟨_, _, hs1, fun k n => rb_sub_le _ _ _ _ _ _⟩
    · simp only [pure_ok_iff] at h1
      subst h1
      exact ⟨_, _, rfl, fun _ _ => Nat.le_refl _⟩
  have k2 : ∀ t1 : Tx, (∃ B cp, t1.s = { t.s with bal := B, claimablePayment := cp } ∧
        ∀ k n, B k n ≤ t.s.bal k n) → ∀ extra : Nat,
      (if extra > 0 then t1.send e.caller ⟨.esdt t1.s.lpTok, 0, extra⟩ else pure t1) = .ok t' →
      ∃ B cp, t'.s = { t.s with bal := B, claimablePayment := cp } ∧ ∀ k n, B k n ≤ t.s.bal k n := by
    intro t1 ⟨B1, cp1, e1, l1⟩ extra h2
    split at h2
    · obtain ⟨hs2, _, _⟩ := Tx.send_s h2
      refine ⟨B1.sub (.esdt t.s.lpTok) 0 extra, cp1, ?_, ?_⟩
      · rw [hs2, e1]
      · intro k n
        exact Nat.le_trans (rb_sub_le _ _ _ _ _ _) (l1 k n)
    · simp only [pure_ok_iff] at h2
      subst h2
      exact ⟨B1, cp1, e1, l1⟩
  by_cases hpos : t.s.claimablePayment > 0
  · simp only [hpos, ↓reduceIte, bind_ok_iff] at h
    obtain ⟨t1, h1, extra, _, h2⟩ := h
    exact k2 t1 (k1 t1 (by rw [if_pos hpos]; exact h1)) extra h2
  · simp only [hpos, ↓reduceIte, pure_bind, bind_ok_iff] at h
    obtain ⟨extra, _, h2⟩ := h
    exact k2 t ⟨_, _, rfl, fun _ _ => Nat.le_refl _⟩ extra h2

theorem rb_claimPayment {T0 : Nat} {hash : List Nat → List Nat} {s s' : State} {e : Env} {o : Out}
    {r : Nat} (h : WF T0 s r) (_hr : r ≤ e.round)
    (hs : step hash s e .claimPayment = .ok (s', o)) : WF T0 s' e.round := by
  obtain ⟨t, hx, rfl⟩ := rb_step_np (by intro m hm; simp [endpointMeta] at hm; rw [← hm]) hs
  obtain ⟨hv1, hv2, _, _⟩ := rb_plain_flags h.var
  simp only [exec, rbTx_s, hv1, Bool.false_eq_true, if_false, bind_ok_iff] at hx
  obtain ⟨t1, h1, hfin⟩ := hx
  obtain ⟨hst, B, cp, hs1, hBle⟩ := rb_claimPaymentCommon_frame h1
  simp only [rbTx_s] at hst hs1 hBle
  have hvar : t1.s.variant = s.variant := by rw [hs1]
  rw [hvar, hv2] at hfin
  simp only [Bool.false_eq_true, if_false, pure_ok_iff] at hfin
  subst hfin
  obtain ⟨hsel, hc1, hc2⟩ := rb_stage_claim hst
  have hD : PhD s.core := rb_phase_D h.phase hsel
  obtain ⟨L, hnd, hsupp, hpost, hwin⟩ := hD.led
  have hpost0 : PayEqPost (rbTx s e).s L := (rb_PayPost_iff s L).mpr hpost
  obtain ⟨hpost1, _, _, _⟩ :=
    LP.Props.C01.claimPaymentCommon_keeps_post (rbTx s e) t1 e L h.tokNe h1 hpost0
  rw [hs1] at hpost1
  rw [hs1]
  refine ⟨h.var, h.pricePos, h.tokNe, h.add, ?_, ?_, ?_, Or.inr (Or.inr ?_)⟩
  · intro k h1 h2
    have := hBle k 0
    have h0 := h.balOther k h1 h2
    show B k 0 = 0
    omega
  · intro hlt; exfalso; have : e.round < s.cfg.conf := hlt; omega
  · intro _; exact ⟨hc1, hc2⟩
  · exact ⟨hD.started, hD.filtered, hD.selected, hD.op, hD.rngOk, hD.rngNone, hD.disj,
      L, hnd, hsupp, (rb_PayPost_iff _ L).mp hpost1, hwin⟩

end LP
