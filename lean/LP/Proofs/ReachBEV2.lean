import LP.Proofs.ReachBEPlain
import LP.Proofs.ReachV2Base
/-
  LP.Proofs.ReachBEV2 — `Variant.guarV2` forms a `be_Family` (reachable states
  `Reach hash .guarV2`).  On top of `WF2` one more inductive fact is needed, because `claim` is also
  the endpoint that releases vested tokens to a participant who has already settled:
  `be_NC s` — a blacklisted participant has never settled (`be_NC_reach_v2`).
-/
namespace LP
open LP.Props LP.Events LP.FY

/-- a blacklisted participant has never settled -/
def be_NC (s : State) : Prop := ∀ a, s.blacklist a = true → s.claimed a = false

theorem be_Tix_of_WF2 {T0 : Nat} {s : State} {r : Nat} (wf : WF2 T0 s r) : be_Tix s.core := by
  rcases wf.phase with ⟨_, _, _, h4⟩ | hE | hF
  · exact be_Tix_of_Phase h4
  · apply be_Tix_of_alloc hE.filtered _ hE.alloc
    intro f rm hop
    obtain ⟨lo, off, add, _, ⟨h1, _⟩ | ⟨rng, h1⟩⟩ := hE.dist
    · have h1' : s.op = .none := h1
      have hop' : s.op = .filter f rm := hop
      rw [h1'] at hop'; cases hop'
    · have h1' : s.op = _ := h1
      have hop' : s.op = .filter f rm := hop
      rw [h1'] at hop'; cases hop'
  · exact be_Tix_of_PhD hF.d

/-- before the filter completes nobody has settled -/
theorem be_fresh_WF2 {T0 : Nat} {s : State} {r : Nat} (wf : WF2 T0 s r)
    (hf : s.flags.filtered = false) : ∀ a, s.claimed a = false := by
  have ha : s.flags.additional = false := by
    rcases wf.phase with ⟨h1, _⟩ | hE | hF
    · exact h1
    · have : s.flags.filtered = true := hE.filtered
      rw [hf] at this; cases this
    · have : s.flags.filtered = true := hF.d.filtered
      rw [hf] at this; cases this
  intro a
  exact ((wf.lp.pre ha).fresh a).2.2

theorem be_stage_early_lt {s : State} {e : Env}
    (h : s.stage e = .addTickets ∨ s.stage e = .confirm) :
    e.round < s.cfg.conf ∨ e.round < s.cfg.sel := by
  rcases h with h | h
  · exact Or.inl (rb_stage_addTickets h)
  · exact Or.inr (rb_stage_confirm h).2

theorem be_NC_reach_v2 {hash : List Nat → List Nat} {s : State} {r : Nat}
    (h : Reach hash .guarV2 s r) : be_NC s := by
  induction h with
  | init a e s h =>
    intro u hu
    have := congrArg CB.blacklist (init_cb h)
    rw [show s.blacklist = fun _ => false from this] at hu
    cases hu
  | call s r e c s' o hre h1 h2 h3 h4 ih =>
    obtain ⟨a0, ha⟩ := Reach_iff.mp hre
    have wf := reach_WF2 ha
    refine be_NC_step (be_Tix_of_WF2 wf) (be_BlZero_reach hre) ih ?_ h4
    intro hc
    have hst : s.stage e = .addTickets ∨ s.stage e = .confirm :=
      C06.blacklist_only_before_selection hash s e c _
        (hc.elim Or.inl (fun x => Or.inr (Or.inl x))) h4
    have hns := v2_notStarted_of_lt wf h1 (be_stage_early_lt hst)
    have hnf : s.flags.filtered = false := by
      obtain ⟨_, _, _, L0, hp, _⟩ := v2_phase_notStarted wf.phase hns
      exact hp.notFiltered
    exact be_fresh_WF2 wf hnf
  | wait s r r' _ _ ih => exact ih

theorem be_good_v2 {hash : List Nat → List Nat} {s : State} {r : Nat}
    (h : Reach hash .guarV2 s r) : be_Good s := by
  obtain ⟨a0, ha⟩ := Reach_iff.mp h
  have wf := reach_WF2 ha
  exact ⟨be_Tix_of_WF2 wf, be_BlZero_reach h, be_validPeriods_reach h,
    fun _ => be_NC_reach_v2 h, fun _ hf => be_fresh_WF2 wf hf⟩

theorem be_family_v2 (hash : List Nat → List Nat) :
    be_Family hash be_POK (Reach hash .guarV2) :=
  ⟨fun hs hr hp hst => .call _ _ _ _ _ _ hs hr hp.1 hp.2 hst, fun hs hr => .wait _ _ _ hs hr,
    fun hs => be_good_v2 hs⟩

end LP
