import LP.Proofs.ZeroAllocG1d
/-
  LP.Proofs.ZeroAllocG1e — zero-size allocations for `Variant.guarV1`, part 5: the distribution
  step, the vested claim and the filter on the erased state.
-/
namespace LP

/-! ### distribute -/

/-- an empty range and no range are the same to the top-up of a guarantee -/
theorem zg_processGuaranteed (status : Nat → Bool) (R : Nat → Option Range) (u g : Nat) :
    processGuaranteed status (z_eraseR R u) g = processGuaranteed status (R u) g := by
  cases hr : R u with
  | none => rw [z_eraseR_of_none hr]
  | some r =>
    by_cases hne : r.first ≤ r.last
    · rw [z_eraseR_of_ne hr hne]
    · rw [z_eraseR_of_empty hr hne]
      have hlen : rangeLen r = 0 := by unfold rangeLen; omega
      unfold processGuaranteed
      simp only [hlen, countWinning, topUp]
      by_cases hg : g > 0
      · simp [hg]
      · have : g = 0 := by omega
        subst this; simp

theorem zg_calcV1_zero (st : UTS) (conf mc : Nat) (hc : st.c = 0) (hd : st.d = 0) :
    calcV1 st conf mc = (0, 0) := by
  unfold calcV1
  rw [hc, hd]
  by_cases h1 : conf ≥ st.b <;> by_cases h2 : conf ≥ mc <;> simp [h1, h2]

/-- one iteration of the guarantee loop reads the same on the erased state -/
theorem zg_guarBody (s : State) (w : zg_O) (hv2 : s.variant.isV2 = false)
    (hR : w.R = z_eraseR s.range)
    (hU : ∀ a, w.U a = s.uts a ∨ (w.U a = none ∧ ∃ st, s.uts a = some st ∧ st.c = 0 ∧ st.d = 0))
    (x : GSt) :
    guarBody (zg_w s w) x = guarBody s x := by
  unfold guarBody
  by_cases h0 : x.usersLeft = 0
  · rw [if_pos h0, if_pos h0]
  · rw [if_neg h0, if_neg h0]
    cases hwl : x.whitelist with
    | nil => rfl
    | cons u rest =>
      simp only
      have e1 : (zg_w s w).uts u = w.U u := rfl
      have e2 : (zg_w s w).range u = z_eraseR s.range u := by show w.R u = _; rw [hR]
      have e3 : (zg_w s w).variant.isV2 = false := hv2
      rw [e1, e2]
      rcases hU u with h1 | ⟨h1, st, h2, h3, h4⟩
      · rw [h1]
        cases hs : s.uts u with
        | none => rfl
        | some st =>
          simp only [e3, hv2, Bool.false_eq_true, if_false]
          show (if (calcV1 st (s.confirmed u) s.minConfirmed).1 > 0 then _ else _) = _
          by_cases hg : (calcV1 st (s.confirmed u) s.minConfirmed).1 > 0
          · rw [if_pos hg, if_pos hg, zg_processGuaranteed]
            rfl
          · rw [if_neg hg, if_neg hg]
            rfl
      · rw [h1, h2]
        simp only [hv2, Bool.false_eq_true, if_false, zg_calcV1_zero st _ _ h3 h4]
        simp

def zg_wl (y : LSt) (w : zg_O) : LSt := { y with tx := zg_wt y.tx w }

theorem zg_leftoverBody (hash : List Nat → List Nat) (v2 : Bool) (nr last : Nat) (y : LSt) (w : zg_O) :
    leftoverBody hash v2 nr last (zg_wl y w)
      = mapR (fst1 (zg_wl · w)) (leftoverBody hash v2 nr last y) := by
  unfold leftoverBody
  simp only [zg_wl]
  by_cases h : nr + y.additional ≥ last
  · simp only [h, if_true, zg_draw]
    repeat' ite_both
    all_goals rfl
  · simp only [h, if_false, zg_draw]
    repeat' ite_both
    all_goals rfl

/-- the two loops of the distribution step commute with the overwriting -/
theorem zg_guaranteedSubstep (hash : List Nat → List Nat) (t : Tx) (g : GuarOp) (w : zg_O)
    (hg : ∀ x, guarBody (zg_w t.s w) x = guarBody t.s x) :
    guaranteedSubstep hash (zg_wt t w) g
      = mapR (fun p => (zg_wt p.1 w, p.2)) (guaranteedSubstep hash t g) := by
  unfold guaranteedSubstep
  have hb : guarBody (zg_wt t w).s = guarBody t.s := funext hg
  simp only [mapR_bind]
  rw [hb]
  show (runWhile (guarBody t.s) (t.s.whitelist.length + 2) t.c.budget
      ⟨t.s.whitelist, t.s.whitelist.length, t.s.status, g.leftover, g.additional⟩ >>= _) = _
  refine bind_congr_fun ?_
  intro ⟨x, b, st⟩
  cases st with
  | outOfFuel => rfl
  | interrupted => rfl
  | completed =>
    simp only [mapR_bind]
    refine bind_eq_bind_of_mapR (fst1 (zg_wl · w)) ?_ ?_
    · rhs_exact runWhile_commutes (zg_wl · w) _ (fun y => zg_leftoverBody hash _ _ _ y w) _ _ _
    · intro ⟨y, b2, st2⟩
      cases st2 <;> rfl

/-- **the body of `distribute` commutes with the overwriting** (v1 variants) whenever the
    guarantee loop reads the same -/
theorem zg_distribute (hash : List Nat → List Nat) (t : Tx) (e : Env) (w : zg_O)
    (hv2 : t.s.variant.isV2 = false)
    (hg : ∀ x, guarBody (zg_w t.s w) x = guarBody t.s x) :
    distribute hash (zg_wt t w) e = mapR (zg_wt · w) (distribute hash t e) := by
  unfold distribute
  have hv2' : (zg_wt t w).s.variant.isV2 = false := hv2
  simp only [hv2, hv2', Bool.false_eq_true, if_false, mapR_bind, pure_bind]
  show (requireStage t.s e .winnerSelection _ >>= fun _ => _) = _
  refine bind_congr_fun ?_; intro _
  show (req t.s.flags.selected _ >>= fun _ => _) = _
  refine bind_congr_fun ?_; intro _
  show (req (!t.s.flags.additional) _ >>= fun _ => _) = _
  refine bind_congr_fun ?_; intro _
  have hop' : (zg_wt t w).s.op = t.s.op := rfl
  cases hop : t.s.op with
  | none =>
    simp only [hop', hop, zg_freshRng, mapR_bind, pure_bind]
    refine bind_eq_bind_of_mapR (fun p => (zg_wt p.1 w, p.2)) ?_ ?_
    · exact zg_guaranteedSubstep hash t.freshRng.2 _ w
        (by
          have : t.freshRng.2.s = t.s := by unfold Tx.freshRng; cases t.c.seeds <;> rfl
          rw [this]; exact hg)
    · intro ⟨t1, g1, st⟩
      cases st <;> first | rfl | (simp only []; ite_both <;> rfl)
  | additional d =>
    cases d with
    | guar g0 =>
      simp only [hop', hop, mapR_bind, pure_bind]
      refine bind_eq_bind_of_mapR (fun p => (zg_wt p.1 w, p.2)) ?_ ?_
      · exact zg_guaranteedSubstep hash t g0 w hg
      · intro ⟨t1, g1, st⟩
        cases st <;> first | rfl | (simp only []; ite_both <;> rfl)
    | nft r => simp only [hop', hop] <;> rfl
  | _ => simp only [hop', hop] <;> rfl

end LP
