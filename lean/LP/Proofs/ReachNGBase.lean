import LP.Proofs.ReachNGClaim
/-
  LP.Proofs.ReachNGBase — the invariant `ng_WF` holds in every reachable state of
  `Variant.nftGuar` (launchpad-nft-and-guaranteed-tickets):

      ng_init_WF   deployment establishes `ng_WF`
      ng_call_WF   every accepted call keeps it
      ng_wait_WF   the passing of time keeps it
      ng_reach_WF  hence it holds in every state of `ng_ReachA hash a0`

  RESTRICTION ON HISTORIES: exactly `v1_CallOK` (every entry of an `addTicketsV1` call allocates at
  least one ticket, `1 ≤ staking + energy`) plus `EnvOK` (a transaction carries EGLD or ESDT, not
  both).  NO assumption on the tokens: `setNftCost` / `setTicketPrice` may change the fee token /
  payment token (in the AddTickets stage) in any way the contract accepts.  `filter`, `select` and
  `secondary` may be interrupted by ANY budget, any number of times, in any of their loops.
-/
namespace LP
open LP.FY

/-- the endpoints `Variant.nftGuar` does not expose are rejected by the dispatcher; the three SFT
    set-up endpoints that call the system contract are not modelled (always rejected) -/
theorem ng_exposed {hash : List Nat → List Nat} {s s' : State} {e : Env} {c : Call} {o : Out}
    (hv : s.variant = .nftGuar) (hs : step hash s e c = .ok (s', o)) :
    match c with
    | .addTickets _ | .addTicketsV2 _ | .refundUsers _ | .unblacklist _ | .distribute
    | .setSchedule1 .. | .setSchedule2 _ | .selectNft
    | .issueSft | .createSfts | .setTransferRole _ => False
    | _ => True := by
  obtain ⟨m, t, hm, _, _, hx, _, _⟩ := step_ok_inv hs
  rw [hv] at hm
  cases c <;> first
    | trivial
    | (simp [endpointMeta] at hm; done)
    | (simp [exec, bind_ok_iff] at hx; done)

/-- **preservation**: every accepted call keeps the invariant -/
theorem ng_call_WF {T0 : Nat} {hash : List Nat → List Nat} {s s' : State} {e : Env} {c : Call} {o : Out}
    {r : Nat} (h : ng_WF T0 s r) (hr : r ≤ e.round) (hok : EnvOK e) (hc : v1_CallOK c)
    (hs : step hash s e c = .ok (s', o)) : ng_WF T0 s' e.round := by
  have hex := ng_exposed h.var hs
  cases c with
  | addTicketsV1 l => exact ng_addTicketsV1 h hr hc hs
  | deposit => exact ng_deposit h hr hok hs
  | setTicketPrice tok a => exact ng_setTicketPrice h hr hs
  | setPerTicket a => exact ng_setPerTicket h hr hs
  | setConfStart x => exact ng_setConfStart h hr hs
  | setSelStart x => exact ng_setSelStart h hr hs
  | setClaimStart x => exact ng_setClaimStart h hr hs
  | setSupport a => exact ng_setSupport h hr hs
  | pause => exact ng_pause h hr hs
  | unpause => exact ng_unpause h hr hs
  | confirm n => exact ng_confirm h hr hok hs
  | filter => exact ng_filter h hr hs
  | select => exact ng_select h hr hs
  | claim => exact ng_claim h hr hs
  | claimPayment => exact ng_claimPayment h hr hs
  | blacklist l => exact ng_blacklist h hr hs
  | confirmNft => exact ng_confirmNft h hr hok hs
  | secondary => exact ng_secondary h hr hs
  | setNftCost c => exact ng_setNftCost h hr hs
  | sftSetup => exact ng_sftSetup h hr hs
  | _ => exact absurd hex id

/-! ### reachable states -/

/-- states of launchpad-nft-and-guaranteed-tickets reachable from a deployment with arguments
    `a0`, paired with the round of the latest transaction (`wait` lets rounds pass) -/
inductive ng_ReachA (hash : List Nat → List Nat) (a0 : InitArgs) : State → Nat → Prop
  | init (e : Env) (s : State) : init .nftGuar a0 e = .ok s → ng_ReachA hash a0 s e.round
  | call (s : State) (r : Nat) (e : Env) (c : Call) (s' : State) (o : Out) :
      ng_ReachA hash a0 s r → r ≤ e.round → EnvOK e → v1_CallOK c →
      step hash s e c = .ok (s', o) → ng_ReachA hash a0 s' e.round
  | wait (s : State) (r r' : Nat) : ng_ReachA hash a0 s r → r ≤ r' → ng_ReachA hash a0 s r'

/-- states reachable from any deployment -/
inductive ng_Reach (hash : List Nat → List Nat) : State → Nat → Prop
  | init (a : InitArgs) (e : Env) (s : State) : init .nftGuar a e = .ok s → ng_Reach hash s e.round
  | call (s : State) (r : Nat) (e : Env) (c : Call) (s' : State) (o : Out) :
      ng_Reach hash s r → r ≤ e.round → EnvOK e → v1_CallOK c →
      step hash s e c = .ok (s', o) → ng_Reach hash s' e.round
  | wait (s : State) (r r' : Nat) : ng_Reach hash s r → r ≤ r' → ng_Reach hash s r'

theorem ng_Reach_iff {hash : List Nat → List Nat} {s : State} {r : Nat} :
    ng_Reach hash s r ↔ ∃ a0, ng_ReachA hash a0 s r := by
  constructor
  · intro h
    induction h with
    | init a e s h => exact ⟨a, .init e s h⟩
    | call s r e c s' o _ h1 h2 h3 h4 ih =>
      obtain ⟨a0, ih⟩ := ih
      exact ⟨a0, .call s r e c s' o ih h1 h2 h3 h4⟩
    | wait s r r' _ h1 ih =>
      obtain ⟨a0, ih⟩ := ih
      exact ⟨a0, .wait s r r' ih h1⟩
  · rintro ⟨a0, h⟩
    induction h with
    | init e s h => exact .init a0 e s h
    | call s r e c s' o _ h1 h2 h3 h4 ih => exact .call s r e c s' o ih h1 h2 h3 h4
    | wait s r r' _ h1 ih => exact .wait s r r' ih h1

/-- the invariant holds in every reachable state -/
theorem ng_reach_WF {hash : List Nat → List Nat} {a0 : InitArgs} {s : State} {r : Nat}
    (h : ng_ReachA hash a0 s r) : ng_WF a0.nrWinning s r := by
  induction h with
  | init e s h => exact ng_init_WF h
  | call s r e c s' o _ h1 h2 h3 h4 ih => exact ng_call_WF ih h1 h2 h3 h4
  | wait s r r' _ h1 ih => exact ng_wait_WF ih h1

/-! ### the ledger read off the invariant -/

/-- the ticket-payment ledger, on the ticket part of the holdings (`tix` = `bal payTok 0` minus
    the NFT fees held in the same slot) -/
theorem ng_WF_ledger {T0 : Nat} {s : State} {r : Nat} (h : ng_WF T0 s r) :
    ∃ L : List Nat, Covers s L ∧
      (¬ AllDone s → (nf_side s).tix = s.price * sumOver s.confirmed L) ∧
      (AllDone s → (nf_side s).tix = s.claimablePayment + sumOver (refundDue s) L ∧
        sumOver (winCountOf s) L = s.nrWinning ∧
        (∀ a, winCountOf s a ≤ s.confirmed a) ∧
        (∀ a rg, s.range a = some rg → a ∈ L ∧ rg.first ≤ rg.last ∧
          rg.last + 1 = rg.first + s.confirmed a)) := by
  have key : ∀ L : List Nat, L.Nodup → (∀ a, s.confirmed a ≠ 0 → a ∈ L) →
      PayPre (nf_core s) L → s.flags.additional = false →
      ∃ L : List Nat, Covers s L ∧
        (¬ AllDone s → (nf_side s).tix = s.price * sumOver s.confirmed L) ∧
        (AllDone s → (nf_side s).tix = s.claimablePayment + sumOver (refundDue s) L ∧
          sumOver (winCountOf s) L = s.nrWinning ∧
          (∀ a, winCountOf s a ≤ s.confirmed a) ∧
          (∀ a rg, s.range a = some rg → a ∈ L ∧ rg.first ≤ rg.last ∧
            rg.last + 1 = rg.first + s.confirmed a)) := by
    intro L hnd hsupp hpay hna
    refine ⟨L, ⟨hnd, hsupp⟩, fun _ => hpay, ?_⟩
    intro hd
    have h1 : s.flags.additional = true := hd.2
    rw [hna] at h1; cases h1
  have conv : ∀ Ls : List (Nat × Nat), (∀ a, a ∉ Ls.map Prod.fst → s.confirmed a = 0) →
      ∀ a, s.confirmed a ≠ 0 → a ∈ Ls.map Prod.fst := by
    intro Ls hout a ha
    apply Classical.byContradiction
    intro hin
    exact ha (hout a hin)
  rcases h.phase with (⟨hna, _, ⟨L0, hp, _⟩ | ⟨hC, _⟩ | hE⟩ | ⟨ha, hD⟩) | ⟨hF, _⟩
  · exact key _ hp.ok.nodup (conv L0 hp.outC) hp.pay hna
  · obtain ⟨Ls, hnd, _, _, _, hout, hpay⟩ := hC.alloc
    exact key _ hnd (conv Ls (fun a ha => (hout a ha).2)) hpay hna
  · obtain ⟨Ls, hnd, _, _, _, hout, hpay⟩ := hE.alloc
    exact key _ hnd (conv Ls (fun a ha => (hout a ha).2)) hpay hna
  · obtain ⟨L, hnd, hsupp, hpost, hwin⟩ := hD.led
    have hadd' : s.flags.additional = true := ha
    refine ⟨L, ⟨hnd, hsupp⟩, fun hnd' => absurd ⟨hD.selected, hadd'⟩ hnd', fun _ => ⟨?_, hwin, ?_, ?_⟩⟩
    · have : (nf_side s).tix = s.claimablePayment + sumOver (dueC (nf_core s)) L := hpost
      rw [nf_dueC_eq] at this
      exact this
    · intro a
      show winOf s.range s.status a ≤ s.confirmed a
      cases hr : s.range a with
      | none => simp [winOf, hr]
      | some rg => exact rb_winOf_le hr (hD.rngOk a rg hr).2
    · intro a rg hr
      obtain ⟨h1, h2⟩ := hD.rngOk a rg hr
      have h2' : rg.last + 1 = rg.first + s.confirmed a := h2
      exact ⟨hsupp a (by show s.confirmed a ≠ 0; omega), h1, h2'⟩
  · obtain ⟨L, hnd, hsupp, hpay⟩ := hF.pre
    exact key L hnd hsupp hpay hF.notDone

end LP

#print axioms LP.ng_init_WF
#print axioms LP.ng_call_WF
#print axioms LP.ng_wait_WF
#print axioms LP.ng_reach_WF
