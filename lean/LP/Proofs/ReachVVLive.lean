import LP.Proofs.ReachVVGhost
import LP.Props.C01reachV2
/-
  LP.Proofs.ReachVVLive — a settled participant's claim is never stuck (`Variant.guarV2`):
  under the exactness invariant `vv_Exact` the subtraction in `claimable2` cannot underflow
  (C13 `claimable2_no_underflow`) and the launchpad-token ledger covers the instalment, so the only
  possible rejections of a repeat claim without call value are "Contract is paused" and "Already
  claimed all tokens" — and the latter means the whole entitlement has been received.
  The FIRST claim (settlement + refund + first instalment) of a participant owning a range is
  accepted in the claim stage whenever the contract is not paused (`vv_first_claim_total`).
-/
namespace LP
open LP.FY LP.Events

/-- `step` for a `claim` of the v2 launchpad without call value -/
theorem vv_step_claim_eq (hash : List Nat → List Nat) {s : State} (hv : s.variant = .guarV2)
    (e : Env) (h1 : e.egld = 0) (h2 : e.esdts = []) :
    step hash s e .claim =
      match claimVested (rbTx s e) e with
      | .error err => .error err
      | .ok t => .ok (t.s, t.o) := by
  unfold step
  have hm : endpointMeta s.variant .claim = some ⟨false, false⟩ := rfl
  rw [hm]
  simp only [h1, h2, Nat.lt_irrefl, decide_false, List.isEmpty_nil, Bool.not_true, Bool.or_self,
    Bool.and_false, Bool.false_eq_true, if_false, Bool.false_and, creditPayments_nopay s e h1 h2]
  have hvest : s.variant.vested = true := by rw [hv]; rfl
  simp only [exec, hvest, if_true]
  rfl

/-- the body of a repeat claim: accepted, or rejected with "Already claimed all tokens" -/
theorem vv_claimVested_repeat_total {s : State} {e : Env} {r' : Nat} (hv2 : s.variant.isV2 = true)
    (hcl : s.claimed e.caller = true) (hp : s.paused = false) (hr : r' ≤ e.round)
    (hinv : s.userClaimed e.caller ≤ entitled2 s e.caller r')
    (hpct : unlockedPct2 e.round (sched2Of s) ≤ 10000)
    (hcov : s.userTotal e.caller - s.userClaimed e.caller ≤ s.bal (.esdt s.lpTok) 0) :
    (∃ t, claimVested (rbTx s e) e = .ok t) ∨
    (claimVested (rbTx s e) e = .error (.user "Already claimed all tokens") ∧
      0 < s.userTotal e.caller ∧ s.userTotal e.caller ≤ s.userClaimed e.caller) := by
  rw [claimVested_eq]
  simp only [rbTx_s, hv2, if_true, hp, Bool.not_false, req_true]
  have hset : claimSettle (rbTx s e) e = .ok (rbTx s e) := by
    unfold claimSettle
    simp only [rbTx_s, hcl, if_true]
    rfl
  have hbody : claimBody true (rbTx s e) e
      = claimable2 s e e.caller >>= fun c => claimPay true (rbTx s e) e c := by
    unfold claimBody
    rw [hset]
    rfl
  rcases claimable2_no_underflow s e e.caller hr hinv with hc | ⟨hc, k1, k2⟩
  · left
    have hle : entitled2 s e.caller e.round - s.userClaimed e.caller
        ≤ s.bal (.esdt s.lpTok) 0 := by
      have : entitled2 s e.caller e.round ≤ s.userTotal e.caller := entitled_le _ hpct
      omega
    show ∃ t, (Except.ok () >>= fun _ => claimBody true (rbTx s e) e) = .ok t
    have : (Except.ok () >>= fun _ => claimBody true (rbTx s e) e)
        = claimPay true (rbTx s e) e (entitled2 s e.caller e.round - s.userClaimed e.caller) := by
      show claimBody true (rbTx s e) e = _
      rw [hbody, hc]; rfl
    rw [this]
    unfold claimPay
    by_cases hpos : entitled2 s e.caller e.round - s.userClaimed e.caller > 0
    · rw [if_pos hpos]
      have hsend : ∃ t1, (rbTx s e).send e.caller
          ⟨.esdt (rbTx s e).s.lpTok, 0, entitled2 s e.caller e.round - s.userClaimed e.caller⟩
          = .ok t1 := by
        unfold Tx.send
        rw [if_neg (by
          show ¬ s.bal (.esdt s.lpTok) 0 < entitled2 s e.caller e.round - s.userClaimed e.caller
          omega)]
        exact ⟨_, rfl⟩
      obtain ⟨t1, ht1⟩ := hsend
      rw [ht1]
      exact ⟨_, rfl⟩
    · rw [if_neg hpos]
      exact ⟨_, rfl⟩
  · right
    refine ⟨?_, k1, k2⟩
    show claimBody true (rbTx s e) e = _
    rw [hbody, hc]; rfl

/-- **a repeat claim is never stuck**: from a well-formed state satisfying the exactness
    invariant, the claim of a settled participant — contract not paused, no call value — is either
    accepted or rejected with "Already claimed all tokens", in which case the whole (positive)
    entitlement has been received -/
theorem vv_repeat_claim_total {T0 : Nat} (hash : List Nat → List Nat) {s : State} {r : Nat}
    (h : WF2 T0 s r) (hx : vv_Exact s r) (e : Env) (hr : r ≤ e.round)
    (hcl : s.claimed e.caller = true) (hp : s.paused = false) (h1 : e.egld = 0) (h2 : e.esdts = []) :
    (∃ s' o, step hash s e .claim = .ok (s', o)) ∨
    (step hash s e .claim = .error (.user "Already claimed all tokens") ∧
      0 < s.userTotal e.caller ∧ s.userClaimed e.caller = s.userTotal e.caller) := by
  obtain ⟨_, _, hv2, _⟩ := v2_flags h.var
  obtain ⟨r', hr', hex⟩ := hx.settled e.caller hcl
  have hd := vv_settled_done h hcl
  obtain ⟨L, haL, _, _, heq⟩ := vv_lp_exact_with h hd e.caller
  have hmem := rb_le_sumOver (fun x => s.userTotal x - s.userClaimed x) L e.caller haL
  have hmem' : s.userTotal e.caller - s.userClaimed e.caller
      ≤ sumOver (fun x => s.userTotal x - s.userClaimed x) L := hmem
  have hcov : s.userTotal e.caller - s.userClaimed e.caller ≤ s.bal (.esdt s.lpTok) 0 := by omega
  have hinv : s.userClaimed e.caller ≤ entitled2 s e.caller r' := by
    rw [hex]; exact Nat.le_refl _
  rw [vv_step_claim_eq hash h.var e h1 h2]
  rcases vv_claimVested_repeat_total hv2 hcl hp (Nat.le_trans hr' hr) hinv (vv_pct_le h _) hcov with
    ⟨t, ht⟩ | ⟨ht, k1, k2⟩
  · left; rw [ht]; exact ⟨_, _, rfl⟩
  · right
    rw [ht]
    have := (vv_records h e.caller).2
    exact ⟨rfl, k1, by omega⟩

/-! ### the first claim -/

theorem vv_settle_ok {s : State} {e : Env} {rg : Range} (hst : s.stage e = .claim)
    (hcl : s.claimed e.caller = false) (hrg : s.range e.caller = some rg)
    (h1 : redeemOf s rg ≤ s.nrWinning) (h2 : redeemOf s rg ≤ s.confirmed e.caller) :
    ∃ s1, settle s e = .ok (s1, redeemOf s rg, s.confirmed e.caller - redeemOf s rg) := by
  unfold redeemOf at h1 h2 ⊢
  unfold settle
  simp only [requireStage, hst, beq_self_eq_true, req_true, hcl, Bool.not_false, hrg]
  generalize hcr : clearRange s.status s.posToId rg.first (rangeLen rg) = tr at h1 h2 ⊢
  obtain ⟨st, p, rd⟩ := tr
  simp only at h1 h2 ⊢
  have e2 : csub (s.confirmed e.caller) rd "user_interactions.rs:98 confirmed - redeemable"
      = .ok (s.confirmed e.caller - rd) := by unfold csub; rw [if_pos h2]
  by_cases hz : rd > 0
  · have e1 : csub s.nrWinning rd "user_interactions.rs:93 nr_winning -= redeemable"
        = .ok (s.nrWinning - rd) := by unfold csub; rw [if_pos h1]
    simp only [hz, if_true, e1, e2]
    exact ⟨_, rfl⟩
  · simp only [hz, if_false, e2]
    exact ⟨_, rfl⟩

theorem vv_claimPay_ok {t : Tx} {e : Env} {c : Nat} (hc : c ≤ t.s.bal (.esdt t.s.lpTok) 0) :
    ∃ t', claimPay true t e c = .ok t' := by
  unfold claimPay
  by_cases hpos : c > 0
  · rw [if_pos hpos]
    have hsend : ∃ t1, t.send e.caller ⟨.esdt t.s.lpTok, 0, c⟩ = .ok t1 := by
      unfold Tx.send
      rw [if_neg (by show ¬ t.s.bal (.esdt t.s.lpTok) 0 < c; omega)]
      exact ⟨_, rfl⟩
    obtain ⟨t1, ht1⟩ := hsend
    rw [ht1]
    exact ⟨_, rfl⟩
  · rw [if_neg hpos]
    exact ⟨_, rfl⟩

theorem vv_refund_ok {t : Tx} {e : Env} {a n : Nat} (h : t.s.price * n ≤ t.s.bal t.s.payTok 0) :
    ∃ t', t.refund e a n = .ok t' := by
  unfold Tx.refund
  split
  · exact ⟨t, rfl⟩
  · simp only [Tx.send]
    rw [if_neg (by omega)]
    exact ⟨_, rfl⟩

/-- **the first claim is never stuck**: from a reachable state in the claim stage, the claim of a
    participant who has not settled and still owns a ticket range — contract not paused, no call
    value — is accepted: the settlement arithmetic does not underflow, the payment-token refund and
    the launchpad-token instalment are both covered by the contract's balances -/
theorem vv_first_claim_total (hash : List Nat → List Nat) {s : State} {r : Nat}
    (h : Reach hash .guarV2 s r) (e : Env) (hst : s.stage e = .claim)
    (hcl : s.claimed e.caller = false) {rg : Range} (hrg : s.range e.caller = some rg)
    (hp : s.paused = false) (h1 : e.egld = 0) (h2 : e.esdts = []) :
    ∃ s' o, step hash s e .claim = .ok (s', o) := by
  obtain ⟨a0, hA⟩ := Reach_iff.mp h
  have hwf := reach_WF2 hA
  obtain ⟨_, _, hv2, _⟩ := v2_flags hwf.var
  obtain ⟨hsel, hadd, _, _⟩ := v2_stage_claim hst
  have hd : AllDone s := ⟨hsel, hadd⟩
  have hwc : winCountOf s e.caller = redeemOf s rg := by
    simp only [winCountOf, hrg, redeemOf, (rb_clearRange_spec s.status s.posToId rg.first (rangeLen rg)).2.2]
  obtain ⟨L, _, _, hwin, hlec, hrgs⟩ := LP.Props.C01reachV2.three_counts_guarV2 hash s r h hd
  have hk1 : redeemOf s rg ≤ s.nrWinning := by
    have := rb_le_sumOver (winCountOf s) L e.caller (hrgs _ _ hrg).1
    omega
  have hk2 : redeemOf s rg ≤ s.confirmed e.caller := by rw [← hwc]; exact hlec _
  obtain ⟨s1, hset⟩ := vv_settle_ok hst hcl hrg hk1 hk2
  obtain ⟨_, rg', hrg', _, _, _, hs1⟩ := rb_settle_inv hset
  have hrr : rg' = rg := by rw [hrg] at hrg'; injection hrg' with h; exact h.symm
  subst hrr
  have hcov := LP.Props.C01reachV2.claim_refund_covered_guarV2 hash s r h hd e.caller rg' hrg
  rw [hwc] at hcov
  obtain ⟨t2, href⟩ := vv_refund_ok (t := (rbTx s e).setS s1) (e := e) (a := e.caller)
    (n := s.confirmed e.caller - redeemOf s rg') (by
      rw [hs1]
      show s.price * (s.confirmed e.caller - redeemOf s rg') ≤ s.bal s.payTok 0
      omega)
  have hsettle := vv_claimSettle_first (t := rbTx s e) hcl hset href
  obtain ⟨t1, ht1d⟩ : ∃ t1, t1 = (if redeemOf s rg' > 0 then
      t2.setS { t2.s with userTotal := upd t2.s.userTotal e.caller (redeemOf s rg' * t2.s.perTicket) }
      else t2) := ⟨_, rfl⟩
  rw [← ht1d] at hsettle
  rcases v2_claimSettle_state hsettle with ⟨hc', _⟩ | ⟨_, _, rg2, B, hrg2, _, ht1, _, hBo, _⟩
  · rw [hcl] at hc'; cases hc'
  have hrr : rg2 = rg' := by rw [hrg] at hrg2; injection hrg2 with h; exact h.symm
  subst hrr
  have hne : Token.esdt s.lpTok ≠ s.payTok := fun hh => hwf.tokNe hh.symm
  have hBlp : B (.esdt s.lpTok) 0 = s.bal (.esdt s.lpTok) 0 := hBo _ _ hne
  have hrec := (vv_records hwf e.caller).1 hcl
  have huc1 : t1.s.userClaimed e.caller = 0 := by rw [ht1]; exact hrec.2
  have hut1 : t1.s.userTotal e.caller ≤ s.perTicket * winCountOf s e.caller := by
    rw [ht1, hwc]
    show (if redeemOf s rg2 > 0 then upd s.userTotal e.caller (redeemOf s rg2 * s.perTicket)
      else s.userTotal) e.caller ≤ _
    split
    · rw [upd_same, Nat.mul_comm]; exact Nat.le_refl _
    · rw [hrec.1]; exact Nat.zero_le _
  have hwcov := LP.Props.C01reachV2.unsettled_winner_covered_guarV2 hash s r h hd e.caller rg2 hrg
  have hpct : unlockedPct2 e.round (sched2Of t1.s) ≤ 10000 := by
    have : sched2Of t1.s = sched2Of s := vv_sched2Of_congr (by rw [ht1]; rfl)
    rw [this]; exact vv_pct_le hwf _
  have hcl2 : ∃ c, claimable2 t1.s e e.caller = .ok c ∧ c ≤ t1.s.bal (.esdt t1.s.lpTok) 0 := by
    rcases claimable2_no_underflow t1.s e e.caller (Nat.le_refl e.round)
      (by rw [huc1]; exact Nat.zero_le _) with hc | ⟨_, k1, k2⟩
    · refine ⟨_, hc, ?_⟩
      have h1 : entitled2 t1.s e.caller e.round ≤ t1.s.userTotal e.caller := entitled_le _ hpct
      have h2 : t1.s.bal (.esdt t1.s.lpTok) 0 = s.bal (.esdt s.lpTok) 0 := by rw [ht1]; exact hBlp
      rw [h2]
      omega
    · omega
  obtain ⟨c, hc, hcle⟩ := hcl2
  obtain ⟨t, ht⟩ := vv_claimPay_ok (t := t1) (e := e) hcle
  have hcv : claimVested (rbTx s e) e = .ok t := by
    rw [claimVested_eq]
    simp only [rbTx_s, hv2, if_true, hp, Bool.not_false, req_true]
    show claimBody true (rbTx s e) e = _
    unfold claimBody
    rw [hsettle]
    show (claimable2 t1.s e e.caller >>= fun c => claimPay true t1 e c) = _
    rw [hc]
    exact ht
  rw [vv_step_claim_eq hash hwf.var e h1 h2, hcv]
  exact ⟨_, _, rfl⟩

end LP

#print axioms LP.vv_repeat_claim_total
#print axioms LP.vv_first_claim_total
