import LP.Proofs.FY
import Mathlib.Data.List.Nodup
/-
  LP.Proofs.FYCount — explicit enumeration of the valid residue vectors, used to turn the
  bijection of `equally_likely` into an equality of counts.
-/
namespace LP.FY

/-- all residue vectors for steps `i, …, i+k-1` -/
def allResFrom (n : Nat) : Nat → Nat → List (List Nat)
  | _, 0 => [[]]
  | i, k + 1 => (List.range (n - i + 1)).flatMap (fun c => (allResFrom n (i + 1) k).map (List.cons c))

theorem mem_allResFrom (n : Nat) : ∀ (k i : Nat) (cs : List Nat),
    cs ∈ allResFrom n i k ↔ cs.length = k ∧ validFrom n i cs := by
  intro k
  induction k with
  | zero =>
    intro i cs
    cases cs with
    | nil => simp [allResFrom, validFrom]
    | cons c cs => simp [allResFrom]
  | succ k ih =>
    intro i cs
    simp only [allResFrom, List.mem_flatMap, List.mem_range, List.mem_map]
    constructor
    · rintro ⟨c, hc, cs0, h0, rfl⟩
      have := (ih (i + 1) cs0).mp h0
      exact ⟨by simp [this.1], hc, this.2⟩
    · rintro ⟨hl, hv⟩
      cases cs with
      | nil => simp at hl
      | cons c cs0 =>
        simp only [List.length_cons, Nat.add_right_cancel_iff] at hl
        exact ⟨c, hv.1, cs0, (ih (i + 1) cs0).mpr ⟨hl, hv.2⟩, rfl⟩

theorem nodup_allResFrom (n : Nat) : ∀ (k i : Nat), (allResFrom n i k).Nodup := by
  intro k
  induction k with
  | zero => intro i; simp [allResFrom]
  | succ k ih =>
    intro i
    simp only [allResFrom]
    rw [List.nodup_flatMap]
    constructor
    · intro c _
      exact (ih (i + 1)).map (fun a b e => List.tail_eq_of_cons_eq e)
    · apply List.Pairwise.imp _ List.nodup_range
      intro a b hab
      simp only [Function.onFun]
      intro l h1 h2
      rw [List.mem_map] at h1 h2
      obtain ⟨_, _, rfl⟩ := h1
      obtain ⟨_, _, e⟩ := h2
      exact hab (List.head_eq_of_cons_eq e).symm

/-- all valid residue vectors for `(n,k)` -/
def allRes (n k : Nat) : List (List Nat) := if k ≤ n then allResFrom n 1 k else []

theorem mem_allRes (n k : Nat) (cs : List Nat) : cs ∈ allRes n k ↔ ValidRes n k cs := by
  unfold allRes
  constructor
  · intro h
    split at h
    · rename_i hk
      obtain ⟨hl, hv⟩ := (mem_allResFrom n k 1 cs).mp h
      have := validRes_of_validFrom (by omega) hv
      rwa [hl] at this
    · simp at h
  · intro h
    rw [if_pos h.le]
    exact (mem_allResFrom n k 1 cs).mpr ⟨h.1, h.validFrom⟩

theorem nodup_allRes (n k : Nat) : (allRes n k).Nodup := by
  unfold allRes; split
  · exact nodup_allResFrom n k 1
  · exact List.nodup_nil

/-- number of valid residue vectors for `(n,k)` whose selection contains ticket `t` -/
def winCount (n k t : Nat) : Nat :=
  ((allRes n k).filter (fun cs => decide (t ∈ tbSel n cs))).length


theorem winCount_le {n k t t' : Nat} (ht : 1 ≤ t ∧ t ≤ n) (ht' : 1 ≤ t' ∧ t' ≤ n) :
    winCount n k t ≤ winCount n k t' := by
  unfold winCount
  have hW : ∀ cs, cs ∈ (allRes n k).filter (fun cs => decide (t ∈ tbSel n cs)) →
      ValidRes n k cs ∧ t ∈ tbSel n cs := by
    intro cs h
    rw [List.mem_filter, mem_allRes] at h
    exact ⟨h.1, by simpa using h.2⟩
  have hnd : (((allRes n k).filter (fun cs => decide (t ∈ tbSel n cs))).map (resSwap n k t t')).Nodup := by
    apply List.Nodup.map_on _ ((nodup_allRes n k).filter _)
    intro x hx y hy e
    have ex := (resSwap_spec ht ht' (hW x hx).1).2.2.1
    have ey := (resSwap_spec ht ht' (hW y hy).1).2.2.1
    rw [← ex, ← ey, e]
  have hsub : ((allRes n k).filter (fun cs => decide (t ∈ tbSel n cs))).map (resSwap n k t t') ⊆
      (allRes n k).filter (fun cs => decide (t' ∈ tbSel n cs)) := by
    intro y hy
    rw [List.mem_map] at hy
    obtain ⟨x, hx, rfl⟩ := hy
    have sp := resSwap_spec ht ht' (hW x hx).1
    rw [List.mem_filter, mem_allRes]
    exact ⟨sp.1, by simpa using sp.2.2.2.1.mp (hW x hx).2⟩
  have := hnd.length_le_of_subset hsub
  simpa using this


/-! ### double counting: `n * winCount = k * #vectors` -/

theorem length_filter_eq_sum {α : Type} (p : α → Bool) (B : List α) :
    (B.filter p).length = (B.map (fun b => if p b then 1 else 0)).sum := by
  induction B with
  | nil => rfl
  | cons b B ih =>
    simp only [List.filter_cons, List.map_cons, List.sum_cons]
    by_cases h : p b
    · simp [h, ih]; omega
    · simp [h, ih]

theorem sum_map_add {α : Type} (f g : α → Nat) (B : List α) :
    (B.map (fun b => f b + g b)).sum = (B.map f).sum + (B.map g).sum := by
  induction B with
  | nil => rfl
  | cons b B ih => simp only [List.map_cons, List.sum_cons, ih]; omega

theorem sum_map_const {α : Type} (f : α → Nat) (c : Nat) (B : List α) (h : ∀ b ∈ B, f b = c) :
    (B.map f).sum = B.length * c := by
  induction B with
  | nil => simp
  | cons b B ih =>
    simp only [List.map_cons, List.sum_cons, List.length_cons]
    rw [ih (fun x hx => h x (List.mem_cons_of_mem _ hx)), h b List.mem_cons_self, Nat.succ_mul]
    omega

theorem double_count {α β : Type} (P : α → β → Bool) (A : List α) (B : List β) :
    (A.map (fun a => (B.filter (P a)).length)).sum =
      (B.map (fun b => (A.filter (fun a => P a b)).length)).sum := by
  induction A with
  | nil => simp
  | cons a A ih =>
    simp only [List.map_cons, List.sum_cons, ih, List.filter_cons]
    rw [length_filter_eq_sum, ← sum_map_add]
    congr 1
    apply List.map_congr_left
    intro b _
    by_cases h : P a b
    · simp [h]; omega
    · simp [h]

theorem length_filter_range_mem (n : Nat) (L : List Nat) (hn : L.Nodup)
    (hr : ∀ t ∈ L, 1 ≤ t ∧ t ≤ n) :
    ((List.range' 1 n).filter (fun t => decide (t ∈ L))).length = L.length := by
  have := countTrue_eq_length (fun t => decide (t ∈ L)) n L hn hr (fun t _ _ => by simp)
  rw [countTrue_eq_filter] at this
  exact this

/-- `n · #(vectors selecting t) = k · #(valid vectors)` -/
theorem winCount_mul {n k t : Nat} (ht : 1 ≤ t ∧ t ≤ n) :
    n * winCount n k t = k * (allRes n k).length := by
  have h := double_count (fun (cs : List Nat) (t : Nat) => decide (t ∈ tbSel n cs))
    (allRes n k) (List.range' 1 n)
  rw [sum_map_const _ k, sum_map_const _ (winCount n k t)] at h
  · simp only [List.length_range'] at h
    rw [h.symm, Nat.mul_comm]
  · intro t' ht'
    rw [List.mem_range'_1] at ht'
    exact Nat.le_antisymm (winCount_le (by omega) ht) (winCount_le ht (by omega))
  · intro cs hcs
    have hs := tbSel_isSel ((mem_allRes n k cs).mp hcs)
    rw [length_filter_range_mem n _ hs.2.1 hs.2.2, hs.1]

end LP.FY
