import LP.Proofs.ReachNGAlloc
/-
  LP.Proofs.ReachNGSel — preservation of `ng_WF` by `filterTickets` and by the base lottery
  `selectWinners` of `Variant.nftGuar` (each interrupted or completed, from a fresh or a saved
  loop state).  Exactly `v1_filter` / `v1_select` (LP/Proofs/ReachV1Filter.lean,
  ReachV1Select.lean) over the ticket part of the holdings; the fee ledger is not touched.
-/
namespace LP
open LP.FY LP.Props.C14

/-- a step in the selection stage that leaves balances, fee data and deposit data alone keeps the
    launchpad-token coverage if it does not increase what is owed -/
theorem ng_lp_sel {T0 : Nat} {s s' : State} {r : Nat} {e : Env} (h : ng_WF T0 s r)
    (hns : s.flags.selected = false) (hc1 : s.cfg.conf ≤ e.round)
    (hcfg : s'.cfg = s.cfg) (hcost : s'.nftCost = s.nftCost) (hl : s'.lpTok = s.lpTok)
    (hbal : s'.bal = s.bal) (hdep : s'.deposited = s.deposited) (hpt : s'.perTicket = s.perTicket)
    (howed : v1_owed s' ≤ v1_owed s) :
    ng_LpSep s' e.round → s'.deposited = true →
      s'.perTicket * v1_owed s' ≤ s'.bal (.esdt s'.lpTok) 0 := by
  intro hq hd
  have hnl : ¬ (nf_side s).isLp := by
    rcases hq with hq | hq
    · intro hh
      apply hq
      have hh' : s.nftCost.tok = .esdt s.lpTok ∧ s.nftCost.nonce = 0 := hh
      show s'.nftCost.tok = .esdt s'.lpTok ∧ s'.nftCost.nonce = 0
      rw [hcost, hl]; exact hh'
    · exfalso; rw [hcfg] at hq; omega
  rw [hdep] at hd
  have h0 := ng_lp_of_notSel h hns (Or.inl hnl) hd
  rw [hpt, hbal, hl]
  exact Nat.le_trans (Nat.mul_le_mul_left _ howed) h0

/-! ### filter -/

theorem ng_filter {T0 : Nat} {hash : List Nat → List Nat} {s s' : State} {e : Env} {o : Out}
    {r : Nat} (h : ng_WF T0 s r) (_hr : r ≤ e.round)
    (hs : step hash s e .filter = .ok (s', o)) : ng_WF T0 s' e.round := by
  obtain ⟨t, hx, rfl⟩ := rb_step_np (by intro m hm; simp [endpointMeta] at hm; rw [← hm]) hs
  simp only [exec] at hx
  obtain ⟨hpre, x, f, b, hxs, hcase⟩ := rb_filterTickets_cases hx
  simp only [rbTx_s] at hpre hxs hcase
  obtain ⟨hc1, hc2⟩ := rb_stage_winnerSelection hpre.stage
  obtain ⟨hadd, htg, L0, hp, hab⟩ := ng_phase_notFiltered h.phase hpre.notFiltered
  have hadd' : s.flags.additional = false := hadd
  have hnsel0 : s.flags.selected = false := hp.notSelected
  have hw0 : s.nftWinners = [] := h.side.noWin hnsel0
  have hgw : v1_GW (v1_gv s) := by
    rcases hab with ⟨_, hg⟩ | ⟨_, hg⟩
    · exact hg.toGW
    · exact hg
  have hmid : Mid s.confirmed s.lastTicketId L0 x ∧ (x.first = 1 ∨ s.flags.started = true) := by
    rcases hab with ⟨ha, _⟩ | ⟨hb, _⟩
    · have hop : s.op = .none := ha.op
      simp only [filStOf, hop, Option.some.injEq] at hxs
      subst hxs
      have hl : s.lastTicketId = ticketTotal L0 := ha.last
      rw [hl]
      exact ⟨rb_Mid_start ha.chain hp.outR, Or.inl rfl⟩
    · obtain ⟨f0, rm, hop, hm⟩ := hb.mid
      have hop' : s.op = .filter f0 rm := hop
      simp only [filStOf, hop', Option.some.injEq] at hxs
      subst hxs
      exact ⟨hm, Or.inr hb.started⟩
  obtain ⟨hmid, hfirst⟩ := hmid
  have hok : AllocOK s.confirmed L0 := hp.ok
  have hloop := fun b' st (hrun : runWhile (filterBody s.confirmed s.lastTicketId)
      (s.lastTicketId + 2) (rbTx s e).c.budget x = .ok (f, b', st)) =>
    rb_runWhile_inv (Mid s.confirmed s.lastTicketId L0) (filterBody s.confirmed s.lastTicketId)
      (fun y y' hb hm => rb_filterBody_Mid hok hb hm) _ _ _ _ _ _ hrun hmid
  obtain ⟨hff, hfs, hfa⟩ := rb_filterFlags s x.first
  have hstarted := filterFlags_started s x.first hfirst
  have hpay : (nf_side s).tix = s.price * sumOver s.confirmed (L0.map Prod.fst) := hp.pay
  rcases hcase with ⟨hrun, hs'⟩ | ⟨hrun, hle, hs'⟩
  · -- interrupted
    have hmf : Mid s.confirmed s.lastTicketId L0 f := (hloop _ _ hrun).1 rfl
    have houtR := hmf.choose_spec.choose_spec.2.2.2.2.2.2.2
    rw [hs']
    have hside : nf_side (filterSaved s x f) = nf_side s := by
      show ({ nf_side s with additional := (filterFlags s x.first).additional, selected := (filterFlags s x.first).selected } : nf_Side) = nf_side s
      rw [hfa, hfs]
      rfl
    refine ng_WF_build (nf_side s) hside h.side h.var h.pricePos h.tokNe h.static ?_ ?_ ?_
      (fun _ _ => hw0) ?_
    · intro hlt; exfalso; have : e.round < s.cfg.conf := hlt; omega
    · intro _; exact ⟨hc1, hc2⟩
    · refine ng_lp_sel h hnsel0 hc1 rfl rfl rfl rfl rfl rfl ?_
      have e1 : v1_owed (filterSaved s x f) = v1_owed s := by
        unfold v1_owed
        show (s.nrWinning + if (filterFlags s x.first).additional = true then 0 else s.totalGuaranteed) = _
        rw [hfa]
      rw [e1]; exact Nat.le_refl _
    · left; left
      refine ⟨?_, htg, Or.inl ⟨L0, ⟨?_, ?_, hp.nrw, hp.status0, hp.pos0, hp.ok, hp.outC, houtR, hpay⟩,
        Or.inr ⟨⟨?_, ?_⟩, hgw⟩⟩⟩
      · show (filterFlags s x.first).additional = false
        rw [hfa]; exact hadd'
      · show (filterFlags s x.first).filtered = false
        rw [hff]; exact hpre.notFiltered
      · show (filterFlags s x.first).selected = false
        rw [hfs]; exact hp.notSelected
      · exact hstarted
      · exact ⟨f.first, f.removed, rfl, hmf⟩
  · -- completed
    obtain ⟨y, hmy, hby⟩ := (hloop _ _ hrun).2 rfl
    obtain ⟨hy1, hyf⟩ := rb_filterBody_false hby
    subst hyf
    obtain ⟨hch, hrem, hlast, hzero, hout⟩ := rb_Mid_final hok hmy hy1
    have hcd := confSum_add_droppedSum s.confirmed L0 hok.le
    have hnew : s.lastTicketId - f.removed = ticketTotal (survivors s.confirmed L0) := by
      rw [ticketTotal_survivors, hrem]; omega
    have hnrw : s.nrWinning = T0 - s.totalGuaranteed := hp.nrw
    rw [hs']
    have hside : nf_side (filterDone s x f) = nf_side s := by
      show ({ nf_side s with additional := (filterFlags s x.first).additional, selected := (filterFlags s x.first).selected } : nf_Side) = nf_side s
      rw [hfa, hfs]
      rfl
    refine ng_WF_build (nf_side s) hside h.side h.var h.pricePos h.tokNe h.static ?_ ?_ ?_
      (fun _ _ => hw0) ?_
    · intro hlt; exfalso; have : e.round < s.cfg.conf := hlt; omega
    · intro _; exact ⟨hc1, hc2⟩
    · refine ng_lp_sel h hnsel0 hc1 rfl rfl rfl rfl rfl rfl ?_
      unfold v1_owed
      show ((if s.nrWinning > s.lastTicketId - f.removed then s.lastTicketId - f.removed
            else s.nrWinning) +
          if (filterFlags s x.first).additional = true then 0 else s.totalGuaranteed) ≤ _
      rw [hfa]
      split <;> omega
    · left; left
      refine ⟨?_, htg, Or.inr (Or.inl ⟨⟨hstarted, rfl, ?_, ?_, ?_,
        Or.inl ⟨rfl, hp.status0, hp.pos0⟩⟩, hgw⟩)⟩
      · show (filterFlags s x.first).additional = false
        rw [hfa]; exact hadd'
      · show (filterFlags s x.first).selected = false
        rw [hfs]; exact hp.notSelected
      · show (if s.nrWinning > s.lastTicketId - f.removed then s.lastTicketId - f.removed
              else s.nrWinning) = min (T0 - s.totalGuaranteed) (s.lastTicketId - f.removed)
        rw [hnrw]; split <;> omega
      · refine ⟨survivors s.confirmed L0, survivors_nodup _ _ hok.nodup, ?_, hch, hnew, ?_, ?_⟩
        · intro p hp1
          obtain ⟨_, h2, h3⟩ := mem_survivors hp1
          exact ⟨by omega, h2⟩
        · intro a ha
          by_cases hin : a ∈ L0.map Prod.fst
          · obtain ⟨p, hp1, hpa⟩ := List.mem_map.mp hin
            have hc0 : s.confirmed p.1 = 0 := by
              apply Classical.byContradiction
              intro hne
              exact ha (hpa ▸ rb_mem_survivors_of_pos hp1 hne)
            subst hpa
            exact ⟨hzero p hp1 hc0, hc0⟩
          · exact ⟨hout a hin, hp.outC a hin⟩
        · show (nf_side s).tix = s.price * sumOver s.confirmed ((survivors s.confirmed L0).map Prod.fst)
          rw [rb_sumOver_survivors]
          exact hpay

/-! ### the base lottery -/

theorem ng_select {T0 : Nat} {hash : List Nat → List Nat} {s s' : State} {e : Env} {o : Out}
    {r : Nat} (h : ng_WF T0 s r) (_hr : r ≤ e.round)
    (hs : step hash s e .select = .ok (s', o)) : ng_WF T0 s' e.round := by
  obtain ⟨t, hx, rfl⟩ := rb_step_np (by intro m hm; simp [endpointMeta] at hm; rw [← hm]) hs
  obtain ⟨hstage, hC, x, hcase⟩ := nf_select_cases (T := T0 - s.totalGuaranteed)
    (fun hf hq => (ng_phase_C h.phase hf hq).2.2.1) hx
  have hnsel : s.flags.selected = false := hC.notSelected
  obtain ⟨hadd, htg, _, hgw⟩ := ng_phase_C h.phase hC.filtered hnsel
  have hadd' : s.flags.additional = false := hadd
  have hw0 : s.nftWinners = [] := h.side.noWin hnsel
  obtain ⟨hc1, hc2⟩ := rb_stage_winnerSelection hstage
  rcases hcase with ⟨hs', p1, p2, arr, hR⟩ | ⟨hs', arr, hR⟩
  · rw [hs']
    refine ng_WF_build (nf_side s) rfl h.side h.var h.pricePos h.tokNe h.static ?_ ?_ ?_
      (fun _ _ => hw0) ?_
    · intro hlt; exfalso; have : e.round < s.cfg.conf := hlt; omega
    · intro _; exact ⟨hc1, hc2⟩
    · exact ng_lp_sel h hnsel hc1 rfl rfl rfl rfl rfl rfl (Nat.le_refl _)
    · left; left
      exact ⟨hadd, htg, Or.inr (Or.inl ⟨⟨hC.started, hC.filtered, hC.notSelected, hC.nrw, hC.alloc,
        Or.inr ⟨x.rng, x.pos, arr, rfl, p1, p2, hR⟩⟩, hgw⟩)⟩
  · rw [hs']
    have hnl : s.nrWinning ≤ s.lastTicketId := by
      have : s.nrWinning = min (T0 - s.totalGuaranteed) s.lastTicketId := hC.nrw
      omega
    have hcount : countTrue x.status s.lastTicketId = s.nrWinning := hR.count hnl
    have hinv := LInv_init (additional := 0) hR (fun _ ht => ht) hR.flagsIn (by rw [hcount]; rfl)
      default 0 default
    refine ng_WF_build ({ nf_side s with selected := true }) rfl (nf_SideInv_selected h.side)
      h.var h.pricePos h.tokNe h.static ?_ ?_ ?_ (fun _ _ => hw0) ?_
    · intro hlt; exfalso; have : e.round < s.cfg.conf := hlt; omega
    · intro _; exact ⟨hc1, hc2⟩
    · exact ng_lp_sel h hnsel hc1 rfl rfl rfl rfl rfl rfl (Nat.le_refl _)
    · left; left
      refine ⟨hadd, htg, Or.inr (Or.inr ⟨hC.started, hC.filtered, rfl, hC.nrw, rfl, hC.alloc,
        fun _ => hgw, 0, 1, 0, Or.inl ⟨rfl, rfl, rfl, rfl⟩, hinv.pinv, hcount, ?_, ?_⟩)⟩
      · have := hgw.total
        show 0 + 0 + gSum false s.uts s.whitelist = s.totalGuaranteed
        have h2 : s.totalGuaranteed = gSum false s.uts s.whitelist := this
        omega
      · intro u st hu hpos
        exact Or.inl (hgw.mem_of_pos u st hu hpos)

end LP
