import LP.Proofs.Unstuck2
/-
  LP.Proofs.Unstuck3 — C04 at the level of REACHABLE states, third part:

  * `us3_secLeft`          the measure of the whole `secondary` step of nftGuar: in the NFT phase
                           (the generator of the draw is saved) `us_nftLeft`; before it
                           `us2_distLeft + us_nftLeft + 1`;
  * `us3_nftLeft_step`     no accepted `secondary` call increases `us_nftLeft`;
  * `us3_DrawsOKng`        the hypothesis on the draws of a call (as `us2_DrawsOK`, over `ng_Reach`);
  * `us3_sec_completes`    any `us3_secLeft s + 1` calls complete the step;
  * `us3_Rel`, `us3_Open`, `us3_stage_*`   the end-to-end sequence `filter`, `select`,
                           `distribute` / `secondary` for the v1 family and nftGuar;
  * `us3_spin_loop`        the v1 leftover loop, for EVERY fuel `F`: with `F` scripted draws all equal
                           to a value that hits an already winning ticket the loop returns
                           `outOfFuel`;
  * `us3_spins_of_start`   the same lifted to `us2_Spins`.
-/
namespace LP
open LP.Props LP.Events LP.FY LP.Props.C17 LP.Props.C14

/-! ## 1. `secondary` of nftGuar: one measure for both phases -/

/-- the NFT-draw part of a `secondary` call never increases `us_nftLeft` -/
theorem us3_tail_nftLeft {hash : List Nat → List Nat} {s0 : State} {t2 t' : Tx} {rng : Rng}
    (hok : NftOk s0) (hle : s0.nftWinners.length ≤ s0.availNfts) (ht2 : t2.s = s0)
    (htail : ng_NftTail hash t2 rng t') : us_nftLeft t'.s ≤ us_nftLeft s0 := by
  obtain ⟨P, W, _, hWle, hlen, _, hpre, hcase⟩ := ng_tail_shape hok hle ht2 htail
  have hpl := hpre.length_le
  rcases hcase with ⟨hs', _, _⟩ | ⟨rng', hs', _⟩
  · rw [hs']
    show min P.length (s0.availNfts - W.length)
      ≤ min s0.payers.length (s0.availNfts - s0.nftWinners.length)
    omega
  · rw [hs']
    show min P.length (s0.availNfts - W.length)
      ≤ min s0.payers.length (s0.availNfts - s0.nftWinners.length)
    omega

/-- **no accepted `secondary` call increases `us_nftLeft`** (the guaranteed sub-step does not touch
    the fee payers, the NFT winners or the number of NFTs; the draw moves payers to winners) -/
theorem us3_nftLeft_step (hash : List Nat → List Nat) {s s' : State} {e : Env} {o : Out}
    (hok : NftOk s) (hle : s.nftWinners.length ≤ s.availNfts) (hpay : us_NoPay e)
    (hst : step hash s e .secondary = .ok (s', o)) : us_nftLeft s' ≤ us_nftLeft s := by
  obtain ⟨m, t, _, _, _, hx, rfl, rfl⟩ := step_ok_inv hst
  simp only [exec] at hx
  have h0 : (tx0 s e).s = s := creditPayments_nopay s e hpay.1 hpay.2
  obtain ⟨_, _, _, hc⟩ := ng_secondary_cases hash _ _ e hx
  rcases hc with ⟨g, _, hgp⟩ | ⟨rg, _, htail⟩
  · rw [h0] at hgp
    obtain ⟨b0, d0, x, b1, hg⟩ := hgp
    rcases hg with ⟨_, hs', _⟩ | ⟨_, z, b2, ⟨_, hs', _⟩ | ⟨_, t2, rng, ht2, htail⟩⟩
    · rw [hs']; exact Nat.le_refl _
    · rw [hs']; exact Nat.le_refl _
    · exact us3_tail_nftLeft (s0 := ng_midState s x z) ⟨hok.nodupP, hok.nodupW, hok.disj⟩ hle ht2
        htail
  · exact us3_tail_nftLeft hok hle h0 htail

/-- the measure of the `secondary` step -/
def us3_secLeft (s : State) : Nat :=
  match s.op with
  | .additional (.nft _) => us_nftLeft s
  | _ => us2_distLeft s + us_nftLeft s + 1

theorem us3_secLeft_nft {s : State} {rg : Rng} (h : s.op = .additional (.nft rg)) :
    us3_secLeft s = us_nftLeft s := by
  unfold us3_secLeft; rw [h]

theorem us3_secLeft_guar {s : State} (h : ∀ rg, s.op ≠ .additional (.nft rg)) :
    us3_secLeft s = us2_distLeft s + us_nftLeft s + 1 := by
  unfold us3_secLeft
  split
  · rename_i rg hop; exact absurd hop (h rg)
  · rfl

theorem us3_secLeft_le (s : State) : us3_secLeft s ≤ us2_distLeft s + us_nftLeft s + 1 := by
  unfold us3_secLeft
  split <;> omega

/-- what is assumed of the draws of a `secondary` call in environment `e`, in whatever reachable
    state of nftGuar (guaranteed sub-step in progress) it is made: the leftover loop does not spin,
    and when the call is interrupted in the leftover loop after `k + 1` iterations at least one of
    them did not re-draw an already winning ticket -/
def us3_DrawsOKng (hash : List Nat → List Nat) (e : Env) : Prop :=
  ∀ s1 r1, ng_Reach hash s1 r1 → s1.flags.selected = true → s1.flags.additional = false →
    (∀ rg, s1.op ≠ .additional (.nft rg)) →
    ¬ us2_Spins hash s1 e ∧
    ∀ z0 k, us2_leftStart s1 e = some (z0, some k) →
      us2_redraws hash false s1.nrWinning s1.lastTicketId (k + 1) z0 < k + 1

/-- under `us3_DrawsOKng`, every `secondary` call is accepted and completes the step or strictly
    decreases `us3_secLeft` -/
theorem us3_sec_progress (hash : List Nat → List Nat) {s : State} {r : Nat} {e : Env}
    (hs : ng_Reach hash s r) (hsd : s.flags.selected = true) (hna : s.flags.additional = false)
    (hr : r ≤ e.round) (hsel : s.cfg.sel ≤ e.round) (hpay : us_NoPay e)
    (hdr : us3_DrawsOKng hash e) :
    ∃ s' o, step hash s e .secondary = .ok (s', o) ∧ ng_Reach hash s' e.round ∧
      s'.flags.selected = true ∧ s'.cfg = s.cfg ∧
      (s'.flags.additional = true ∨ us3_secLeft s' < us3_secLeft s) := by
  by_cases hopn : ∃ rg, s.op = .additional (.nft rg)
  · obtain ⟨rg, hop⟩ := hopn
    obtain ⟨_, _, _, s', o, hst, hre, hsd', hop', hout⟩ :=
      us2_sec_nft_never_stuck hash hs hop hr hsel hpay
    refine ⟨s', o, hst, hre, hsd', hout.cfg, ?_⟩
    rcases hout.cases with ⟨_, h, _⟩ | ⟨_, hadd, _, hlt, _⟩
    · exact Or.inl h
    · obtain ⟨rg', h'⟩ := hop' hadd
      right
      rw [us3_secLeft_nft h', us3_secLeft_nft hop]
      exact hlt
  · have hopn' : ∀ rg, s.op ≠ .additional (.nft rg) := fun rg h => hopn ⟨rg, h⟩
    obtain ⟨hns, hred⟩ := hdr s r hs hsd hna hopn'
    obtain ⟨s', o, hst, hre, hout⟩ :=
      (us2_sec_guar_never_stuck hash hs hsd hna hopn' hr hsel hpay).2.2 hns
    have hsd' : s'.flags.selected = true := by rw [hout.selected]; exact hsd
    obtain ⟨a0, ha⟩ := ng_Reach_iff.mp hs
    have wf := ng_reach_WF ha
    have hmono : us_nftLeft s' ≤ us_nftLeft s :=
      us3_nftLeft_step hash ⟨wf.side.nodupP, wf.side.nodupW, wf.side.disj⟩ wf.side.winLe hpay hst
    refine ⟨s', o, hst, hre, hsd', hout.cfg, ?_⟩
    rw [us3_secLeft_guar hopn']
    rcases hout.cases with ⟨_, _, ⟨g', hop'⟩, hnw, hlt, hoff, _⟩ |
      ⟨_, hf, ⟨g', hop'⟩, hnw, hnil, _, z0, k, hls, heq⟩ | ⟨_, _, ⟨rg', hop'⟩, _⟩ | ⟨_, h, _⟩
    · right
      rw [us3_secLeft_guar (fun rg h => by rw [hop'] at h; cases h)]
      have : us2_distLeft s' < us2_distLeft s := by
        unfold us2_distLeft
        rw [hoff, hnw, hout.last]
        omega
      omega
    · right
      have hopn2 : ∀ rg, s'.op ≠ .additional (.nft rg) := fun rg h => by rw [hop'] at h; cases h
      rw [us3_secLeft_guar hopn2]
      have hna' : s'.flags.additional = false := by rw [hf]; exact hna
      have hb := (us2_ng_distSt hre hsd' hna' hopn2).off_bound.2
      have hlt := hred z0 k hls
      rw [hnw, hout.last] at hb
      have : us2_distLeft s' < us2_distLeft s := by
        unfold us2_distLeft
        rw [hnw, hout.last, hnil]
        simp only [List.length_nil]
        omega
      omega
    · right
      rw [us3_secLeft_nft hop']
      omega
    · exact Or.inl h

/-- **the sequence theorem for `secondary`**: any `us3_secLeft s + 1` successive calls (arbitrary
    callers and budgets, draws as in `us3_DrawsOKng`) complete the step -/
theorem us3_sec_completes (hash : List Nat → List Nat) {s : State} {r : Nat}
    (hs : ng_Reach hash s r) (hsd : s.flags.selected = true) (hsel : s.cfg.sel ≤ r)
    (es : List Env) (hr : RoundsFrom r (us_hist .secondary es))
    (hq : ∀ e ∈ es, us_NoPay e ∧ us3_DrawsOKng hash e)
    (hlen : us3_secLeft s + 1 ≤ es.length) :
    (run hash s (us_hist .secondary es)).flags.additional = true := by
  refine us_run_completes hash .secondary
    (fun s1 r1 => ng_Reach hash s1 r1 ∧ s1.flags.selected = true ∧ s1.cfg.sel ≤ r1)
    (fun e => us_NoPay e ∧ us3_DrawsOKng hash e)
    (fun s => s.flags.additional) us3_secLeft ?_
    (fun s e h => us2_sec_rejected_when_done hash s e h) es s r ⟨hs, hsd, hsel⟩ hr hq hlen
  intro s1 r1 e hg hna hr1 hq1
  obtain ⟨hc1, hsd1, hsel1⟩ := hg
  obtain ⟨s', o, hst, hre, hsd', hcfg, hprog⟩ := us3_sec_progress hash hc1 hsd1 hna hr1
    (Nat.le_trans hsel1 hr1) hq1.1 hq1.2
  exact ⟨s', o, hst, ⟨hre, hsd', by rw [hcfg]; exact Nat.le_trans hsel1 hr1⟩, hprog⟩

/-- the measure is at most `|whitelist| + lastTicketId + min |payers| availNfts + 1` -/
theorem us3_secLeft_bound (hash : List Nat → List Nat) {s : State} {r : Nat}
    (hs : ng_Reach hash s r) (hsd : s.flags.selected = true) (hna : s.flags.additional = false) :
    us3_secLeft s ≤ s.whitelist.length + s.lastTicketId + min s.payers.length s.availNfts + 1 := by
  have h1 := us3_secLeft_le s
  have h2 : us_nftLeft s ≤ min s.payers.length s.availNfts := by
    unfold us_nftLeft; omega
  have h3 : us2_distLeft s ≤ s.whitelist.length + s.lastTicketId := by
    by_cases hopn : ∃ rg, s.op = .additional (.nft rg)
    · obtain ⟨rg, hop⟩ := hopn
      have hoff : us2_distOff s = 1 := by unfold us2_distOff; rw [hop]
      unfold us2_distLeft
      rw [hoff]
      omega
    · have hb := (us2_ng_distSt hs hsd hna (fun rg h => hopn ⟨rg, h⟩)).off_bound.1
      unfold us2_distLeft
      omega
  omega

theorem us3_sec_completes_within (hash : List Nat → List Nat) {s : State} {r : Nat}
    (hs : ng_Reach hash s r) (hsd : s.flags.selected = true) (hsel : s.cfg.sel ≤ r)
    (es : List Env) (hr : RoundsFrom r (us_hist .secondary es))
    (hq : ∀ e ∈ es, us_NoPay e ∧ us3_DrawsOKng hash e)
    (hlen : s.whitelist.length + s.lastTicketId + min s.payers.length s.availNfts + 2
      ≤ es.length) :
    (run hash s (us_hist .secondary es)).flags.additional = true := by
  cases hna : s.flags.additional with
  | true =>
    rw [us_run_done hash .secondary (fun s => s.flags.additional)
      (fun s e h => us2_sec_rejected_when_done hash s e h) es s hna]
    exact hna
  | false =>
    have := us3_secLeft_bound hash hs hsd hna
    exact us3_sec_completes hash hs hsd hsel es hr hq (by omega)

/-! ### `us3_DrawsOKng` is satisfiable: one iteration per call, scripted draw `0` -/

/-- a call with budget 0 whose scripted first draw is `0`, in ANY state: the leftover loop does not
    spin and its single iteration is not a re-draw (the proof of `us2_DrawsOK_zero`, which does not
    use the reachability hypothesis) -/
theorem us3_draws_zero (hash : List Nat → List Nat) (e : Env) (hb : e.budget = some 0)
    (hscr : e.script = [0]) (s1 : State) :
    ¬ us2_Spins hash s1 e ∧
    ∀ z0 k, us2_leftStart s1 e = some (z0, some k) →
      us2_redraws hash false s1.nrWinning s1.lastTicketId (k + 1) z0 < k + 1 := by
  have hstart : ∀ z0 b1, us2_leftStart s1 e = some (z0, b1) →
      b1 = some 0 ∧ z0.d.script = [0] := by
    intro z0 b1 h
    unfold us2_leftStart at h
    cases hg : guarOpOf (callTx s1 e e.budget) with
    | none => rw [hg] at h; cases h
    | some g =>
      rw [hg] at h
      simp only at h
      cases hrun : runWhile (guarBody s1) (s1.whitelist.length + 2) e.budget (guarX s1 g) with
      | error err => rw [hrun] at h; cases h
      | ok q =>
        obtain ⟨x, b1', st⟩ := q
        rw [hrun] at h
        cases st with
        | outOfFuel => cases h
        | interrupted => cases h
        | completed =>
          simp only [Option.some.injEq, Prod.mk.injEq] at h
          obtain ⟨rfl, rfl⟩ := h
          rw [hb] at hrun
          exact ⟨(us2_runWhile_budget_zero _ _ _ _ _ _ hrun).2, hscr⟩
  refine ⟨fun ⟨z0, b1, z, b2, hls, hrun⟩ => ?_, fun z0 k hls => ?_⟩
  · obtain ⟨rfl, _⟩ := hstart z0 b1 hls
    have : v1LeftoverFuel = 199999 + 1 := rfl
    rw [this] at hrun
    exact (us2_runWhile_budget_zero _ _ _ _ _ _ hrun).1 rfl
  · obtain ⟨hk, hz⟩ := hstart z0 (some k) hls
    simp only [Option.some.injEq] at hk
    subst hk
    have hx : LCore.lift default z0 = (LCore.lift default z0).withScript (0 :: []) := by
      obtain ⟨st, p, rg, lo, off, add, ⟨scr, lg⟩⟩ := z0
      simp only at hz
      subst hz
      rfl
    have hnr := lKind_script_zero hash s1.nrWinning s1.lastTicketId (LCore.lift default z0) []
    rw [← hx] at hnr
    unfold us2_redraws
    simp only [lCount]
    have h0 : (lKind hash s1.nrWinning s1.lastTicketId (LCore.lift default z0)).redraws = 0 := by
      cases hq : lKind hash s1.nrWinning s1.lastTicketId (LCore.lift default z0) with
      | redraw => exact absurd hq hnr
      | stop => rfl
      | skip => rfl
      | ok => rfl
    rw [h0]
    split <;> omega

theorem us3_DrawsOKng_zero (hash : List Nat → List Nat) (e : Env) (hb : e.budget = some 0)
    (hscr : e.script = [0]) : us3_DrawsOKng hash e :=
  fun s1 _ _ _ _ _ => us3_draws_zero hash e hb hscr s1

theorem us3_roundsFrom_replicate (c : Call) (e : Env) {r : Nat} (hr : r ≤ e.round) :
    ∀ n, RoundsFrom r (us_hist c (List.replicate n e))
  | 0 => trivial
  | n + 1 => ⟨hr, us3_roundsFrom_replicate c e (Nat.le_refl _) n⟩

/-! ## 2. end to end for the v1 family and nftGuar -/

/-- a reachability relation closed under accepted calls and waiting, inside `be_Covered` -/
structure us3_Rel (hash : List Nat → List Nat) (R : State → Nat → Prop) : Prop where
  cov : ∀ s r, R s r → be_Covered hash s r
  call : ∀ s s' r e c o, R s r → r ≤ e.round → EnvOK e → v1_CallOK c →
    step hash s e c = .ok (s', o) → R s' e.round
  wait : ∀ s r r', R s r → r ≤ r' → R s r'

theorem us3_rel_v1 (hash : List Nat → List Nat) : us3_Rel hash (us2_V1Cov hash) where
  cov := fun _ _ h => h.covered
  call := fun _ _ _ _ _ _ h hr he hc hst => h.call hr he hc hst
  wait := fun s r r' h hr => by
    cases h with
    | v1 hv h => exact .v1 hv (.wait _ _ _ h hr)
    | guarV1 h => exact .guarV1 (.wait _ _ _ h hr)

theorem us3_rel_ng (hash : List Nat → List Nat) : us3_Rel hash (ng_Reach hash) where
  cov := fun _ _ h => .nftGuar h
  call := fun _ _ _ _ _ _ h hr he hc hst => .call _ _ _ _ _ _ h hr he hc hst
  wait := fun _ _ _ h hr => .wait _ _ _ h hr

/-- reachable (`R`), un-paused, in the selection stage, owned by the owner of `s0` -/
structure us3_Open (R : State → Nat → Prop) (s0 s : State) (r : Nat) : Prop where
  reach : R s r
  notPaused : s.paused = false
  sel : s.cfg.sel ≤ r
  owner : s.owner = s0.owner

theorem us3_Open.wait {hash : List Nat → List Nat} {R : State → Nat → Prop} (hR : us3_Rel hash R)
    {s0 s : State} {r r' : Nat} (h : us3_Open R s0 s r) (hr : r ≤ r') : us3_Open R s0 s r' :=
  ⟨hR.wait _ _ _ h.reach hr, h.notPaused, Nat.le_trans h.sel hr, h.owner⟩

/-- stage 1: one `filter` call of the owner with an unlimited budget -/
theorem us3_stage_filter {hash : List Nat → List Nat} {R : State → Nat → Prop} (hR : us3_Rel hash R)
    {s0 s : State} {r : Nat} (h : us3_Open R s0 s r) {e : Env} (hr : r ≤ e.round)
    (ho : us2_OwnerCall s0 e) :
    us3_Open R s0 (run hash s [(e, .filter)]) e.round ∧
    (run hash s [(e, .filter)]).flags.filtered = true := by
  cases hf : s.flags.filtered with
  | true =>
    obtain ⟨err, herr⟩ := us_filter_rejected_when_done hash s e hf
    rw [us2_run_one_err herr]
    exact ⟨h.wait hR hr, hf⟩
  | false =>
    obtain ⟨_, _, s', o, hst, _, hout⟩ := us_filter_never_stuck hash (hR.cov _ _ h.reach) hf hr
      (Nat.le_trans h.sel hr) ho.1 h.notPaused
    rw [us2_run_one_ok hst]
    refine ⟨⟨hR.call _ _ _ _ _ _ h.reach hr ho.1.envOK (by trivial) hst,
      by rw [hout.paused, h.notPaused],
      by rw [hout.cfg]; exact Nat.le_trans h.sel hr, by rw [hout.owner, h.owner]⟩, ?_⟩
    exact (hout.unlimited ho.2.1).2.1

/-- stage 2: one `select` call of the owner with an unlimited budget -/
theorem us3_stage_select {hash : List Nat → List Nat} {R : State → Nat → Prop} (hR : us3_Rel hash R)
    {s0 s : State} {r : Nat} (h : us3_Open R s0 s r) (hfil : s.flags.filtered = true) {e : Env}
    (hr : r ≤ e.round) (ho : us2_OwnerCall s0 e) :
    us3_Open R s0 (run hash s [(e, .select)]) e.round ∧
    (run hash s [(e, .select)]).flags.selected = true := by
  cases hf : s.flags.selected with
  | true =>
    obtain ⟨err, herr⟩ := us_select_rejected_when_done hash s e hf
    rw [us2_run_one_err herr]
    exact ⟨h.wait hR hr, hf⟩
  | false =>
    obtain ⟨_, _, s', o, hst, _, hout⟩ := us_select_never_stuck hash (hR.cov _ _ h.reach) hfil hf hr
      (Nat.le_trans h.sel hr) ho.1 h.notPaused (Or.inl (by rw [h.owner]; exact ho.2.2))
    rw [us2_run_one_ok hst]
    refine ⟨⟨hR.call _ _ _ _ _ _ h.reach hr ho.1.envOK (by trivial) hst,
      by rw [hout.paused, h.notPaused],
      by rw [hout.cfg]; exact Nat.le_trans h.sel hr, by rw [hout.owner, h.owner]⟩, ?_⟩
    exact (hout.unlimited ho.2.1).2.1

/-- `filter`, `select` by the owner with unlimited budgets: lottery complete -/
theorem us3_two_steps {hash : List Nat → List Nat} {R : State → Nat → Prop} (hR : us3_Rel hash R)
    {s : State} {r : Nat} (hs : R s r) (hsel : s.cfg.sel ≤ r) (hp : s.paused = false) (e1 e2 : Env)
    (hr : RoundsFrom r [(e1, .filter), (e2, .select)])
    (h1 : us2_OwnerCall s e1) (h2 : us2_OwnerCall s e2) :
    us3_Open R s (run hash s [(e1, .filter), (e2, .select)]) e2.round ∧
    (run hash s [(e1, .filter), (e2, .select)]).flags.selected = true := by
  obtain ⟨hr1, hr2, _⟩ := hr
  obtain ⟨hA, hfil⟩ := us3_stage_filter hR (s0 := s) ⟨hs, hp, hsel, rfl⟩ hr1 h1
  rw [us2_run_two]
  exact us3_stage_select hR hA hfil hr2 h2

/-- stage 3 (migration, lockedGuar, guarV1): one `distribute` call with an unlimited budget whose
    leftover loop does not spin -/
theorem us3_stage_dist_v1 (hash : List Nat → List Nat) {s0 s : State} {r : Nat}
    (h : us3_Open (us2_V1Cov hash) s0 s r) (hsd : s.flags.selected = true) {e : Env}
    (hr : r ≤ e.round) (ho : us2_OwnerCall s0 e)
    (hns : s.flags.additional = false → ¬ us2_Spins hash s e) :
    us3_Open (us2_V1Cov hash) s0 (run hash s [(e, .distribute)]) e.round ∧
    AllDone (run hash s [(e, .distribute)]) := by
  cases hf : s.flags.additional with
  | true =>
    obtain ⟨err, herr⟩ := us2_dist_rejected_when_done hash s e hf
    rw [us2_run_one_err herr]
    exact ⟨h.wait (us3_rel_v1 hash) hr, hsd, hf⟩
  | false =>
    obtain ⟨s', o, hst, hcov, hout⟩ :=
      (us2_dist_v1_never_stuck hash h.reach hsd hf hr (Nat.le_trans h.sel hr) ho.1).2.2 (hns hf)
    rw [us2_run_one_ok hst]
    refine ⟨⟨hcov, by rw [hout.paused, h.notPaused], by rw [hout.cfg]; exact Nat.le_trans h.sel hr,
      by rw [hout.owner, h.owner]⟩, by rw [hout.selected]; exact hsd, ?_⟩
    rcases hout.cases with ⟨_, _, _, _, _, _, hb⟩ | ⟨_, _, _, _, _, hb, _⟩ | ⟨_, hadd, _⟩
    · exact absurd ho.2.1 hb
    · exact absurd ho.2.1 hb
    · exact hadd

/-- stage 3 (nftGuar): one `secondary` call with an unlimited budget whose leftover loop does not
    spin -/
theorem us3_stage_sec (hash : List Nat → List Nat) {s0 s : State} {r : Nat}
    (h : us3_Open (ng_Reach hash) s0 s r) (hsd : s.flags.selected = true) {e : Env}
    (hr : r ≤ e.round) (ho : us2_OwnerCall s0 e)
    (hns : s.flags.additional = false → ¬ us2_Spins hash s e) :
    us3_Open (ng_Reach hash) s0 (run hash s [(e, .secondary)]) e.round ∧
    AllDone (run hash s [(e, .secondary)]) := by
  cases hf : s.flags.additional with
  | true =>
    obtain ⟨err, herr⟩ := us2_sec_rejected_when_done hash s e hf
    rw [us2_run_one_err herr]
    exact ⟨h.wait (us3_rel_ng hash) hr, hsd, hf⟩
  | false =>
    by_cases hopn : ∃ rg, s.op = .additional (.nft rg)
    · obtain ⟨rg, hop⟩ := hopn
      obtain ⟨_, _, _, s', o, hst, hre, hsd', _, hout⟩ :=
        us2_sec_nft_never_stuck hash h.reach hop hr (Nat.le_trans h.sel hr) ho.1
      rw [us2_run_one_ok hst]
      exact ⟨⟨hre, by rw [hout.paused, h.notPaused], by rw [hout.cfg]; exact Nat.le_trans h.sel hr,
        by rw [hout.owner, h.owner]⟩, hsd', (hout.unlimited ho.2.1).2.1⟩
    · obtain ⟨s', o, hst, hre, hout⟩ :=
        (us2_sec_guar_never_stuck hash h.reach hsd hf (fun rg hh => hopn ⟨rg, hh⟩) hr
          (Nat.le_trans h.sel hr) ho.1).2.2 (hns hf)
      rw [us2_run_one_ok hst]
      refine ⟨⟨hre, by rw [hout.paused, h.notPaused],
        by rw [hout.cfg]; exact Nat.le_trans h.sel hr,
        by rw [hout.owner, h.owner]⟩, by rw [hout.selected]; exact hsd, ?_⟩
      rcases hout.cases with ⟨_, _, _, _, _, _, hb⟩ | ⟨_, _, _, _, _, hb, _⟩ | ⟨_, _, _, hb⟩ |
        ⟨_, hadd, _⟩
      · exact absurd ho.2.1 hb
      · exact absurd ho.2.1 hb
      · exact absurd ho.2.1 hb
      · exact hadd

/-- a spinning call changes nothing: the step is not completed by it -/
theorem us3_spin_keeps {hash : List Nat → List Nat} {s : State} {e : Env} {c : Call}
    (h : step hash s e c = .error (.vm "out of gas")) : run hash s [(e, c)] = s :=
  us2_run_one_err h

/-! ## 3. the v1 leftover loop spins, for every fuel bound -/

/-- the raw value that makes the draw land on position `p` -/
theorem us3_inRange_hit {cur last p : Nat} (h1 : cur ≤ p) (h2 : p ≤ last) :
    inRange (p - cur) cur (last + 1) = p := by
  unfold inRange
  have : ¬ cur ≥ last + 1 := by omega
  rw [if_neg this, Nat.mod_eq_of_lt (by omega)]
  omega

/-- one iteration of the v1 loop whose (scripted) draw hits an already winning ticket: nothing
    changes but the generator and the consumed draw -/
theorem us3_spin_step (hash : List Nat → List Nat) (nrW last : Nat) (z : LCore) (raw : Nat)
    (rest : List Nat) (hfull : nrW + z.additional < last) (hlo : z.leftover ≠ 0)
    (hcur : z.status (idFromPos z.posToId (nrW + z.offset)) = false)
    (hhit : z.status (idFromPos z.posToId (inRange raw (nrW + z.offset) (last + 1))) = true)
    (hscr : z.d.script = raw :: rest) :
    leftCoreBody hash false nrW last z =
      .ok ({ z with rng := (z.rng.next hash).2, d := ⟨rest, z.d.log ++ [raw]⟩ }, true) := by
  obtain ⟨st, p, r, lo, off, add, ⟨scr, lg⟩⟩ := z
  simp only at hfull hlo hcur hhit hscr
  subst hscr
  have hc : ¬ nrW + add ≥ last := by omega
  unfold leftCoreBody
  simp only [hc, if_false, hlo, hcur, Bool.false_eq_true, DCtx.draw, hhit, if_true]

/-- **the v1 leftover loop with fuel `F`, for EVERY `F`**: from a loop state that still has a
    reserved ticket to place (`leftover ≠ 0`, not all tickets winning), whose current ticket is not
    winning, and whose next `F` scripted draws all equal a value `raw` that lands on an already
    winning ticket, the loop performs `F` iterations — unless the call's budget interrupts it
    earlier — and returns `outOfFuel`, having changed nothing but the generator -/
theorem us3_spin_loop (hash : List Nat → List Nat) (nrW last raw : Nat) :
    ∀ (F : Nat) (b : Option Nat) (z : LCore) (rest : List Nat),
      (∀ k, b = some k → F ≤ k) → nrW + z.additional < last → z.leftover ≠ 0 →
      z.status (idFromPos z.posToId (nrW + z.offset)) = false →
      z.status (idFromPos z.posToId (inRange raw (nrW + z.offset) (last + 1))) = true →
      z.d.script = List.replicate F raw ++ rest →
      ∃ z' b', runWhile (leftCoreBody hash false nrW last) F b z = .ok (z', b', .outOfFuel) ∧
        z'.d.script = rest ∧ z'.status = z.status ∧ z'.posToId = z.posToId ∧
        z'.offset = z.offset ∧ z'.leftover = z.leftover ∧ z'.additional = z.additional := by
  intro F
  induction F with
  | zero =>
    intro b z rest _ _ _ _ _ hscr
    exact ⟨z, b, runWhile_zero _ _ _, by simpa using hscr, rfl, rfl, rfl, rfl, rfl⟩
  | succ F ih =>
    intro b z rest hb hfull hlo hcur hhit hscr
    have hscr' : z.d.script = raw :: (List.replicate F raw ++ rest) := by
      rw [hscr, List.replicate_succ]; rfl
    have hstep := us3_spin_step hash nrW last z raw _ hfull hlo hcur hhit hscr'
    cases b with
    | none =>
      rw [runWhile_cont_none hstep]
      exact ih none _ rest (fun k hk => by cases hk) hfull hlo hcur hhit rfl
    | some k =>
      have hk := hb k rfl
      cases k with
      | zero => omega
      | succ k =>
        rw [runWhile_cont_succ hstep]
        exact ih (some k) _ rest
          (fun k' hk' => by simp only [Option.some.injEq] at hk'; omega) hfull hlo hcur hhit rfl

/-- **unconditional termination of the v1 leftover loop is false, for every fuel bound**: whenever
    the loop state still has a reserved ticket to place, its current ticket is not winning and
    some ticket at a later position `p ≤ last` is winning (one winning and one non-winning ticket
    in the part of the ticket space the loop draws from), then for EVERY fuel `F` there is a draw
    stream — `F` times the constant `p - (nrW + offset)` — on which the loop returns `outOfFuel` -/
theorem us3_v1_loop_may_spin (hash : List Nat → List Nat) (nrW last : Nat) (z : LCore) (p : Nat)
    (hfull : nrW + z.additional < last) (hlo : z.leftover ≠ 0)
    (hcur : z.status (idFromPos z.posToId (nrW + z.offset)) = false)
    (hp1 : nrW + z.offset ≤ p) (hp2 : p ≤ last) (hwin : z.status (idFromPos z.posToId p) = true) :
    ∀ F : Nat, ∃ script : List Nat, script.length = F ∧ (∀ x ∈ script, x = p - (nrW + z.offset)) ∧
      ∃ z', runWhile (leftCoreBody hash false nrW last) F none { z with d := ⟨script, z.d.log⟩ }
        = .ok (z', none, .outOfFuel) := by
  intro F
  refine ⟨List.replicate F (p - (nrW + z.offset)), List.length_replicate,
    fun x hx => List.eq_of_mem_replicate hx, ?_⟩
  obtain ⟨z', b', hrun, _⟩ := us3_spin_loop hash nrW last (p - (nrW + z.offset)) F none
    { z with d := ⟨List.replicate F (p - (nrW + z.offset)), z.d.log⟩ } []
    (fun k hk => by cases hk) hfull hlo hcur
    (by show z.status (idFromPos z.posToId (inRange (p - (nrW + z.offset)) (nrW + z.offset)
          (last + 1))) = true
        rw [us3_inRange_hit hp1 hp2]; exact hwin)
    (by simp)
  have hb' : b' = none := (runWhile_none_budget _ _ _ _ _ _ hrun).1
  subst hb'
  exact ⟨z', hrun⟩

/-- the same lifted to a `distribute` / `secondary` call: if the leftover loop of the call starts
    in such a state and the call's scripted draws begin with `v1LeftoverFuel` copies of a value
    that lands on an already winning ticket (and the budget left does not interrupt the loop
    earlier), the call SPINS -/
theorem us3_spins_of_start (hash : List Nat → List Nat) {s : State} {e : Env} {z0 : LCore}
    {b1 : Option Nat} (raw : Nat) (rest : List Nat)
    (hls : us2_leftStart s e = some (z0, b1)) (hb : ∀ k, b1 = some k → v1LeftoverFuel ≤ k)
    (hfull : s.nrWinning + z0.additional < s.lastTicketId) (hlo : z0.leftover ≠ 0)
    (hcur : z0.status (idFromPos z0.posToId (s.nrWinning + z0.offset)) = false)
    (hhit : z0.status (idFromPos z0.posToId
      (inRange raw (s.nrWinning + z0.offset) (s.lastTicketId + 1))) = true)
    (hscr : z0.d.script = List.replicate v1LeftoverFuel raw ++ rest) : us2_Spins hash s e := by
  obtain ⟨z', b', hrun, _⟩ := us3_spin_loop hash s.nrWinning s.lastTicketId raw v1LeftoverFuel b1 z0
    rest hb hfull hlo hcur hhit hscr
  exact ⟨z0, b1, z', b', hls, hrun⟩

end LP
