import LP.Proofs.RecipientsFrame
/-
  LP.Proofs.Recipients — WHO can receive anything from a transaction (C09 / C10 / C01).

  A. `rc_To X S L o`: every direct transfer of `o` goes to an address in `X`, every SFT hand-out to
     an address in `S`, every lock call is made for a destination in `L`; one lemma per helper
     that carries a `Tx`.
  B. `exec_quiet` (27 of the 31 endpoints move nothing), `exec_recipients` / `step_recipients`
     (the recipient sets `rcX`, `rcS`, `rcL` of `claim`, `claimPayment`, `blacklist`,
     `refundUsers`), any state, any variant.
  C. `rc_Out s a` ("`a` is out of the sale": no allocation record, not the owner, not the lock
     contract, no vesting record) ⇒ an accepted call in `s` sends nothing to `a` (`rc_Out.nothing`).
  D. `rc_Out` + "no batch names `a`, or the filter has completed" is preserved by every accepted
     call at a round `≥ cfg.sel` (any state with a valid timeline): `rc_Gone.step`.
  E. history forms (`be_Later`, `run`).
  F. `rc_BatchOwn` (every batch belongs to the record of its address) holds in every state reachable
     from a deployment, for all eight launchpads; hence `range a = none` gives "no batch names `a`".
  G. `rc_blacklisted_nothing` / `rc_blacklisted_nothing_later`: a blacklisted participant receives
     nothing (C10), from `be_Good`.
  H. `rc_covered_unclaimed`: reachable state of a vesting variant, not settled ⇒ `userTotal = 0`.
-/
namespace LP
open LP.Events LP.Props LP.Props.C17

/-! ## A. recipients of the three output channels -/

/-- every transfer goes to `X`, every SFT to `S`, every lock call has a destination in `L` -/
def rc_To (X S L : Nat → Prop) (o : Out) : Prop :=
  (∀ p ∈ o.xfers, X p.1) ∧ (∀ p ∈ o.sfts, S p.1) ∧ (∀ p ∈ o.locks, L p.2.1)

theorem rc_To_empty (X S L : Nat → Prop) : rc_To X S L {} := by
  refine ⟨?_, ?_, ?_⟩ <;> intro p hp <;> cases hp

theorem rc_To.mono {X S L X' S' L' : Nat → Prop} {o : Out} (h : rc_To X S L o)
    (hX : ∀ x, X x → X' x) (hS : ∀ x, S x → S' x) (hL : ∀ x, L x → L' x) : rc_To X' S' L' o :=
  ⟨fun p hp => hX _ (h.1 p hp), fun p hp => hS _ (h.2.1 p hp), fun p hp => hL _ (h.2.2 p hp)⟩

/-- the three output channels of `t'` are those of `t` -/
def rc_Same (t t' : Tx) : Prop :=
  t'.o.xfers = t.o.xfers ∧ t'.o.sfts = t.o.sfts ∧ t'.o.locks = t.o.locks

theorem rc_Same.refl (t : Tx) : rc_Same t t := ⟨rfl, rfl, rfl⟩

theorem rc_Same.trans {a b c : Tx} (h1 : rc_Same a b) (h2 : rc_Same b c) : rc_Same a c :=
  ⟨h2.1.trans h1.1, h2.2.1.trans h1.2.1, h2.2.2.trans h1.2.2⟩

theorem rc_Same.to {X S L : Nat → Prop} {t t' : Tx} (h : rc_Same t t') (ht : rc_To X S L t.o) :
    rc_To X S L t'.o := by
  obtain ⟨h1, h2, h3⟩ := h
  unfold rc_To
  rw [h1, h2, h3]
  exact ht

theorem rc_Same.of_draw {t t' : Tx} (h : DrawFrame t t') : rc_Same t t' :=
  ⟨h.2.2.2.2.1, h.2.2.2.2.2.2, h.2.2.2.2.2.1⟩

section helpers
variable {X S L : Nat → Prop}

theorem rc_send {t t' : Tx} {to : Nat} {p : Pay} (h : t.send to p = .ok t')
    (ht : rc_To X S L t.o) (hx : X to) : rc_To X S L t'.o := by
  obtain ⟨_, rfl⟩ := (send_ok_iff t to p t').mp h
  obtain ⟨h1, h2, h3⟩ := ht
  refine ⟨?_, h2, h3⟩
  intro q hq
  rcases List.mem_append.mp hq with hq | hq
  · exact h1 q hq
  · rw [List.mem_singleton] at hq; subst hq; exact hx

theorem rc_refund {t t' : Tx} {e : Env} {a n : Nat} (h : t.refund e a n = .ok t')
    (ht : rc_To X S L t.o) (hx : X a) : rc_To X S L t'.o := by
  obtain ⟨_, hxf, _, _, _, hlk, hsf⟩ := refund_out h
  obtain ⟨h1, h2, h3⟩ := ht
  refine ⟨?_, by rw [hsf]; exact h2, by rw [hlk]; exact h3⟩
  intro q hq
  rw [hxf] at hq
  rcases List.mem_append.mp hq with hq | hq
  · exact h1 q hq
  · split at hq
    · rw [List.mem_singleton] at hq; subst hq; exact hx
    · cases hq

theorem rc_sendLocked {t t' : Tx} {e : Env} {dest amount : Nat}
    (h : t.sendLocked e dest amount = .ok t') (ht : rc_To X S L t.o)
    (hd : X dest) (hl : X t.s.lockAddr) (hL : L dest) : rc_To X S L t'.o := by
  rw [sendLocked_eq_with] at h
  unfold sendLockedWith at h
  split at h
  · simp only [bind_ok_iff, pure_ok_iff] at h
    obtain ⟨t1, hs1, t2, rfl, h⟩ := h
    have h1 := rc_send hs1 ht hl
    have h2 : rc_To X S L
        ({ t1 with o := { t1.o with locks := t1.o.locks ++ [(t1.s.unlockEpoch, dest, lockedPart t e amount)] } } : Tx).o := by
      refine ⟨h1.1, h1.2.1, ?_⟩
      intro q hq
      rcases List.mem_append.mp hq with hq | hq
      · exact h1.2.2 q hq
      · rw [List.mem_singleton] at hq; subst hq; exact hL
    split at h
    · exact rc_send h h2 hd
    · simp only [pure_ok_iff] at h; subst h; exact h2
  · simp only [bind_ok_iff, pure_ok_iff] at h
    obtain ⟨t2, rfl, h⟩ := h
    split at h
    · exact rc_send h ht hd
    · simp only [pure_ok_iff] at h; subst h; exact ht

theorem rc_sendLaunchpadTokens {t t' : Tx} {e : Env} {addr n : Nat}
    (h : t.sendLaunchpadTokens e addr n = .ok t') (ht : rc_To X S L t.o) (hd : X addr)
    (hl : t.s.variant.hasLock = true → X t.s.lockAddr ∧ L addr) : rc_To X S L t'.o := by
  unfold Tx.sendLaunchpadTokens at h
  split at h
  · cases h; exact ht
  · simp only at h
    split at h
    · rename_i hlk
      exact rc_sendLocked h ht hd (hl hlk).1 (hl hlk).2
    · exact rc_send h ht hd

theorem rc_claimNft {t t' : Tx} {e : Env} (h : claimNft t e = .ok t') (ht : rc_To X S L t.o)
    (hx : X e.caller) (hs : S e.caller) : rc_To X S L t'.o := by
  obtain ⟨_, _, rfl⟩ := (claimNft_ok_iff t e t').mp h
  obtain ⟨e1, e2, e3, _⟩ := claimNftResult_effect t e
  obtain ⟨h1, h2, h3⟩ := ht
  refine ⟨?_, ?_, by rw [e3]; exact h3⟩
  · intro q hq
    rw [e2] at hq
    rcases List.mem_append.mp hq with hq | hq
    · exact h1 q hq
    · split at hq
      · rw [List.mem_singleton] at hq; subst hq; exact hx
      · cases hq
  · intro q hq
    rw [e1] at hq
    rcases List.mem_append.mp hq with hq | hq
    · exact h2 q hq
    · rw [List.mem_singleton] at hq; subst hq; exact hs

theorem rc_claimPay {v2 : Bool} {t t' : Tx} {e : Env} {c : Nat} (h : claimPay v2 t e c = .ok t')
    (ht : rc_To X S L t.o) (hx : X e.caller) : rc_To X S L t'.o := by
  unfold claimPay at h
  split at h
  · simp only [bind_ok_iff, pure_ok_iff] at h
    obtain ⟨t1, h1, rfl⟩ := h
    have := rc_send h1 ht hx
    cases v2 <;> exact this
  · simp only [pure_ok_iff] at h
    subst h; exact ht

theorem rc_claimSettle {t t' : Tx} {e : Env} (h : claimSettle t e = .ok t')
    (ht : rc_To X S L t.o) (hx : X e.caller) : rc_To X S L t'.o := by
  unfold claimSettle at h
  split at h
  · simp only [pure_ok_iff] at h; subst h; exact ht
  · simp only [bind_ok_iff, Prod.exists, pure_ok_iff] at h
    obtain ⟨s1, rd, rf, _, t1, h1, rfl⟩ := h
    have := rc_refund (X := X) (S := S) (L := L) h1 ht hx
    split <;> exact this

theorem rc_claimVested {t t' : Tx} {e : Env} (h : claimVested t e = .ok t')
    (ht : rc_To X S L t.o) (hx : X e.caller) : rc_To X S L t'.o := by
  have hb : ∀ v2, claimBody v2 t e = .ok t' → rc_To X S L t'.o := by
    intro v2 h
    unfold claimBody at h
    simp only [bind_ok_iff] at h
    obtain ⟨t1, h1, c, _, h2⟩ := h
    exact rc_claimPay h2 (rc_claimSettle h1 ht hx) hx
  rw [claimVested_eq] at h
  split at h
  · simp only [bind_ok_iff, req_ok_iff, exists_const] at h
    exact hb _ h.2
  · exact hb _ h

theorem rc_claimPaymentOwn {t t' : Tx} {e : Env} (h : claimPaymentOwn t e = .ok t')
    (ht : rc_To X S L t.o) (hx : X e.caller) : rc_To X S L t'.o := by
  unfold claimPaymentOwn at h
  simp only [bind_ok_iff, req_ok_iff, requireStage, exists_const] at h
  obtain ⟨_, h⟩ := h
  split at h
  · simp only [bind_ok_iff] at h
    obtain ⟨t1, h1, h⟩ := h
    have e1 : rc_To X S L t1.o := rc_send h1 ht hx
    split at h
    · simp only [pure_ok_iff] at h; subst h; exact e1
    · split at h
      · simp only [pure_ok_iff] at h; subst h; exact e1
      · exact rc_send h e1 hx
  · simp only [bind_ok_iff, pure_ok_iff] at h
    obtain ⟨a, rfl, h⟩ := h
    split at h
    · simp only [pure_ok_iff] at h; subst h; exact ht
    · split at h
      · simp only [pure_ok_iff] at h; subst h; exact ht
      · exact rc_send h ht hx

theorem rc_claimPaymentCommon {t t' : Tx} {e : Env} (h : claimPaymentCommon t e = .ok t')
    (ht : rc_To X S L t.o) (hx : X e.caller) : rc_To X S L t'.o := by
  unfold claimPaymentCommon at h
  simp only [bind_ok_iff, req_ok_iff, requireStage, exists_const] at h
  obtain ⟨_, h⟩ := h
  split at h
  · simp only [bind_ok_iff] at h
    obtain ⟨t1, h1, x, _, h⟩ := h
    have e1 : rc_To X S L t1.o := rc_send h1 ht hx
    split at h
    · exact rc_send h e1 hx
    · simp only [pure_ok_iff] at h; subst h; exact e1
  · simp only [bind_ok_iff, pure_ok_iff] at h
    obtain ⟨a, rfl, x, _, h⟩ := h
    split at h
    · exact rc_send h ht hx
    · simp only [pure_ok_iff] at h; subst h; exact ht

theorem rc_claimNftPayment {t t' : Tx} {e : Env} (h : claimNftPayment t e = .ok t')
    (ht : rc_To X S L t.o) (hx : X e.caller) : rc_To X S L t'.o := by
  unfold claimNftPayment at h
  simp only [bind_ok_iff, req_ok_iff, requireStage, exists_const] at h
  obtain ⟨_, h⟩ := h
  split at h
  · simp only [bind_ok_iff, pure_ok_iff] at h
    obtain ⟨t1, h1, rfl⟩ := h
    exact (rc_send h1 ht hx : rc_To X S L t1.o)
  · simp only [pure_ok_iff] at h; subst h; exact ht

/-- the NFT-fee refunds of a blacklisting go to listed users -/
theorem rc_refundNftMany : ∀ (l : List Nat) {t t' : Tx}, refundNftMany l t = .ok t' →
    rc_To X S L t.o → (∀ u ∈ l, X u) → rc_To X S L t'.o
  | [], t, t', h, ht, _ => by simp only [refundNftMany, Except.ok.injEq] at h; rw [← h]; exact ht
  | u :: rest, t, t', h, ht, hx => by
    unfold refundNftMany at h
    simp only at h
    have hrest : ∀ v ∈ rest, X v := fun v hv => hx v (List.mem_cons_of_mem _ hv)
    split at h
    · split at h
      · cases h
      · rename_i t1 h1
        exact rc_refundNftMany rest h (rc_send h1 ht (hx u (List.mem_cons_self ..))) hrest
    · exact rc_refundNftMany rest h ht hrest

end helpers

/-! ## B. every endpoint -/

/-- the four endpoints that can move anything out of the contract -/
def Call.pays : Call → Bool
  | .claim | .claimPayment | .blacklist _ | .refundUsers _ => true
  | _ => false

theorem rc_nftBody_frame (hash : List Nat → List Nat) (total : Nat) (t0 : Tx) (x x' : NSt) (c : Bool)
    (hp : DrawFrame t0 x.tx) (h : nftBody hash total x = .ok (x', c)) : DrawFrame t0 x'.tx := by
  unfold nftBody at h
  have hd := DrawFrame.draw hash x.tx x.rng
  split at h
  · cases h; exact hp
  · simp only at h
    split at h
    · cases h
    · cases h
      exact hp.trans hd

theorem rc_nftSubstep {hash : List Nat → List Nat} {t t' : Tx} {rng rng' : Rng} {st : LoopStatus}
    (h : nftSubstep hash t rng = .ok (t', rng', st)) : rc_Same t t' := by
  unfold nftSubstep at h
  simp only [bind_ok_iff, Prod.exists] at h
  obtain ⟨x, b, st0, hrun, hrest⟩ := h
  have hx : DrawFrame t x.tx :=
    runWhile_invariant _ (fun y : NSt => DrawFrame t y.tx)
      (fun y y' c hy hb => rc_nftBody_frame hash _ _ y y' c hy hb) _ _ _ _ (DrawFrame.refl t) hrun
  have hs := rc_Same.of_draw hx
  cases st0 with
  | outOfFuel => cases hrest
  | interrupted =>
    simp only [pure_ok_iff, Prod.mk.injEq] at hrest
    obtain ⟨rfl, _, _⟩ := hrest
    exact hs
  | completed =>
    simp only [pure_ok_iff, Prod.mk.injEq] at hrest
    obtain ⟨rfl, _, _⟩ := hrest
    exact hs

theorem rc_freshRng (t : Tx) : rc_Same t t.freshRng.2 := rc_Same.of_draw (DrawFrame.freshRng t)

theorem rc_guaranteedSubstep {hash : List Nat → List Nat} {t t' : Tx} {g g' : GuarOp}
    {st : LoopStatus} (h : guaranteedSubstep hash t g = .ok (t', g', st)) : rc_Same t t' := by
  obtain ⟨⟨_, _, _, hxf, hlk, hsf⟩, _⟩ := guaranteedSubstep_frame h
  exact ⟨hxf, hsf, hlk⟩

theorem rc_selectNft {hash : List Nat → List Nat} {t t' : Tx} {e : Env}
    (h : selectNft hash t e = .ok t') : rc_Same t t' := by
  unfold selectNft at h
  simp only [bind_ok_iff, req_ok_iff, requireStage, exists_const] at h
  obtain ⟨_, _, _, h⟩ := h
  split at h
  case h_3 => simp [bind, Except.bind] at h
  case h_4 => simp [bind, Except.bind] at h
  all_goals
    simp only [bind_ok_iff, pure_ok_iff, Prod.exists, Prod.mk.injEq] at h
    obtain ⟨rng, t0, ⟨_, ht0⟩, t1, rng', st, hsub, hfin⟩ := h
    have e0 : rc_Same t t0 := by
      first
        | (rw [← ht0]; exact rc_freshRng t)
        | (rw [← ht0]; exact rc_Same.refl _)
    have e1 := rc_nftSubstep hsub
    cases st <;>
      (simp only [pure_ok_iff] at hfin; subst hfin; exact (show rc_Same t t1 from e0.trans e1))

theorem rc_secondary {hash : List Nat → List Nat} {t t' : Tx} {e : Env}
    (h : secondary hash t e = .ok t') : rc_Same t t' := by
  unfold secondary at h
  simp only [bind_ok_iff, req_ok_iff, requireStage, exists_const] at h
  obtain ⟨_, _, _, h⟩ := h
  split at h
  case h_3 => simp [bind, Except.bind] at h
  all_goals
    simp only [bind_ok_iff, pure_ok_iff, Prod.exists, Prod.mk.injEq] at h
    obtain ⟨cur, t0, ⟨_, ht0⟩, hh⟩ := h
    have h0 : rc_Same t t0 := by
      first
        | (rw [← ht0]; exact rc_freshRng t)
        | (rw [← ht0]; exact rc_Same.refl _)
    clear ht0
    cases cur with
    | nft r =>
      simp only [bind_ok_iff, pure_ok_iff] at hh
      obtain ⟨_, rfl, hh⟩ := hh
      simp only [bind_ok_iff, Prod.exists] at hh
      obtain ⟨t2, rng', st, hsub, hfin⟩ := hh
      have h2 := rc_nftSubstep hsub
      cases st <;>
        (simp only [pure_ok_iff] at hfin; subst hfin; exact (show rc_Same t t2 from h0.trans h2))
    | guar g =>
      simp only [bind_ok_iff, Prod.exists] at hh
      obtain ⟨t1, g', st, hsub, hfin⟩ := hh
      have hg := rc_guaranteedSubstep hsub
      cases st with
      | completed =>
        simp only [bind_ok_iff, pure_ok_iff] at hfin
        obtain ⟨_, rfl, hfin⟩ := hfin
        simp only [bind_ok_iff, Prod.exists] at hfin
        obtain ⟨t2, rng', st2, hsub2, hfin⟩ := hfin
        have h2 := rc_nftSubstep hsub2
        have hfr : rc_Same t1 (t1.setS (creditAdditional t1.s g'.additional)).freshRng.2 :=
          rc_freshRng (t1.setS (creditAdditional t1.s g'.additional))
        cases st2 <;>
          (simp only [pure_ok_iff] at hfin; subst hfin
           exact (show rc_Same t t2 from ((h0.trans hg).trans hfr).trans h2))
      | interrupted =>
        simp only [bind_ok_iff, pure_ok_iff] at hfin
        obtain ⟨_, rfl, hfin⟩ := hfin
        simp only [pure_ok_iff] at hfin
        subst hfin
        exact (show rc_Same t t1 from h0.trans hg)
      | outOfFuel =>
        simp only [bind_ok_iff, pure_ok_iff] at hfin
        obtain ⟨_, rfl, hfin⟩ := hfin
        simp only [pure_ok_iff] at hfin
        subst hfin
        exact (show rc_Same t t1 from h0.trans hg)

/-- **27 of the 31 endpoints move nothing**: apart from `claim`, `claimPayment`, `blacklist` and
    `refundUsers`, an accepted endpoint body appends no transfer, no SFT hand-out, no lock call -/
theorem exec_quiet {hash : List Nat → List Nat} {t t' : Tx} {e : Env} {c : Call}
    (hc : c.pays = false) (h : exec hash t e c = .ok t') : rc_Same t t' := by
  cases c <;> simp only [Call.pays, Bool.true_eq_false] at hc
  case addTickets l =>
    simp only [exec, bind_ok_iff, pure_ok_iff] at h
    obtain ⟨_, _, s1, _, rfl⟩ := h; exact rc_Same.refl _
  case addTicketsV1 l =>
    simp only [exec, bind_ok_iff, pure_ok_iff] at h
    obtain ⟨s1, _, rfl⟩ := h; exact rc_Same.refl _
  case addTicketsV2 l =>
    simp only [exec, addTicketsV2, bind_ok_iff, pure_ok_iff, Prod.exists] at h
    obtain ⟨_, _, s1, tw, tg, uc, ta, ga, _, rfl⟩ := h; exact rc_Same.refl _
  case deposit =>
    simp only [exec, bind_ok_iff, pure_ok_iff] at h
    obtain ⟨s1, _, rfl⟩ := h; exact rc_Same.refl _
  case setTicketPrice tok a =>
    simp only [exec, bind_ok_iff, pure_ok_iff] at h
    obtain ⟨_, _, s1, _, rfl⟩ := h; exact rc_Same.refl _
  case setPerTicket amount =>
    simp only [exec, bind_ok_iff, pure_ok_iff] at h
    obtain ⟨_, _, _, _, _, _, rfl⟩ := h; exact rc_Same.refl _
  case setConfStart r =>
    simp only [exec, bind_ok_iff, pure_ok_iff] at h
    obtain ⟨_, _, _, _, rfl⟩ := h; exact rc_Same.refl _
  case setSelStart r =>
    simp only [exec, bind_ok_iff, pure_ok_iff] at h
    obtain ⟨_, _, _, _, rfl⟩ := h; exact rc_Same.refl _
  case setClaimStart r =>
    simp only [exec, bind_ok_iff, pure_ok_iff] at h
    obtain ⟨_, _, _, _, rfl⟩ := h; exact rc_Same.refl _
  case setSupport a => simp only [exec, pure_ok_iff] at h; subst h; exact rc_Same.refl _
  case pause => simp only [exec, pure_ok_iff] at h; subst h; exact rc_Same.refl _
  case unpause => simp only [exec, pure_ok_iff] at h; subst h; exact rc_Same.refl _
  case confirm n =>
    simp only [exec] at h
    unfold confirmTickets at h
    simp only [bind_ok_iff, pure_ok_iff, req_ok_iff, exists_const, Prod.exists] at h
    obtain ⟨_, _, _, _, _, _, _, _, _, _, _, _, _, rfl⟩ := h
    exact rc_Same.refl _
  case filter =>
    obtain ⟨h1, h2, h3, _⟩ := filterTickets_out (by simpa only [exec] using h)
    exact ⟨h1, h3, h2⟩
  case select =>
    obtain ⟨h1, h2, h3, _⟩ := selectWinners_out (by simpa only [exec] using h)
    exact ⟨h1, h3, h2⟩
  case unblacklist l =>
    obtain ⟨_, _, _, ho, _⟩ := exec_unblacklist_out h
    rw [rc_Same, ho]; exact ⟨rfl, rfl, rfl⟩
  case distribute =>
    obtain ⟨h1, h2, h3, _⟩ := distribute_out (by simpa only [exec] using h)
    exact ⟨h1, h3, h2⟩
  case setSchedule1 a b c d f =>
    simp only [exec, bind_ok_iff, pure_ok_iff] at h
    obtain ⟨s1, _, rfl⟩ := h; exact rc_Same.refl _
  case setSchedule2 l =>
    simp only [exec, setSchedule2, bind_ok_iff, pure_ok_iff] at h
    obtain ⟨_, _, _, _, _, _, rfl⟩ := h; exact rc_Same.refl _
  case confirmNft =>
    simp only [exec, bind_ok_iff, pure_ok_iff] at h
    obtain ⟨s1, _, rfl⟩ := h; exact rc_Same.refl _
  case selectNft => exact rc_selectNft h
  case secondary => exact rc_secondary h
  case setNftCost c =>
    simp only [exec, bind_ok_iff, pure_ok_iff] at h
    obtain ⟨_, _, _, _, rfl⟩ := h; exact rc_Same.refl _
  case issueSft =>
    simp only [exec, bind_ok_iff] at h
    obtain ⟨_, _, h⟩ := h
    cases h
  case createSfts =>
    simp only [exec, bind_ok_iff] at h
    obtain ⟨_, _, _, _, h⟩ := h
    cases h
  case setTransferRole o =>
    simp only [exec, bind_ok_iff] at h
    obtain ⟨_, _, h⟩ := h
    cases h
  case sftSetup => simp only [exec, pure_ok_iff] at h; subst h; exact rc_Same.refl _

/-! ### the four paying endpoints -/

/-- who may receive a direct transfer from an accepted call `c` made by `e.caller` in state `s` -/
def rcX (s : State) (e : Env) : Call → Nat → Prop
  | .claim, x => x = e.caller ∨ (x = s.lockAddr ∧ s.variant.hasLock = true)
  | .claimPayment, x => x = e.caller
  | .blacklist l, x => x ∈ l ∧ (s.range x).isSome = true ∧ s.blacklist x = false
  | .refundUsers l, x => x ∈ l ∧ (s.range x).isSome = true ∧ s.blacklist x = false
  | _, _ => False

/-- who may be handed an SFT -/
def rcS (s : State) (e : Env) : Call → Nat → Prop
  | .claim, x => x = e.caller ∧ s.variant.hasNft = true
  | _, _ => False

/-- for whom tokens may be locked -/
def rcL (s : State) (e : Env) : Call → Nat → Prop
  | .claim, x => x = e.caller ∧ s.variant.hasLock = true
  | _, _ => False

theorem rc_blTx {X S L : Nat → Prop} {t : Tx} {e : Env} {l : List Nat} (ht : rc_To X S L t.o)
    (hx : ∀ u ∈ l, X u) : rc_To X S L (blTx t e l).o := by
  obtain ⟨h1, h2, h3⟩ := ht
  refine ⟨?_, h2, h3⟩
  intro q hq
  rcases List.mem_append.mp hq with hq | hq
  · exact h1 q hq
  · obtain ⟨u, hu, hq⟩ := List.mem_filterMap.mp hq
    unfold blXfer at hq
    split at hq
    · cases hq; exact hx u hu
    · cases hq

theorem rc_exec_blacklist {hash : List Nat → List Nat} {X S L : Nat → Prop} {t t' : Tx} {e : Env}
    {l : List Nat} (h : exec hash t e (.blacklist l) = .ok t') (ht : rc_To X S L t.o)
    (hX : ∀ x, rcX t.s e (.blacklist l) x → X x) : rc_To X S L t'.o := by
  rw [exec_blacklist_eq] at h
  simp only [bind_ok_iff, pure_ok_iff] at h
  obtain ⟨t1, h1, t2, h2, t3, h3, rfl⟩ := h
  obtain ⟨_, _, _, hall, _, rfl⟩ := (addUsersToBlacklist_ok_iff _ _ _ _).mp h1
  have hx : ∀ u ∈ l, X u := fun u hu => hX u ⟨hu, (hall u hu).2, (hall u hu).1⟩
  have e1 : rc_To X S L (blTx t e l).o := rc_blTx ht hx
  have e2 : rc_To X S L t2.o := by
    unfold blHookG at h2
    split at h2
    · simp only [bind_ok_iff, pure_ok_iff] at h2
      obtain ⟨s1, _, rfl⟩ := h2; exact e1
    · split at h2
      · simp only [bind_ok_iff, pure_ok_iff] at h2
        obtain ⟨s1, _, rfl⟩ := h2; exact e1
      · simp only [pure_ok_iff] at h2; subst h2; exact e1
  have e3 : rc_To X S L t3.o := by
    unfold blHookN at h3
    split at h3
    · exact rc_refundNftMany l h3 e2 hx
    · simp only [pure_ok_iff] at h3; subst h3; exact e2
  unfold blHookE
  split
  · exact e3
  · exact e3

/-- **recipients, endpoint bodies**: whatever an accepted endpoint body appends to the three
    output channels goes to `rcX` / `rcS` / `rcL` -/
theorem exec_recipients {hash : List Nat → List Nat} {X S L : Nat → Prop} {t t' : Tx} {e : Env}
    {c : Call} (h : exec hash t e c = .ok t') (ht : rc_To X S L t.o)
    (hX : ∀ x, rcX t.s e c x → X x) (hS : ∀ x, rcS t.s e c x → S x)
    (hL : ∀ x, rcL t.s e c x → L x) : rc_To X S L t'.o := by
  cases hp : c.pays with
  | false => exact (exec_quiet hp h).to ht
  | true =>
    cases c <;> simp only [Call.pays, Bool.false_eq_true] at hp
    case claim =>
      have hx : X e.caller := hX _ (Or.inl rfl)
      cases hv : t.s.variant.vested
      · rw [exec_claim_nonvested hash t e hv] at h
        unfold claimBase at h
        simp only [bind_ok_iff] at h
        obtain ⟨x, hset, t1, href, t2, hsend, hfin⟩ := h
        obtain ⟨s1, rd, rf⟩ := x
        have ht1 : t1.s.terms = t.s.terms := (Tx.refund_terms href).trans (settle_terms hset)
        have ht2 : t2.s.terms = t.s.terms := (Tx.sendLaunchpadTokens_terms hsend).trans ht1
        have e1 : rc_To X S L t1.o := rc_refund href ht hx
        have e2 : rc_To X S L t2.o := by
          refine rc_sendLaunchpadTokens hsend e1 hx ?_
          intro hlk
          rw [terms_variant ht1] at hlk
          have hla : t1.s.lockAddr = t.s.lockAddr := congrArg Terms.lockAddr ht1
          rw [hla]
          exact ⟨hX _ (Or.inr ⟨rfl, hlk⟩), hL _ ⟨rfl, hlk⟩⟩
        split at hfin
        · rename_i hn
          rw [terms_variant ht2] at hn
          exact rc_claimNft hfin e2 hx (hS _ ⟨rfl, hn⟩)
        · simp only [pure_ok_iff] at hfin; subst hfin; exact e2
      · rw [exec_claim_vested hash t e hv] at h
        exact rc_claimVested h ht hx
    case claimPayment =>
      have hx : X e.caller := hX _ rfl
      simp only [exec] at h
      split at h
      · exact rc_claimPaymentOwn h ht hx
      · simp only [bind_ok_iff] at h
        obtain ⟨t1, h1, h2⟩ := h
        have e1 := rc_claimPaymentCommon h1 ht hx
        split at h2
        · exact rc_claimNftPayment h2 e1 hx
        · simp only [pure_ok_iff] at h2; subst h2; exact e1
    case blacklist l => exact rc_exec_blacklist h ht hX
    case refundUsers l =>
      obtain ⟨h1, ho, _, _⟩ := exec_refundUsers_out h
      obtain ⟨_, _, _, hall, _, _⟩ := (addUsersToBlacklist_ok_iff _ _ _ _).mp h1
      rw [ho]
      exact rc_blTx ht (fun u hu => hX u ⟨hu, (hall u hu).2, (hall u hu).1⟩)

theorem rcX_credit (s : State) (e : Env) (c : Call) : rcX (creditPayments s e) e c = rcX s e c := by
  cases c <;> rfl
theorem rcS_credit (s : State) (e : Env) (c : Call) : rcS (creditPayments s e) e c = rcS s e c := by
  cases c <;> rfl
theorem rcL_credit (s : State) (e : Env) (c : Call) : rcL (creditPayments s e) e c = rcL s e c := by
  cases c <;> rfl

/-- **recipients of a transaction** (any state, any variant, no reachability): every transfer of
    an accepted call goes to `rcX s e c`, every SFT to `rcS s e c`, every lock call is made for
    `rcL s e c` -/
theorem step_recipients {hash : List Nat → List Nat} {s s' : State} {e : Env} {c : Call} {o : Out}
    (h : step hash s e c = .ok (s', o)) : rc_To (rcX s e c) (rcS s e c) (rcL s e c) o := by
  obtain ⟨m, t, _, _, _, hx, _, rfl⟩ := step_ok_inv h
  refine exec_recipients hx (rc_To_empty _ _ _) ?_ ?_ ?_
  · intro x hx'; rw [show (tx0 s e).s = creditPayments s e from rfl, rcX_credit] at hx'; exact hx'
  · intro x hx'; rw [show (tx0 s e).s = creditPayments s e from rfl, rcS_credit] at hx'; exact hx'
  · intro x hx'; rw [show (tx0 s e).s = creditPayments s e from rfl, rcL_credit] at hx'; exact hx'

/-- an endpoint other than the four paying ones moves nothing at all -/
theorem step_quiet {hash : List Nat → List Nat} {s s' : State} {e : Env} {c : Call} {o : Out}
    (h : step hash s e c = .ok (s', o)) (hc : c.pays = false) :
    o.xfers = [] ∧ o.sfts = [] ∧ o.locks = [] := by
  obtain ⟨m, t, _, _, _, hx, _, rfl⟩ := step_ok_inv h
  exact exec_quiet hc hx

theorem rc_nil_of_false {α : Type} {l : List α} (h : ∀ p ∈ l, False) : l = [] := by
  cases l with
  | nil => rfl
  | cons a r => exact (h a (List.mem_cons_self ..)).elim

/-- the owner-only dispatcher check: an accepted `claimPayment` was sent by the owner -/
theorem step_claimPayment_owner {hash : List Nat → List Nat} {s s' : State} {e : Env} {o : Out}
    (h : step hash s e .claimPayment = .ok (s', o)) : e.caller = s.owner := by
  obtain ⟨m, t, hm, _, ho, _⟩ := step_ok_inv h
  simp only [endpointMeta, Option.some.injEq] at hm
  subst hm
  exact ho rfl

/-! ## C. an account that is out of the sale receives nothing from an accepted call -/

/-- nothing in `o` is addressed to `a`: no transfer, no SFT, no lock call -/
def rc_NothingTo (a : Nat) (o : Out) : Prop :=
  (∀ p ∈ o.xfers, p.1 ≠ a) ∧ (∀ p ∈ o.sfts, p.1 ≠ a) ∧ (∀ p ∈ o.locks, p.2.1 ≠ a)

/-- `a` is out of the sale in `s`: no allocation record (never allocated, filtered out, blacklisted
    and filtered, or already settled), not the owner, not the lock contract and — in the two vesting
    variants — no vesting record -/
structure rc_Out (s : State) (a : Nat) : Prop where
  range : s.range a = none
  owner : a ≠ s.owner
  lock : s.variant.hasLock = true → a ≠ s.lockAddr
  vest : s.variant.vested = true → s.userTotal a = 0

theorem rc_vested_flags {v : Variant} (h : v.vested = true) : v.hasNft = false ∧ v.hasLock = false := by
  cases v <;> first | exact ⟨rfl, rfl⟩ | cases h

/-- the part of the argument that does not look at a claim made by `a` itself -/
theorem rc_nothing_of {hash : List Nat → List Nat} {s s' : State} {e : Env} {c : Call} {o : Out} {a : Nat}
    (h : step hash s e c = .ok (s', o)) (ho : a ≠ s.owner)
    (hl : s.variant.hasLock = true → a ≠ s.lockAddr)
    (hb : ∀ l, (c = .blacklist l ∨ c = .refundUsers l) → a ∈ l →
      (s.range a).isSome = true → s.blacklist a = false → False)
    (hc : c = .claim → e.caller ≠ a) : rc_NothingTo a o := by
  have hr := step_recipients h
  show rc_To (fun x => x ≠ a) (fun x => x ≠ a) (fun x => x ≠ a) o
  refine hr.mono ?_ ?_ ?_
  · intro x hx hxa
    subst hxa
    cases c <;> try exact hx
    case claim =>
      rcases hx with hx | ⟨hx, hk⟩
      · exact hc rfl hx.symm
      · exact hl hk hx
    case claimPayment =>
      have hx' : x = e.caller := hx
      exact ho (hx'.trans (step_claimPayment_owner h))
    case blacklist l => exact hb l (Or.inl rfl) hx.1 hx.2.1 hx.2.2
    case refundUsers l => exact hb l (Or.inr rfl) hx.1 hx.2.1 hx.2.2
  · intro x hx hxa
    subst hxa
    cases c <;> try exact hx
    case claim => exact hc rfl hx.1.symm
  · intro x hx hxa
    subst hxa
    cases c <;> try exact hx
    case claim => exact hc rfl hx.1.symm

/-- **an account out of the sale obtains nothing** — ANY state of ANY variant, any accepted call by
    ANYBODY: no transfer, no SFT and no lock call is addressed to `a` -/
theorem rc_Out.nothing {hash : List Nat → List Nat} {s s' : State} {e : Env} {c : Call} {o : Out} {a : Nat}
    (ha : rc_Out s a) (h : step hash s e c = .ok (s', o)) : rc_NothingTo a o := by
  by_cases hca : c = .claim ∧ e.caller = a
  · obtain ⟨rfl, rfl⟩ := hca
    obtain ⟨hv, hcl⟩ := C10.no_range_cannot_claim hash s e (s', o) ha.range h
    obtain ⟨c', hc', hxf, _⟩ := C09.vested_repeat_claim hash s e s' o hv hcl h
    have hc0 : c' = 0 := by
      unfold claimableV claimable2 claimable1 at hc'
      simp only [ha.vest hv, if_true] at hc'
      split at hc' <;> (injection hc' with hc'; exact hc'.symm)
    have hr := step_recipients h
    obtain ⟨hn, hk⟩ := rc_vested_flags hv
    refine ⟨?_, ?_, ?_⟩
    · intro p hp; rw [hxf, hc0] at hp; simp at hp
    · intro p hp
      have := (hr.2.1 p hp).2
      rw [hn] at this; cases this
    · intro p hp
      have := (hr.2.2 p hp).2
      rw [hk] at this; cases this
  · refine rc_nothing_of h ha.owner ha.lock ?_ ?_
    · intro l _ _ hs _
      rw [ha.range] at hs; cases hs
    · intro hc he
      exact hca ⟨hc, he⟩

/-! ## D. being out of the sale is permanent once winner selection has started -/

/-- no batch record names `a` -/
def rc_NoBatch (s : State) (a : Nat) : Prop := ∀ id b, s.batch id = some b → b.addr ≠ a

/-- `a` is out of the sale for good: out of the sale, and the filter can no longer give `a` a
    record — it has completed, or no batch names `a` -/
structure rc_Gone (s : State) (a : Nat) : Prop where
  out : rc_Out s a
  batch : s.flags.filtered = true ∨ rc_NoBatch s a

theorem rc_step_ids {hash : List Nat → List Nat} {s s' : State} {e : Env} {c : Call} {o : Out}
    (h : step hash s e c = .ok (s', o)) :
    s'.owner = s.owner ∧ s'.variant = s.variant ∧ s'.lockAddr = s.lockAddr := by
  rcases step_static_cases h with ⟨_, h1⟩ | ⟨_, h1⟩
  · have ht := static_terms h1
    exact ⟨terms_owner ht, terms_variant ht, congrArg Terms.lockAddr ht⟩
  · rw [h1]; cases c <;> exact ⟨rfl, rfl, rfl⟩

/-- one iteration of the filter loop neither creates a record for `a` nor a batch naming `a` -/
theorem rc_filterBody_keeps (conf : Nat → Nat) (last a : Nat) (f f' : FilSt) (c : Bool)
    (hp : f.range a = none ∧ ∀ id b, f.batch id = some b → b.addr ≠ a)
    (h : filterBody conf last f = .ok (f', c)) :
    f'.range a = none ∧ ∀ id b, f'.batch id = some b → b.addr ≠ a := by
  obtain ⟨hr, hb⟩ := hp
  unfold filterBody at h
  split at h
  · cases h; exact ⟨hr, hb⟩
  · cases hb0 : f.batch f.first with
    | none => simp [hb0] at h
    | some b0 =>
      have hne : a ≠ b0.addr := fun h' => hb _ _ hb0 h'.symm
      simp only [hb0, csub] at h
      by_cases hle : conf b0.addr ≤ b0.n
      · simp only [if_pos hle] at h
        by_cases h0 : conf b0.addr = 0
        · rw [if_pos h0] at h
          cases h
          refine ⟨?_, ?_⟩
          · show upd f.range b0.addr none a = none
            rw [upd_other _ _ _ _ hne]; exact hr
          · intro id b hid
            have hid' : upd f.batch f.first none id = some b := hid
            rw [upd_apply] at hid'
            split at hid'
            · cases hid'
            · exact hb id b hid'
        · rw [if_neg h0] at h
          by_cases h1 : f.removed > 0 ∨ conf b0.addr < b0.n
          · rw [if_pos h1] at h
            by_cases hrem : f.removed ≤ f.first
            · simp only [if_pos hrem] at h
              cases h
              refine ⟨?_, ?_⟩
              · show upd f.range b0.addr _ a = none
                rw [upd_other _ _ _ _ hne]; exact hr
              · intro id b hid
                have hid' : upd (upd f.batch f.first none) (f.first - f.removed)
                    (some ⟨b0.addr, conf b0.addr⟩) id = some b := hid
                rw [upd_apply] at hid'
                split at hid'
                · cases hid'; exact fun h' => hne h'.symm
                · rw [upd_apply] at hid'
                  split at hid'
                  · cases hid'
                  · exact hb id b hid'
            · simp only [if_neg hrem] at h
              cases h
          · rw [if_neg h1] at h
            cases h; exact ⟨hr, hb⟩
      · simp only [if_neg hle] at h
        cases h

/-- **permanence**: an accepted call at a round `≥ cfg.sel` (valid timeline; ANY state of ANY
    variant) keeps `a` out of the sale for good -/
theorem rc_Gone.step {hash : List Nat → List Nat} {s s' : State} {e : Env} {c : Call} {o : Out} {a : Nat}
    (hg : rc_Gone s a) (hv : validPeriods s.cfg = true) (hr : s.cfg.sel ≤ e.round)
    (h : step hash s e c = .ok (s', o)) : rc_Gone s' a := by
  obtain ⟨ho, hvar, hla⟩ := rc_step_ids h
  have key : s'.range a = none ∧ (s.variant.vested = true → s'.userTotal a = 0) ∧
      (s'.flags.filtered = true ∨ rc_NoBatch s' a) := by
    cases hw : c.writesRB with
    | false =>
      have hrb := step_rb h hw
      refine ⟨by rw [rb_range hrb]; exact hg.out.range,
        fun hvs => by rw [rb_userTotal hrb]; exact hg.out.vest hvs, ?_⟩
      rcases hg.batch with hf | hn
      · exact Or.inl (by rw [rb_filtered hrb]; exact hf)
      · exact Or.inr (by unfold rc_NoBatch; rw [rb_batch hrb]; exact hn)
    | true =>
      have hst := be_stage_late hv hr
      cases c <;> simp only [Call.writesRB, Bool.false_eq_true] at hw
      case addTickets l =>
        exact absurd (C06.alloc_only_in_addTickets hash s e _ _ (Or.inl ⟨l, rfl⟩) h) hst.1
      case addTicketsV1 l =>
        exact absurd (C06.alloc_only_in_addTickets hash s e _ _ (Or.inr (Or.inl ⟨l, rfl⟩)) h) hst.1
      case addTicketsV2 l =>
        exact absurd (C06.alloc_only_in_addTickets hash s e _ _ (Or.inr (Or.inr ⟨l, rfl⟩)) h) hst.1
      case filter =>
        have hnf := (C06.filter_gate hash s e _ h).2
        obtain ⟨hut, _, fuel, first, removed, f, b, st, hrun, hrg, hbt⟩ := step_filter_rb h
        rcases hg.batch with hf | hn
        · rw [hnf] at hf; cases hf
        · have := runWhile_invariant _
            (fun y : FilSt => y.range a = none ∧ ∀ id b, y.batch id = some b → b.addr ≠ a)
            (fun y y' c hy hb => rc_filterBody_keeps _ _ a y y' c hy hb) _ _ _ _
            ⟨hg.out.range, (show ∀ id b, s.batch id = some b → b.addr ≠ a from hn)⟩ hrun
          refine ⟨by rw [hrg]; exact this.1, fun hvs => by rw [hut]; exact hg.out.vest hvs,
            Or.inr ?_⟩
          unfold rc_NoBatch; rw [hbt]; exact this.2
      case claim =>
        obtain ⟨hfl, hut, hcase⟩ := step_claim_rb h
        rcases hcase with ⟨h1, h2, h3⟩ | ⟨r, hrc, h1, h2⟩
        · refine ⟨by rw [h1]; exact hg.out.range, fun hvs => by rw [h3]; exact hg.out.vest hvs, ?_⟩
          rcases hg.batch with hf | hn
          · exact Or.inl (by rw [hfl]; exact hf)
          · exact Or.inr (by unfold rc_NoBatch; rw [h2]; exact hn)
        · have hne : a ≠ e.caller := by
            intro h'; rw [← h', hg.out.range] at hrc; cases hrc
          refine ⟨by rw [h1, upd_other _ _ _ _ hne]; exact hg.out.range,
            fun hvs => by rw [hut a hne]; exact hg.out.vest hvs, ?_⟩
          rcases hg.batch with hf | hn
          · exact Or.inl (by rw [hfl]; exact hf)
          · refine Or.inr ?_
            intro id b hid
            rw [h2, upd_apply] at hid
            split at hid
            · cases hid
            · exact hn id b hid
  exact ⟨⟨key.1, by rw [ho]; exact hg.out.owner, by rw [hvar, hla]; exact hg.out.lock,
    by rw [hvar]; exact key.2.1⟩, key.2.2⟩

/-! ## E. histories -/

/-- along any history from a state in which winner selection has started (valid timeline; ANY
    state of ANY variant, `P` arbitrary) an account that is out of the sale for good stays so -/
theorem rc_gone_later {P : Env → Call → Prop} {hash : List Nat → List Nat} {s s1 : State} {r r1 : Nat}
    {a : Nat} (hv : validPeriods s.cfg = true) (hsel : s.cfg.sel ≤ r) (hg : rc_Gone s a)
    (hl : be_Later P hash s r s1 r1) : rc_Gone s1 a ∧ be_Frozen s s1 r1 := by
  induction hl with
  | refl => exact ⟨hg, ⟨hv, rfl, hsel, rfl⟩⟩
  | call sa ra e c sb o _ h1 _ h3 ih =>
    obtain ⟨ig, ifr⟩ := ih
    have hs : sa.cfg.sel ≤ e.round := by rw [ifr.sel]; exact Nat.le_trans ifr.reached h1
    exact ⟨ig.step ifr.valid hs h3, ifr.step h1 h3⟩
  | wait sa ra rb _ h1 ih => exact ⟨ih.1, ih.2.wait h1⟩

/-- **nothing, ever** (`Later` form, ANY state of ANY variant with a valid timeline): once winner
    selection has started, an account that is out of the sale for good receives nothing from any
    transaction by anybody in any later state -/
theorem rc_nothing_later {P : Env → Call → Prop} {hash : List Nat → List Nat} {s s1 s2 : State}
    {r r1 : Nat} {a : Nat} (hv : validPeriods s.cfg = true) (hsel : s.cfg.sel ≤ r) (hg : rc_Gone s a)
    (hl : be_Later P hash s r s1 r1) {e : Env} {c : Call} {o : Out}
    (h : step hash s1 e c = .ok (s2, o)) : rc_NothingTo a o :=
  (rc_gone_later hv hsel hg hl).1.out.nothing h

/-- **nothing, ever** (`run` form): after any history `p` with non-decreasing rounds (rejected
    transactions allowed), any accepted call sends nothing to `a`; applied to the prefixes of a
    history this covers every transaction of the history itself -/
theorem rc_nothing_run {hash : List Nat → List Nat} {s s2 : State} {r : Nat} {a : Nat}
    (hv : validPeriods s.cfg = true) (hsel : s.cfg.sel ≤ r) (hg : rc_Gone s a)
    (p : Hist) (hr : RoundsFrom r p) {e : Env} {c : Call} {o : Out}
    (h : step hash (run hash s p) e c = .ok (s2, o)) : rc_NothingTo a o := by
  obtain ⟨r', hl, _⟩ := be_later_run (P := fun _ _ => True) hash p s r hr (fun _ _ => trivial)
  exact rc_nothing_later hv hsel hg hl h

/-! ## F. every batch belongs to the record of its address (all reachable states) -/

/-- every batch record `batch id = ⟨u, n⟩` is backed by the allocation record of `u`, which starts
    at `id` -/
def rc_BO (range : Nat → Option Range) (batch : Nat → Option Batch) : Prop :=
  ∀ id b, batch id = some b → ∃ r, range b.addr = some r ∧ r.first = id

def rc_BatchOwn (s : State) : Prop := rc_BO s.range s.batch

theorem rc_BO_erase {range : Nat → Option Range} {batch : Nat → Option Batch} (h : rc_BO range batch)
    {u : Nat} {r : Range} (hr : range u = some r) :
    rc_BO (upd range u none) (upd batch r.first none) := by
  intro id b hid
  rw [upd_apply] at hid
  split at hid
  · cases hid
  · rename_i hne
    obtain ⟨r', hr', hf⟩ := h id b hid
    have hu : b.addr ≠ u := by
      intro h'
      rw [h', hr] at hr'
      injection hr' with hr'
      rw [hr'] at hne
      exact hne hf.symm
    exact ⟨r', by rw [upd_other _ _ _ _ hu]; exact hr', hf⟩

theorem rc_BO_move {range : Nat → Option Range} {batch : Nat → Option Batch} (h : rc_BO range batch)
    {u : Nat} {r : Range} (hr : range u = some r) (nf nl n : Nat) :
    rc_BO (upd range u (some ⟨nf, nl⟩)) (upd (upd batch r.first none) nf (some ⟨u, n⟩)) := by
  intro id b hid
  rw [upd_apply] at hid
  split at hid
  · rename_i hid'
    cases hid
    exact ⟨⟨nf, nl⟩, upd_same _ _ _, hid'.symm⟩
  · rw [upd_apply] at hid
    split at hid
    · cases hid
    · rename_i hne
      obtain ⟨r', hr', hf⟩ := h id b hid
      have hu : b.addr ≠ u := by
        intro h'
        rw [h', hr] at hr'
        injection hr' with hr'
        rw [hr'] at hne
        exact hne hf.symm
      exact ⟨r', by rw [upd_other _ _ _ _ hu]; exact hr', hf⟩

theorem rc_tryCreateTickets_bo {s s' : State} {a n : Nat} (h : tryCreateTickets s a n = .ok s')
    (hb : rc_BatchOwn s) : rc_BatchOwn s' := by
  unfold tryCreateTickets at h
  simp only [bind_ok_iff, pure_ok_iff, req_ok_iff, exists_const] at h
  obtain ⟨hnone, _, rfl⟩ := h
  intro id b hid
  have hid' : upd s.batch (s.lastTicketId + 1) (some ⟨a, n⟩) id = some b := hid
  rw [upd_apply] at hid'
  split at hid'
  · rename_i hid''
    cases hid'
    exact ⟨_, upd_same _ _ _, hid''.symm⟩
  · obtain ⟨r', hr', hf⟩ := hb id b hid'
    have hu : b.addr ≠ a := by
      intro h'
      rw [h'] at hr'
      rw [hr'] at hnone
      cases hnone
    exact ⟨r', by show upd s.range a _ b.addr = _; rw [upd_other _ _ _ _ hu]; exact hr', hf⟩

theorem rc_createMany_bo : ∀ (l : List (Nat × Nat)) {s s' : State}, createMany l s = .ok s' →
    rc_BatchOwn s → rc_BatchOwn s'
  | [], s, s', h, hb => by simp only [createMany, Except.ok.injEq] at h; rw [← h]; exact hb
  | (a, n) :: rest, s, s', h, hb => by
    unfold createMany at h
    cases h1 : tryCreateTickets s a n with
    | error e => simp [h1] at h
    | ok s1 =>
      simp only [h1] at h
      exact rc_createMany_bo rest h (rc_tryCreateTickets_bo h1 hb)

theorem rc_addV1Many_bo : ∀ (l : List (Nat × Nat × Nat × Bool)) {acc acc' : State × Nat × Nat},
    addV1Many l acc = .ok acc' → rc_BatchOwn acc.1 → rc_BatchOwn acc'.1
  | [], acc, acc', h, hb => by simp only [addV1Many, Except.ok.injEq] at h; rw [← h]; exact hb
  | (buyer, staking, energy, migrated) :: rest, (s, tw, tg), acc', h, hb => by
    unfold addV1Many at h
    cases h1 : tryCreateTickets s buyer (staking + energy) with
    | error e => simp [h1] at h
    | ok s1 =>
      simp only [h1] at h
      have hb1 : rc_BatchOwn s1 := rc_tryCreateTickets_bo h1 hb
      repeat' (split at h)
      all_goals first
        | (cases h; done)
        | exact rc_addV1Many_bo rest h hb1

theorem rc_addV2Many_bo (e : Env) : ∀ (l : List (Nat × Nat × List (Nat × Nat)))
    {acc acc' : State × Nat × Nat × Nat × Nat × Nat},
    addV2Many e l acc = .ok acc' → rc_BatchOwn acc.1 → rc_BatchOwn acc'.1
  | [], acc, acc', h, hb => by simp only [addV2Many, Except.ok.injEq] at h; rw [← h]; exact hb
  | (buyer, n, infos) :: rest, (s, tw, tg, uc, ta, ga), acc', h, hb => by
    unfold addV2Many at h
    split at h
    · exact rc_addV2Many_bo e rest h hb
    · split at h
      · cases h
      · split at h
        · cases h
        · split at h
          · cases h
          · cases h1 : tryCreateTickets s buyer n with
            | error err => simp [h1] at h
            | ok s1 =>
              simp only [h1] at h
              have hb1 : rc_BatchOwn s1 := rc_tryCreateTickets_bo h1 hb
              split at h
              · cases h
              · split at h
                · split at h
                  · cases h
                  · exact rc_addV2Many_bo e rest h hb1
                · exact rc_addV2Many_bo e rest h hb1

theorem rc_filterBody_bo (conf : Nat → Nat) (last : Nat) (f f' : FilSt) (c : Bool)
    (hp : rc_BO f.range f.batch) (h : filterBody conf last f = .ok (f', c)) :
    rc_BO f'.range f'.batch := by
  unfold filterBody at h
  split at h
  · cases h; exact hp
  · cases hb0 : f.batch f.first with
    | none => simp [hb0] at h
    | some b0 =>
      obtain ⟨r0, hr0, hf0⟩ := hp _ _ hb0
      simp only [hb0, csub] at h
      by_cases hle : conf b0.addr ≤ b0.n
      · simp only [if_pos hle] at h
        by_cases h0 : conf b0.addr = 0
        · rw [if_pos h0] at h
          cases h
          have := rc_BO_erase hp hr0
          rw [hf0] at this
          exact this
        · rw [if_neg h0] at h
          by_cases h1 : f.removed > 0 ∨ conf b0.addr < b0.n
          · rw [if_pos h1] at h
            by_cases hrem : f.removed ≤ f.first
            · simp only [if_pos hrem] at h
              cases h
              have := rc_BO_move hp hr0 (f.first - f.removed)
                (f.first - f.removed + conf b0.addr - 1) (conf b0.addr)
              rw [hf0] at this
              exact this
            · simp only [if_neg hrem] at h
              cases h
          · rw [if_neg h1] at h
            cases h; exact hp
      · simp only [if_neg hle] at h
        cases h

theorem rc_init_batch {v : Variant} {a : InitArgs} {e : Env} {s : State} (h : init v a e = .ok s) :
    s.batch = fun _ => none := by
  unfold init at h
  cases v <;>
    simp only [Variant.hasNft, Variant.v1Alloc, Variant.hasLock, bind_ok_iff, req_ok_iff, pure_ok_iff, pure_bind,
      exists_const, if_true, if_false, Bool.false_eq_true, beq_self_eq_true, reduceCtorEq, decide_eq_true_eq,
      bne_iff_ne, ne_eq, not_false_eq_true, beq_iff_eq, bne_self_eq_false] at h
  all_goals
    repeat (cases h with | intro _ h)
    subst h
    rfl

theorem rc_init_bo {v : Variant} {a : InitArgs} {e : Env} {s : State} (h : init v a e = .ok s) :
    rc_BatchOwn s := by
  intro id b hid
  rw [rc_init_batch h] at hid
  cases hid

/-- `rc_BatchOwn` is preserved by every accepted call (ANY state of ANY variant) -/
theorem rc_BatchOwn.step {hash : List Nat → List Nat} {s s' : State} {e : Env} {c : Call} {o : Out}
    (hb : rc_BatchOwn s) (h : step hash s e c = .ok (s', o)) : rc_BatchOwn s' := by
  cases hw : c.writesRB with
  | false =>
    have hrb := step_rb h hw
    unfold rc_BatchOwn
    rw [rb_range hrb, rb_batch hrb]; exact hb
  | true =>
    cases c <;> simp only [Call.writesRB, Bool.false_eq_true] at hw
    case addTickets l =>
      obtain ⟨m, t, _, _, _, hx, rfl, _⟩ := step_ok_inv h
      simp only [exec, bind_ok_iff, pure_ok_iff] at hx
      obtain ⟨_, _, s1, h1, rfl⟩ := hx
      exact rc_createMany_bo l h1 hb
    case addTicketsV1 l =>
      obtain ⟨m, t, _, _, _, hx, rfl, _⟩ := step_ok_inv h
      simp only [exec, bind_ok_iff, pure_ok_iff] at hx
      obtain ⟨s0, h0, rfl⟩ := hx
      unfold addTicketsV1 at h0
      simp only [bind_ok_iff, pure_ok_iff, Prod.exists] at h0
      obtain ⟨_, _, s1, tw, tg, h1, rfl⟩ := h0
      exact rc_addV1Many_bo l h1 hb
    case addTicketsV2 l =>
      obtain ⟨m, t, _, _, _, hx, rfl, _⟩ := step_ok_inv h
      simp only [exec, addTicketsV2, bind_ok_iff, pure_ok_iff, Prod.exists] at hx
      obtain ⟨_, _, s1, tw, tg, uc, ta, ga, h1, rfl⟩ := hx
      exact rc_addV2Many_bo e l h1 hb
    case filter =>
      obtain ⟨_, _, fuel, first, removed, f, b, st, hrun, hrg, hbt⟩ := step_filter_rb h
      have := runWhile_invariant _ (fun y : FilSt => rc_BO y.range y.batch)
        (fun y y' c hy hb' => rc_filterBody_bo _ _ y y' c hy hb') _ _ _ _
        (show rc_BO s.range s.batch from hb) hrun
      unfold rc_BatchOwn
      rw [hrg, hbt]; exact this
    case claim =>
      obtain ⟨_, _, hcase⟩ := step_claim_rb h
      unfold rc_BatchOwn
      rcases hcase with ⟨h1, h2, _⟩ | ⟨r, hrc, h1, h2⟩
      · rw [h1, h2]; exact hb
      · rw [h1, h2]; exact rc_BO_erase hb hrc

theorem rc_bo_reach {hash : List Nat → List Nat} {v : Variant} {s : State} {r : Nat}
    (h : Reach hash v s r) : rc_BatchOwn s := by
  induction h with
  | init a e s h => exact rc_init_bo h
  | call s r e c s' o _ _ _ _ h4 ih => exact ih.step h4
  | wait s r r' _ _ ih => exact ih

theorem rc_bo_v1 {hash : List Nat → List Nat} {v : Variant} {s : State} {r : Nat}
    (h : v1_Reach hash v s r) : rc_BatchOwn s := by
  induction h with
  | init a e s h => exact rc_init_bo h
  | call s r e c s' o _ _ _ _ h4 ih => exact ih.step h4
  | wait s r r' _ _ ih => exact ih

theorem rc_bo_g1 {hash : List Nat → List Nat} {s : State} {r : Nat}
    (h : g1_Reach hash s r) : rc_BatchOwn s := by
  induction h with
  | init a e s h => exact rc_init_bo h
  | call s r e c s' o _ _ _ _ h4 ih => exact ih.step h4
  | wait s r r' _ _ ih => exact ih

theorem rc_bo_ng {hash : List Nat → List Nat} {s : State} {r : Nat}
    (h : ng_Reach hash s r) : rc_BatchOwn s := by
  induction h with
  | init a e s h => exact rc_init_bo h
  | call s r e c s' o _ _ _ _ h4 ih => exact ih.step h4
  | wait s r r' _ _ ih => exact ih

/-- in every reachable state of the eight launchpads every batch belongs to the record of its
    address -/
theorem rc_bo_covered {hash : List Nat → List Nat} {s : State} {r : Nat} (h : be_Covered hash s r) :
    rc_BatchOwn s := by
  cases h with
  | plain _ h => exact rc_bo_reach h
  | guarV2 h => exact rc_bo_reach h
  | nft h => exact rc_bo_reach h
  | v1 _ h => exact rc_bo_v1 h
  | guarV1 h => exact rc_bo_g1 h
  | nftGuar h => exact rc_bo_ng h

/-- hence an address without an allocation record is named by no batch -/
theorem rc_BatchOwn.noBatch {s : State} (hb : rc_BatchOwn s) {a : Nat} (hr : s.range a = none) :
    rc_NoBatch s a := by
  intro id b hid hba
  obtain ⟨r, hr', _⟩ := hb id b hid
  rw [hba, hr] at hr'
  cases hr'

/-- in a reachable state, out of the sale = out of the sale for good -/
theorem rc_Out.gone {hash : List Nat → List Nat} {s : State} {r : Nat} (h : be_Covered hash s r)
    {a : Nat} (ha : rc_Out s a) : rc_Gone s a :=
  ⟨ha, Or.inr ((rc_bo_covered h).noBatch ha.range)⟩

/-! ## G. a blacklisted participant receives nothing (C10) -/

/-- in a state with the blacklist invariants (`be_Good`: every reachable state of the eight
    launchpads), an accepted call by ANYBODY sends nothing to a blacklisted participant `a`
    (who is neither the owner nor the lock contract) -/
theorem rc_blacklisted_nothing {hash : List Nat → List Nat} {s s' : State} {e : Env} {c : Call}
    {o : Out} {a : Nat} (hg : be_Good s) (hb : s.blacklist a = true) (ho : a ≠ s.owner)
    (hl : s.variant.hasLock = true → a ≠ s.lockAddr)
    (h : step hash s e c = .ok (s', o)) : rc_NothingTo a o := by
  refine rc_nothing_of h ho hl ?_ ?_
  · intro l _ _ _ hnb
    rw [hb] at hnb; cases hnb
  · intro hc he
    subst hc
    obtain ⟨err, herr⟩ := hg.claim_rejected hash e (by rw [he]; exact hb)
    rw [herr] at h; cases h

theorem rc_ids_later {P : Env → Call → Prop} {hash : List Nat → List Nat} {s s1 : State} {r r1 : Nat}
    (hl : be_Later P hash s r s1 r1) :
    s1.owner = s.owner ∧ s1.variant = s.variant ∧ s1.lockAddr = s.lockAddr := by
  induction hl with
  | refl => exact ⟨rfl, rfl, rfl⟩
  | call sa ra e c sb o _ _ _ h3 ih =>
    obtain ⟨a1, a2, a3⟩ := rc_step_ids h3
    exact ⟨a1.trans ih.1, a2.trans ih.2.1, a3.trans ih.2.2⟩
  | wait sa ra rb _ _ ih => exact ih

/-- from the selection start on (the blacklist is frozen) a participant blacklisted in a reachable
    state receives nothing from anybody's transaction in any later state -/
theorem rc_blacklisted_nothing_later {hash : List Nat → List Nat} {s s1 s2 : State} {r r1 : Nat}
    {a : Nat} (hc : be_Covered hash s r) (hb : s.blacklist a = true) (hsel : s.cfg.sel ≤ r)
    (ho : a ≠ s.owner) (hl : s.variant.hasLock = true → a ≠ s.lockAddr)
    (hlat : be_Later be_HistOK hash s r s1 r1) {e : Env} {c : Call} {o : Out}
    (h : step hash s1 e c = .ok (s2, o)) : rc_NothingTo a o := by
  have F := be_family_all hash
  have hfr := be_frozen_later (F.good hc).valid hsel hlat
  obtain ⟨i1, i2, i3⟩ := rc_ids_later hlat
  exact rc_blacklisted_nothing (F.good (F.later hc hlat)) (by rw [hfr.bl]; exact hb)
    (by rw [i1]; exact ho) (by rw [i2, i3]; exact hl) h

/-! ## H. vesting variants: an unsettled participant has no vesting record (reachable states) -/

theorem rc_init_variant {v : Variant} {a : InitArgs} {e : Env} {s : State} (h : init v a e = .ok s) :
    s.variant = v := by
  unfold init at h
  cases v <;>
    simp only [Variant.hasNft, Variant.v1Alloc, Variant.hasLock, bind_ok_iff, req_ok_iff, pure_ok_iff, pure_bind,
      exists_const, if_true, if_false, Bool.false_eq_true, beq_self_eq_true, reduceCtorEq, decide_eq_true_eq,
      bne_iff_ne, ne_eq, not_false_eq_true, beq_iff_eq, bne_self_eq_false] at h
  all_goals
    repeat (cases h with | intro _ h)
    subst h
    rfl

theorem rc_variant_reach {hash : List Nat → List Nat} {v : Variant} {s : State} {r : Nat}
    (h : Reach hash v s r) : s.variant = v := by
  induction h with
  | init a e s h => exact rc_init_variant h
  | call s r e c s' o _ _ _ _ h4 ih => rw [be_variant_step h4]; exact ih
  | wait s r r' _ _ ih => exact ih

theorem rc_variant_v1 {hash : List Nat → List Nat} {v : Variant} {s : State} {r : Nat}
    (h : v1_Reach hash v s r) : s.variant = v := by
  induction h with
  | init a e s h => exact rc_init_variant h
  | call s r e c s' o _ _ _ _ h4 ih => rw [be_variant_step h4]; exact ih
  | wait s r r' _ _ ih => exact ih

theorem rc_variant_ng {hash : List Nat → List Nat} {s : State} {r : Nat}
    (h : ng_Reach hash s r) : s.variant = .nftGuar := by
  induction h with
  | init a e s h => exact rc_init_variant h
  | call s r e c s' o _ _ _ _ h4 ih => rw [be_variant_step h4]; exact ih
  | wait s r r' _ _ ih => exact ih

theorem rc_LPI_unclaimed {g : GCore} {p : LProj} (h : LPI g p) (a : Nat)
    (hc : p.claimed a = false) : p.userTotal a = 0 := by
  cases hq : g.core.flags.additional with
  | false => exact ((h.pre hq).fresh a).1
  | true => exact (h.post hq).unclaimed a hc

/-- in a reachable state of a vesting variant (guarV1, guarV2) a participant who has not settled
    has no vesting record -/
theorem rc_covered_unclaimed {hash : List Nat → List Nat} {s : State} {r : Nat}
    (h : be_Covered hash s r) (hv : s.variant.vested = true) {a : Nat}
    (hc : s.claimed a = false) : s.userTotal a = 0 := by
  cases h with
  | plain hp h =>
    rw [rc_variant_reach h] at hv
    rcases hp with rfl | rfl <;> cases hv
  | guarV2 h =>
    obtain ⟨a0, hA⟩ := Reach_iff.mp h
    exact rc_LPI_unclaimed (reach_WF2 hA).lp a hc
  | nft h => rw [rc_variant_reach h] at hv; cases hv
  | v1 hp h =>
    rw [rc_variant_v1 h] at hv
    rcases hp with rfl | rfl <;> cases hv
  | guarV1 h =>
    obtain ⟨a0, hA⟩ := g1_Reach_iff.mp h
    exact rc_LPI_unclaimed (g1_reach_WF hA).vs.lp a hc
  | nftGuar h => rw [rc_variant_ng h] at hv; cases hv

theorem rc_roundsFrom_max {r m : Nat} : ∀ {p : Hist}, RoundsFrom r p → (∀ x ∈ p, m ≤ x.1.round) →
    RoundsFrom (max r m) p
  | [], _, _ => trivial
  | (e, c) :: rest, ⟨h1, h2⟩, hm => by
    have := hm (e, c) (List.mem_cons_self ..)
    exact ⟨Nat.max_le.mpr ⟨h1, this⟩, h2⟩

end LP
