import LP.Proofs.Receipts
import LP.Props.C17
import LP.Props.C07
import LP.Props.C20
/-
  LP.Proofs.TermsAtConfirm — helpers for `LP/Props/C17refund.lean` (prefix `tf_`):
  the HISTORY-LEVEL form of C17 "every refund and payout is computed with exactly the terms that
  were visible when the participant confirmed".

  * `tf_split`, `tf_between`      cutting the log `lk_runLog` of a history at one / two entries
  * `tf_confirm_inv`              what an accepted confirmation finds (stage, deposit, exact payment)
  * `tf_sched1_step/_along`       the v1 unlock schedule from the confirmation start on
  * `tf_step_pay`                 `cr_step_pay` without the blanket `a ≠ owner`
  * `tf_claim_event`, `tf_bl_event`, `tf_ru_event`   the refund events
  * `tf_vested_userTotal`         the entitlement recorded by the first vesting claim
  * `tf_confirmPaid`, `tf_confirmTickets`, `tf_paid_eq`, `tf_confirmed_eq`   what a participant
    paid with his confirmations / what `confirmed` records
-/
namespace LP
open LP.Props LP.Props.C17 LP.Props.C09 LP.Props.C07

/-! ## 1. cutting the log -/

/-- cut the log at an entry `x`: the history splits accordingly -/
theorem tf_split (hash : List Nat → List Nat) :
    ∀ (hist : List (Env × Call)) (s : State) (l1 : List (State × Env × Call × Out))
      (x : State × Env × Call × Out) (l2 : List (State × Env × Call × Out)),
      lk_runLog hash s hist = l1 ++ x :: l2 →
      ∃ h1 h2 s', hist = h1 ++ (x.2.1, x.2.2.1) :: h2 ∧ lk_runLog hash s h1 = l1 ∧
        run hash s h1 = x.1 ∧ step hash x.1 x.2.1 x.2.2.1 = .ok (s', x.2.2.2) ∧
        lk_runLog hash s' h2 = l2
  | [], s, l1, x, l2, h => by
    cases l1 <;> simp [lk_runLog] at h
  | (e, c) :: rest, s, l1, x, l2, h => by
    cases hs : step hash s e c with
    | error err =>
      rw [lk_runLog_cons_err hs] at h
      obtain ⟨h1, h2, s', k1, k2, k3, k4, k5⟩ := tf_split hash rest s l1 x l2 h
      refine ⟨(e, c) :: h1, h2, s', by rw [k1]; rfl, ?_, ?_, k4, k5⟩
      · rw [lk_runLog_cons_err hs]; exact k2
      · rw [lk_run_cons_err hs]; exact k3
    | ok q =>
      obtain ⟨s1, o⟩ := q
      rw [lk_runLog_cons_ok hs] at h
      cases l1 with
      | nil =>
        simp only [List.nil_append, List.cons.injEq] at h
        obtain ⟨rfl, rfl⟩ := h
        exact ⟨[], rest, s1, rfl, rfl, rfl, hs, rfl⟩
      | cons y l1' =>
        simp only [List.cons_append, List.cons.injEq] at h
        obtain ⟨rfl, h⟩ := h
        obtain ⟨h1, h2, s', k1, k2, k3, k4, k5⟩ := tf_split hash rest s1 l1' x l2 h
        refine ⟨(e, c) :: h1, h2, s', by rw [k1]; rfl, ?_, ?_, k4, k5⟩
        · rw [lk_runLog_cons_ok hs, k2]
        · rw [lk_run_cons_ok hs]; exact k3

/-- two entries of the log of a history with non-decreasing rounds, `y` later than `x`: the
    segment `seg` of the history strictly between them leads from `x` to the pre-state of `y`,
    its log is `l2`, and the whole rest of the history after `x` has the log `l2 ++ y :: l3` -/
theorem tf_between (hash : List Nat → List Nat) (hist : List (Env × Call)) (s : State) (r0 : Nat)
    (hr : RoundsFrom r0 hist) (l1 : List (State × Env × Call × Out))
    (sx : State) (ex : Env) (cx : Call) (ox : Out) (l2 : List (State × Env × Call × Out))
    (sy : State) (ey : Env) (cy : Call) (oy : Out) (l3 : List (State × Env × Call × Out))
    (h : lk_runLog hash s hist = l1 ++ (sx, ex, cx, ox) :: (l2 ++ (sy, ey, cy, oy) :: l3)) :
    ∃ (seg tail : Hist) (sx' sy' : State),
      step hash sx ex cx = .ok (sx', ox) ∧ step hash sy ey cy = .ok (sy', oy) ∧
      RoundsFrom ex.round ((ex, cx) :: seg) ∧
      lk_runLog hash sx ((ex, cx) :: seg) = (sx, ex, cx, ox) :: l2 ∧
      run hash sx ((ex, cx) :: seg) = sy ∧ ex.round ≤ ey.round ∧
      RoundsFrom ex.round ((ex, cx) :: tail) ∧
      lk_runLog hash sx ((ex, cx) :: tail) = (sx, ex, cx, ox) :: (l2 ++ (sy, ey, cy, oy) :: l3) := by
  obtain ⟨h1, h2, sx', k1, _, _, k4, k5⟩ := tf_split hash hist s l1 _ _ h
  obtain ⟨h3, h4, sy', j1, j2, j3, j4, _⟩ := tf_split hash h2 sx' l2 _ _ k5
  simp only at k1 k4 j1 j3 j4
  subst k1
  have hr1 : RoundsFrom r0 ((ex, cx) :: h2) := RoundsFrom.append_right hr
  have hr2 : RoundsFrom ex.round h2 := hr1.2
  rw [j1] at hr2
  have hr3 : RoundsFrom ex.round h3 := RoundsFrom.append_left hr2
  have hr4 : RoundsFrom ex.round ((ey, cy) :: h4) := RoundsFrom.append_right hr2
  refine ⟨h3, h2, sx', sy', k4, j4, ⟨Nat.le_refl _, hr3⟩, ?_, ?_, hr4.1, ⟨Nat.le_refl _, hr1.2⟩, ?_⟩
  · rw [lk_runLog_cons_ok k4, j2]
  · rw [lk_run_cons_ok k4]; exact j3
  · rw [lk_runLog_cons_ok k4, k5]

/-- the entries of a log are accepted transactions -/
theorem tf_mem_step (hash : List Nat → List Nat) (hist : List (Env × Call)) (s : State)
    (sx : State) (ex : Env) (cx : Call) (ox : Out) (h : (sx, ex, cx, ox) ∈ lk_runLog hash s hist) :
    ∃ sx', step hash sx ex cx = .ok (sx', ox) := by
  obtain ⟨_, _, s', _, _, k⟩ := lk_runLog_mem hash hist s _ h
  exact ⟨s', k⟩

/-! ## 2. an accepted confirmation -/

/-- an accepted confirmation of `n` tickets: the confirmation stage has started (and the winner
    selection has not), the launchpad tokens are deposited, the caller is not blacklisted, and the
    call value is EXACTLY `price × n` of the payment token, both as stored in the pre-state -/
theorem tf_confirm_inv {hash : List Nat → List Nat} {s s' : State} {e : Env} {n : Nat} {o : Out}
    (h : step hash s e (.confirm n) = .ok (s', o)) :
    s.cfg.conf ≤ e.round ∧ e.round < s.cfg.sel ∧ s.stage e = .confirm ∧ s.deposited = true ∧
    s.blacklist e.caller = false ∧ egldOrSingleFungible e = .ok (s.payTok, s.price * n) ∧
    s'.confirmed e.caller = s.confirmed e.caller + n := by
  obtain ⟨total, ⟨_, hpay, hst, hd, hb, _, _⟩, hs', _⟩ := confirm_effect hash s e n s' o h
  have h1 : s.cfg.conf ≤ e.round := (stage_ne_addTickets_iff s e).1 (by rw [hst]; decide)
  refine ⟨h1, ?_, hst, hd, hb, hpay, ?_⟩
  · unfold State.stage stageOf at hst
    by_cases h2 : e.round < s.cfg.sel
    · exact h2
    · have h3 : ¬ e.round < s.cfg.conf := by omega
      simp only [h3, h2, if_false] at hst
      repeat' split at hst
      all_goals cases hst
  · rw [hs']; simp [upd]

/-! ## 3. the v1 unlock schedule from the confirmation start on -/

/-- the log entry is an accepted `setSchedule1` (v1 `setUnlockSchedule`, guarV1 only) -/
def tf_isSched1 (x : State × Env × Call × Out) : Bool :=
  match x.2.2.1 with
  | .setSchedule1 .. => true
  | _ => false

/-- one accepted call at a round `≥ conf`: the v1 schedule is untouched unless the call is a
    `setSchedule1`, which is accepted only by guarV1 and only while NO schedule is stored; it then
    stores exactly its arguments -/
theorem tf_sched1_step {hash : List Nat → List Nat} {s s' : State} {e : Env} {c : Call} {o : Out}
    (h : step hash s e c = .ok (s', o)) (hr : s.cfg.conf ≤ e.round) :
    (tf_isSched1 (s, e, c, o) = false → s'.sched1 = s.sched1) ∧
    (tf_isSched1 (s, e, c, o) = true → s.sched1 = none ∧ s.variant = .guarV1 ∧
      ∃ a b c' d f, c = .setSchedule1 a b c' d f ∧ s'.sched1 = some ⟨a, b, c', d, f⟩) := by
  constructor
  · intro hc
    refine sched1_frame h (fun a b c' d f hh => ?_)
    subst hh
    simp [tf_isSched1] at hc
  · intro hc
    cases c <;> simp only [tf_isSched1, Bool.false_eq_true] at hc
    rename_i a b c' d f
    have hnone : s.sched1 = none := by
      rcases C06.schedule1_gate hash s e a b c' d f (s', o) h with h1 | h1
      · omega
      · exact h1
    obtain ⟨m, t, hm, _, _, hx, hs', _⟩ := step_ok_inv h
    refine ⟨hnone, ?_, a, b, c', d, f, rfl, ?_⟩
    · simp only [endpointMeta] at hm
      split at hm
      · rename_i hv; simpa using hv
      · cases hm
    · simp only [exec, setSchedule1, bind_ok_iff, pure_ok_iff, req_ok_iff, exists_const] at hx
      obtain ⟨s1, ⟨_, _, _, _, rfl⟩, rfl⟩ := hx
      rw [hs']; rfl

/-- **the v1 schedule along a history that starts at a round `≥ conf`**: it is unchanged as long as
    no `setSchedule1` is accepted; a stored schedule is never replaced (no `setSchedule1` is accepted
    at all); at most ONE `setSchedule1` is accepted, only by guarV1, in a state without a schedule,
    and the schedule it stores is the final one -/
theorem tf_sched1_along (hash : List Nat → List Nat) : ∀ (h : Hist) (s : State) (r : Nat),
    s.cfg.conf ≤ r → RoundsFrom r h →
    ((∀ z ∈ lk_runLog hash s h, tf_isSched1 z = false) → (run hash s h).sched1 = s.sched1) ∧
    (s.sched1 ≠ none → ∀ z ∈ lk_runLog hash s h, tf_isSched1 z = false) ∧
    ((lk_runLog hash s h).filter tf_isSched1).length ≤ 1 ∧
    (∀ z ∈ lk_runLog hash s h, tf_isSched1 z = true →
      z.1.sched1 = none ∧ z.1.variant = .guarV1 ∧ s.sched1 = none ∧
      ∃ a b c d f, z.2.2.1 = .setSchedule1 a b c d f ∧ (run hash s h).sched1 = some ⟨a, b, c, d, f⟩)
  | [], s, _, _, _ => by
    refine ⟨fun _ => rfl, fun _ z hz => ?_, Nat.zero_le _, fun z hz => ?_⟩
    · cases hz
    · cases hz
  | (e, c) :: rest, s, r, hr, ⟨h1, h2⟩ => by
    cases hs : step hash s e c with
    | error err =>
      rw [lk_runLog_cons_err hs, lk_run_cons_err hs]
      exact tf_sched1_along hash rest s e.round (by omega) h2
    | ok q =>
      obtain ⟨s', o⟩ := q
      rw [lk_runLog_cons_ok hs, lk_run_cons_ok hs]
      have hconf : s'.cfg.conf = s.cfg.conf := conf_frozen_once_reached hs (by omega)
      obtain ⟨i1, i2, i3, i4⟩ := tf_sched1_along hash rest s' e.round (by omega) h2
      obtain ⟨j1, j2⟩ := tf_sched1_step hs (by omega : s.cfg.conf ≤ e.round)
      refine ⟨?_, ?_, ?_, ?_⟩
      · intro hall
        rw [i1 (fun z hz => hall z (List.mem_cons_of_mem _ hz)), j1 (hall _ (List.mem_cons_self ..))]
      · intro hne z hz
        have hx : tf_isSched1 (s, e, c, o) = false := by
          cases hb : tf_isSched1 (s, e, c, o)
          · rfl
          · exact absurd (j2 hb).1 hne
        rcases List.mem_cons.mp hz with rfl | hz
        · exact hx
        · exact i2 (by rw [j1 hx]; exact hne) z hz
      · cases hb : tf_isSched1 (s, e, c, o)
        · rw [List.filter_cons_of_neg (by simp [hb])]; exact i3
        · rw [List.filter_cons_of_pos (by simp [hb])]
          obtain ⟨_, _, a, b, c', d, f, _, hs1⟩ := j2 hb
          have : (lk_runLog hash s' rest).filter tf_isSched1 = [] := by
            rw [List.filter_eq_nil_iff]
            intro z hz
            rw [i2 (by rw [hs1]; simp) z hz]; simp
          rw [this]; simp
      · intro z hz hzb
        rcases List.mem_cons.mp hz with rfl | hz
        · obtain ⟨k1, k2, a, b, c', d, f, k3, k4⟩ := j2 hzb
          refine ⟨k1, k2, k1, a, b, c', d, f, k3, ?_⟩
          have hall : ∀ z ∈ lk_runLog hash s' rest, tf_isSched1 z = false :=
            i2 (by rw [k4]; simp)
          rw [i1 hall, k4]
        · obtain ⟨k1, k2, k3, k4⟩ := i4 z hz hzb
          have hx : tf_isSched1 (s, e, c, o) = false := by
            cases hb : tf_isSched1 (s, e, c, o)
            · rfl
            · obtain ⟨_, _, a, b, c', d, f, _, hs1⟩ := j2 hb
              rw [hs1] at k3; cases k3
          exact ⟨k1, k2, by rw [← j1 hx]; exact k3, k4⟩

/-! ## 4. one accepted transaction: payment token, events, entitlement -/

/-- `cr_step_pay` without the blanket `a ≠ owner`: the owner is excluded only for his own
    withdrawal `claimPayment` (where he also receives the proceeds); as a participant he is
    refunded like everybody else -/
theorem tf_step_pay {hash : List Nat → List Nat} {s s' : State} {e : Env} {c : Call} {o : Out}
    (hne : s.payTok ≠ .esdt s.lpTok) {a : Nat} (ha : c = .claimPayment → a ≠ s.owner)
    (hs : step hash s e c = .ok (s', o)) :
    cr_paid s.payTok a o.xfers = cr_owedPay s e c a := by
  cases c with
  | claim =>
    rw [step_claim_ok_iff] at hs
    obtain ⟨_, _, t, hx, rfl, rfl⟩ := hs
    cases hv : s.variant.vested
    · rw [exec_claim_nonvested hash _ e hv] at hx
      have h1 := cr_claimBase_pay hx hne a
      obtain ⟨r, ⟨_, hcl, _⟩, _⟩ := (claimBase_ok_iff _ e t).mp hx
      have h1' : cr_paid s.payTok a t.o.xfers = 0 +
          (if e.caller = a then s.price * (s.confirmed a - winCount s a) +
             (if s.variant.hasNft = true ∧ nftCategory s a = 2 then cr_fee s s.payTok else 0)
           else 0) := h1
      rw [h1', Nat.zero_add]
      unfold cr_owedPay
      have hcl' : s.claimed e.caller = false := hcl
      by_cases hca : e.caller = a
      · subst hca; simp only [hcl', and_self, if_true]; rfl
      · simp [hca]
    · rw [exec_claim_vested hash _ e hv] at hx
      have h1 := cr_claimVested_pay hx hne a
      have h1' : cr_paid s.payTok a t.o.xfers = 0 +
          (if e.caller = a ∧ s.claimed a = false
           then s.price * (s.confirmed a - winCount s a) else 0) := h1
      rw [h1', Nat.zero_add]
      unfold cr_owedPay
      have hn : s.variant.hasNft = false := (rc_vested_flags hv).1
      simp only [hn, Bool.false_eq_true, false_and, if_false, Nat.add_zero]
      rfl
  | claimPayment => exact cr_xfers_to_caller hs _ (ha rfl)
  | blacklist l =>
    obtain ⟨m, t, _, _, _, hx, rfl, rfl⟩ := step_ok_inv hs
    have h1 := cr_exec_blacklist_paid hx s.payTok a
    have h1' : cr_paid s.payTok a t.o.xfers = 0 +
        (if a ∈ l then (if s.payTok = s.payTok then s.price * s.confirmed a else 0) +
          (if s.variant.hasNft = true ∧ a ∈ s.payers then cr_fee s s.payTok else 0) else 0) := h1
    rw [h1', Nat.zero_add]
    simp [cr_owedPay]
  | refundUsers l =>
    obtain ⟨m, t, _, _, _, hx, rfl, rfl⟩ := step_ok_inv hs
    have h1 := cr_exec_refundUsers_paid hx s.payTok a
    have h1' : cr_paid s.payTok a t.o.xfers = 0 +
        (if a ∈ l ∧ s.payTok = s.payTok then s.price * s.confirmed a else 0) := h1
    rw [h1', Nat.zero_add]
    simp [cr_owedPay]
  | _ => rw [(step_quiet hs rfl).1]; rfl

/-- the settlement of a participant (his first accepted `claim`): if he has losing confirmed
    tickets (`confirmed − winning > 0`) the transaction emits the `refundTicketPayment` event with
    exactly that number of tickets, the payment token and `price × tickets` of the pre-state; all
    eight variants -/
theorem tf_claim_event {hash : List Nat → List Nat} {s s' : State} {e : Env} {o : Out}
    (h : step hash s e .claim = .ok (s', o)) (hcl : s.claimed e.caller = false)
    (hpos : 0 < s.confirmed e.caller - winCountOf s e.caller) :
    (⟨"refundTicketPayment", [e.caller, e.round, e.epoch],
      [e.caller, e.round, e.epoch, s.confirmed e.caller - winCountOf s e.caller, s.payTok.code, 0,
        s.price * (s.confirmed e.caller - winCountOf s e.caller)]⟩ : Ev) ∈ o.events := by
  cases hv : s.variant.vested
  · obtain ⟨s1, redeem, rf, hset, hev⟩ := C20.claim_plain_events hash s e s' o hv h
    rw [settle_ok_iff] at hset
    obtain ⟨_, _, r, hr, hrd, _, _, hrf, _⟩ := hset
    have hw : winCountOf s e.caller = countWinning s.status r.first (rangeLen r) :=
      winCount_of_range hr
    have hrf' : rf = s.confirmed e.caller - winCountOf s e.caller := by rw [hrf, hrd, hw]
    rw [hev, if_pos (by omega), hrf']
    exact List.mem_singleton.mpr rfl
  · obtain ⟨t, hx, _, rfl⟩ := C20.step_nopay_inv
      (by intro m hm; simp [endpointMeta] at hm; rw [← hm]) h
    rw [exec_claim_vested hash _ e hv] at hx
    obtain ⟨s1, redeem, rf, t1, c, hset, _, _, hev, _⟩ :=
      C20.claimVested_first_events (t := C20.txOf s e) hcl hx
    have hset' : settle s e = .ok (s1, redeem, rf) := hset
    rw [settle_ok_iff] at hset'
    obtain ⟨_, _, r, hr, hrd, _, _, hrf, _⟩ := hset'
    have hw : winCountOf s e.caller = countWinning s.status r.first (rangeLen r) :=
      winCount_of_range hr
    have hrf' : rf = s.confirmed e.caller - winCountOf s e.caller := by rw [hrf, hrd, hw]
    rw [hev, if_pos (by omega), hrf']
    simp [C20.txOf, Events.refundEv]

/-- a blacklisting that lists `a` while he has confirmed tickets emits his `refundTicketPayment`
    event: all his confirmed tickets, the payment token and `price × confirmed` of the pre-state -/
theorem tf_bl_event {hash : List Nat → List Nat} {s s' : State} {e : Env} {l : List Nat} {o : Out}
    (h : step hash s e (.blacklist l) = .ok (s', o)) {a : Nat} (ha : a ∈ l)
    (hpos : 0 < s.confirmed a) :
    (⟨"refundTicketPayment", [e.caller, e.round, e.epoch],
      [e.caller, e.round, e.epoch, s.confirmed a, s.payTok.code, 0, s.price * s.confirmed a]⟩ : Ev)
      ∈ o.events ∧
    (a, (⟨s.payTok, 0, s.price * s.confirmed a⟩ : Pay)) ∈ o.xfers := by
  obtain ⟨hev, ⟨xf, hxf, _⟩, _⟩ := C20.blacklist_events hash s e l s' o h
  rw [hev, hxf]
  refine ⟨List.mem_append_left _ (List.mem_filterMap.mpr ⟨a, ha, ?_⟩),
    List.mem_append_left _ (List.mem_filterMap.mpr ⟨a, ha, ?_⟩)⟩
  · rw [C20.blEvent_eq, if_pos hpos]
  · rw [C20.blXfer_eq, if_pos hpos]

/-- the same for v2 `refundUsers` -/
theorem tf_ru_event {hash : List Nat → List Nat} {s s' : State} {e : Env} {l : List Nat} {o : Out}
    (h : step hash s e (.refundUsers l) = .ok (s', o)) {a : Nat} (ha : a ∈ l)
    (hpos : 0 < s.confirmed a) :
    (⟨"refundTicketPayment", [e.caller, e.round, e.epoch],
      [e.caller, e.round, e.epoch, s.confirmed a, s.payTok.code, 0, s.price * s.confirmed a]⟩ : Ev)
      ∈ o.events ∧
    (a, (⟨s.payTok, 0, s.price * s.confirmed a⟩ : Pay)) ∈ o.xfers := by
  obtain ⟨hev, hxf, _⟩ := C20.refundUsers_events hash s e l s' o h
  rw [hev, hxf]
  refine ⟨List.mem_filterMap.mpr ⟨a, ha, ?_⟩, List.mem_filterMap.mpr ⟨a, ha, ?_⟩⟩
  · rw [C20.blEvent_eq, if_pos hpos]
  · rw [C20.blXfer_eq, if_pos hpos]

/-- the first vesting claim (guarV1, guarV2) records the entitlement
    `winning tickets × tokens per ticket` of the pre-state as `userTotal` of the caller (it is left
    untouched if he has no winning ticket) -/
theorem tf_vested_userTotal {hash : List Nat → List Nat} {s s' : State} {e : Env} {o : Out}
    (h : step hash s e .claim = .ok (s', o)) (hv : s.variant.vested = true)
    (hcl : s.claimed e.caller = false) :
    s'.userTotal e.caller =
      if winCountOf s e.caller > 0 then winCountOf s e.caller * s.perTicket
      else s.userTotal e.caller := by
  obtain ⟨t', hx, rfl, _⟩ := C20.step_nopay_inv
    (by intro m hm; simp [endpointMeta] at hm; rw [← hm]) h
  rw [exec_claim_vested hash _ e hv] at hx
  obtain ⟨t1, c, hset, _, _, _, hut, _⟩ := claimVested_inv hx
  rw [hut]
  unfold claimSettle at hset
  have hcl' : (C20.txOf s e).s.claimed e.caller = false := hcl
  simp only [hcl', Bool.false_eq_true, if_false, bind_ok_iff, Prod.exists, pure_ok_iff] at hset
  obtain ⟨s1, rd, rf, hst, t2, href, rfl⟩ := hset
  have hst' : settle s e = .ok (s1, rd, rf) := hst
  rw [settle_ok_iff] at hst'
  obtain ⟨_, _, r, hr, hrd, _, _, _, hs1⟩ := hst'
  rw [refund_ok_iff] at href
  obtain ⟨_, rfl⟩ := href
  have hw : winCountOf s e.caller = countWinning s.status r.first (rangeLen r) :=
    winCount_of_range hr
  have hst2 : (refundResult ((C20.txOf s e).setS s1) e e.caller rf).s.userTotal = s.userTotal := by
    rw [refundResult_state, hs1]; rfl
  have hpt : (refundResult ((C20.txOf s e).setS s1) e e.caller rf).s.perTicket = s.perTicket := by
    rw [refundResult_state, hs1]; rfl
  rw [hw, ← hrd]
  by_cases hpos : rd > 0
  · rw [if_pos hpos, if_pos hpos]
    show upd _ e.caller (rd * (refundResult ((C20.txOf s e).setS s1) e e.caller rf).s.perTicket)
      e.caller = _
    rw [hpt]; simp [upd]
  · rw [if_neg hpos, if_neg hpos, hst2]

/-! ## 5. what a participant paid with his confirmations -/

/-- the log entry is an accepted `confirm` by `a` -/
def tf_isConfirmBy (a : Nat) (x : State × Env × Call × Out) : Bool :=
  match x.2.2.1 with
  | .confirm _ => x.2.1.caller == a
  | _ => false

/-- the number of tickets of a `confirm` call (0 for every other call) -/
def tf_ticketsOf : Call → Nat
  | .confirm n => n
  | _ => 0

/-- the call value of a transaction, if it is one payment in the fungible token `tok` (EGLD or one
    ESDT transfer with nonce 0); 0 otherwise -/
def tf_value (tok : Token) (e : Env) : Nat :=
  match egldOrSingleFungible e with
  | .ok (t, n) => if t = tok then n else 0
  | .error _ => 0

/-- Σ of the call values in the token `tok` of `a`'s accepted confirmations in a log -/
def tf_confirmPaid (tok : Token) (a : Nat) : List (State × Env × Call × Out) → Nat
  | [] => 0
  | x :: rest => (if tf_isConfirmBy a x = true then tf_value tok x.2.1 else 0) + tf_confirmPaid tok a rest

/-- Σ of the ticket numbers of `a`'s accepted confirmations in a log -/
def tf_confirmTickets (a : Nat) : List (State × Env × Call × Out) → Nat
  | [] => 0
  | x :: rest => (if tf_isConfirmBy a x = true then tf_ticketsOf x.2.2.1 else 0) + tf_confirmTickets a rest

theorem tf_confirmPaid_append (tok : Token) (a : Nat) (l1 l2 : List (State × Env × Call × Out)) :
    tf_confirmPaid tok a (l1 ++ l2) = tf_confirmPaid tok a l1 + tf_confirmPaid tok a l2 := by
  induction l1 with
  | nil => simp [tf_confirmPaid]
  | cons x rest ih => simp only [List.cons_append, tf_confirmPaid, ih]; omega

theorem tf_confirmTickets_append (a : Nat) (l1 l2 : List (State × Env × Call × Out)) :
    tf_confirmTickets a (l1 ++ l2) = tf_confirmTickets a l1 + tf_confirmTickets a l2 := by
  induction l1 with
  | nil => simp [tf_confirmTickets]
  | cons x rest ih => simp only [List.cons_append, tf_confirmTickets, ih]; omega

/-- `claimed a` is monotone along a history -/
theorem tf_run_claimed (hash : List Nat → List Nat) (a : Nat) (h : List (Env × Call)) (s : State)
    (hcl : s.claimed a = true) : (run hash s h).claimed a = true :=
  lk_run_keeps hash (fun x => x.claimed a = true)
    (fun s e c s' o hs hp => step_claimed_mono hash s e c s' o hs a hp) h s hcl

/-- **what `a` paid = final price × tickets he confirmed**, ANY start state, any history with
    non-decreasing rounds: the call values of `a`'s accepted confirmations, counted in the payment
    token of the FINAL state, add up to the FINAL price × the number of tickets of these
    confirmations (each confirmation pays the price of its own pre-state exactly, and from the
    first confirmation on price and payment token are frozen) -/
theorem tf_paid_eq (hash : List Nat → List Nat) (a : Nat) : ∀ (h : Hist) (s : State) (r : Nat),
    RoundsFrom r h →
    tf_confirmPaid (run hash s h).payTok a (lk_runLog hash s h) =
      (run hash s h).price * tf_confirmTickets a (lk_runLog hash s h)
  | [], _, _, _ => rfl
  | (e, c) :: rest, s, r, ⟨h1, h2⟩ => by
    cases hs : step hash s e c with
    | error err =>
      rw [lk_runLog_cons_err hs, lk_run_cons_err hs]
      exact tf_paid_eq hash a rest s e.round h2
    | ok q =>
      obtain ⟨s', o⟩ := q
      have ih := tf_paid_eq hash a rest s' e.round h2
      rw [lk_runLog_cons_ok hs, lk_run_cons_ok hs]
      show (if tf_isConfirmBy a (s, e, c, o) = true then tf_value (run hash s' rest).payTok e else 0)
          + tf_confirmPaid (run hash s' rest).payTok a (lk_runLog hash s' rest)
        = (run hash s' rest).price *
          ((if tf_isConfirmBy a (s, e, c, o) = true then tf_ticketsOf c else 0)
            + tf_confirmTickets a (lk_runLog hash s' rest))
      rw [ih, Nat.mul_add]
      congr 1
      cases hb : tf_isConfirmBy a (s, e, c, o)
      · simp
      · cases c <;> simp only [tf_isConfirmBy, Bool.false_eq_true] at hb
        rename_i n
        obtain ⟨hconf, _, _, _, _, hpay, _⟩ := tf_confirm_inv hs
        have hfr := terms_frozen_along_history hash ((e, .confirm n) :: rest) s e.round hconf
          ⟨Nat.le_refl _, h2⟩
        rw [lk_run_cons_ok hs] at hfr
        simp only [if_true, tf_value, hpay, tf_ticketsOf, terms_payTok hfr.1, terms_price hfr.1]

/-- **what `confirmed a` records**, ANY start state, ANY history: if no accepted `blacklist` /
    `refundUsers` of the history lists `a` and `a` has not settled in the final state, then
    `confirmed a` has grown by exactly the tickets of his accepted confirmations -/
theorem tf_confirmed_eq (hash : List Nat → List Nat) (a : Nat) : ∀ (h : List (Env × Call)) (s : State),
    (∀ y ∈ lk_runLog hash s h, cr_isBlacklistOf a y = false) → (run hash s h).claimed a = false →
    (run hash s h).confirmed a = s.confirmed a + tf_confirmTickets a (lk_runLog hash s h)
  | [], _, _, _ => rfl
  | (e, c) :: rest, s, hnb, hcl => by
    cases hs : step hash s e c with
    | error err =>
      rw [lk_runLog_cons_err hs] at hnb ⊢
      rw [lk_run_cons_err hs] at hcl ⊢
      exact tf_confirmed_eq hash a rest s hnb hcl
    | ok q =>
      obtain ⟨s', o⟩ := q
      rw [lk_runLog_cons_ok hs] at hnb ⊢
      rw [lk_run_cons_ok hs] at hcl ⊢
      have ih := tf_confirmed_eq hash a rest s' (fun y hy => hnb y (List.mem_cons_of_mem _ hy)) hcl
      have hb := hnb _ (List.mem_cons_self ..)
      have hcl' : s'.claimed a = false := by
        cases hq : s'.claimed a
        · rfl
        · rw [tf_run_claimed hash a rest s' hq] at hcl; cases hcl
      have hcb : s'.confirmed = (cbAfter s e c).confirmed := congrArg CB.confirmed (step_cb hs)
      have key : s'.confirmed a = s.confirmed a +
          (if tf_isConfirmBy a (s, e, c, o) = true then tf_ticketsOf c else 0) := by
        rw [hcb]
        cases c with
        | confirm n =>
          by_cases hca : e.caller = a
          · subst hca; simp [cbAfter, tf_isConfirmBy, tf_ticketsOf, upd]
          · have : ¬ a = e.caller := fun hh => hca hh.symm
            simp [cbAfter, tf_isConfirmBy, upd, hca, this]
        | blacklist l =>
          have : a ∉ l := by simpa [cr_isBlacklistOf] using hb
          simp [cbAfter, tf_isConfirmBy, this]
        | refundUsers l =>
          have : a ∉ l := by simpa [cr_isBlacklistOf] using hb
          simp [cbAfter, tf_isConfirmBy, this]
        | claim =>
          have hne : ¬ a = e.caller := by
            intro hh
            have := claim_sets_claimed hash s e s' o hs
            rw [← hh, hcl'] at this; cases this
          simp only [cbAfter, tf_isConfirmBy, Bool.false_eq_true, if_false, Nat.add_zero]
          split
          · rfl
          · simp [upd, hne]
        | _ => simp [cbAfter, tf_isConfirmBy]
      show (run hash s' rest).confirmed a = s.confirmed a +
        ((if tf_isConfirmBy a (s, e, c, o) = true then tf_ticketsOf c else 0)
          + tf_confirmTickets a (lk_runLog hash s' rest))
      rw [ih, key]; omega

/-! ## 6. facts about the pre-state of a log entry -/

theorem tf_run_static (hash : List Nat → List Nat) (h : List (Env × Call)) (s : State)
    (hS : cr_Static s) : cr_Static (run hash s h) :=
  lk_run_keeps hash cr_Static (fun _ _ _ _ _ hx hp => cr_step_static hp hx) h s hS

theorem tf_run_deposited (hash : List Nat → List Nat) (h : List (Env × Call)) (s : State)
    (hd : s.deposited = true) : (run hash s h).deposited = true :=
  lk_run_keeps hash (fun x => x.deposited = true) (fun _ _ _ _ _ hx hp => deposited_mono hx hp) h s hd

/-- the pre-state of every log entry inherits the static facts, the variant, the owner, the
    launchpad token, the lock contract and the phase-order invariant of the start state -/
theorem tf_entry_static (hash : List Nat → List Nat) (hist : List (Env × Call)) (s0 : State)
    (l1 : List (State × Env × Call × Out)) (x : State × Env × Call × Out)
    (l2 : List (State × Env × Call × Out)) (hlog : lk_runLog hash s0 hist = l1 ++ x :: l2) :
    (cr_Static s0 → cr_Static x.1) ∧ x.1.variant = s0.variant ∧ x.1.owner = s0.owner ∧
    x.1.lpTok = s0.lpTok ∧ x.1.lockAddr = s0.lockAddr ∧ (PhaseOK s0 → PhaseOK x.1) ∧
    ∃ h1 h2 s', hist = h1 ++ (x.2.1, x.2.2.1) :: h2 ∧ lk_runLog hash s0 h1 = l1 ∧
      run hash s0 h1 = x.1 ∧ step hash x.1 x.2.1 x.2.2.1 = .ok (s', x.2.2.2) := by
  obtain ⟨h1, h2, s', k1, k2, k3, k4, _⟩ := tf_split hash hist s0 l1 x l2 hlog
  obtain ⟨_, _, t3, t4, t5, t6⟩ := lk_run_terms hash s0 h1
  rw [k3] at t3 t4 t5 t6
  refine ⟨fun hS => ?_, t4, t6, t5, t3, fun hp => ?_, h1, h2, s', k1, k2, k3, k4⟩
  · rw [← k3]; exact tf_run_static hash h1 s0 hS
  · rw [← k3]; exact run_phaseOK hash h1 s0 hp

/-! ## 7. positions in a log -/

/-- two positions `i < j` of a list cut it into `… x … y …` -/
theorem tf_index_split {α : Type} {l : List α} {i j : Nat} {x y : α} (hi : l[i]? = some x)
    (hj : l[j]? = some y) (hij : i < j) :
    l = l.take i ++ x :: ((l.drop (i + 1)).take (j - (i + 1)) ++ y :: l.drop (j + 1)) := by
  have h1 := getElem?_split hi
  have h2 : (l.drop (i + 1))[j - (i + 1)]? = some y := by
    rw [List.getElem?_drop, ← hj]; congr 1; omega
  have h3 := getElem?_split h2
  rw [List.drop_drop] at h3
  have h4 : i + 1 + (j - (i + 1) + 1) = j + 1 := by omega
  rw [h4] at h3
  exact h1.trans (congrArg (fun t => l.take i ++ x :: t) h3)

/-- an entry of a list with a Bool-checked property (for concrete logs: `decide +kernel`) -/
theorem tf_entry_of_check {α : Type} (l : List α) (i : Nat) (p : α → Bool)
    (h : (l[i]?).any p = true) : ∃ x, l[i]? = some x ∧ p x = true := by
  cases hx : l[i]? with
  | none => rw [hx] at h; cases h
  | some x => rw [hx] at h; exact ⟨x, rfl, h⟩

end LP
