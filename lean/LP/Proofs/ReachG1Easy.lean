import LP.Proofs.ReachG1WF
/-
  LP.Proofs.ReachG1Easy — preservation of `g1_WF` (`Variant.guarV1`) by the endpoints without a
  loop and without a claim: setters (incl. `setSchedule1`), `setSupport`, `pause`, `unpause`,
  `deposit`, `setTicketPrice`, `confirm`.
  (`addTicketsV1`, `blacklist`, `unblacklist` are in `ReachG1Alloc.lean`.)
-/
namespace LP
open LP.FY LP.Events

/-! ### trivial endpoints -/

theorem g1_setSupport {T0 : Nat} {hash : List Nat → List Nat} {s s' : State} {e : Env} {o : Out}
    {r a : Nat} (h : g1_WF T0 s r) (hr : r ≤ e.round)
    (hs : step hash s e (.setSupport a) = .ok (s', o)) : g1_WF T0 s' e.round := by
  obtain ⟨t, hx, rfl⟩ := rb_step_np (by intro m hm; simp [endpointMeta] at hm; rw [← hm]) hs
  simp only [exec, pure_ok_iff] at hx
  subst hx
  exact g1_WF_same_cfg h rfl rfl rfl rfl rfl h.balOther rfl hr (h.vs.mono hr)

theorem g1_pause {T0 : Nat} {hash : List Nat → List Nat} {s s' : State} {e : Env} {o : Out}
    {r : Nat} (h : g1_WF T0 s r) (hr : r ≤ e.round)
    (hs : step hash s e .pause = .ok (s', o)) : g1_WF T0 s' e.round := by
  obtain ⟨t, hx, rfl⟩ := rb_step_np (by intro m hm; simp [endpointMeta] at hm; rw [← hm]) hs
  simp only [exec, pure_ok_iff] at hx
  subst hx
  exact g1_WF_same_cfg h rfl rfl rfl rfl rfl h.balOther rfl hr (h.vs.mono hr)

theorem g1_unpause {T0 : Nat} {hash : List Nat → List Nat} {s s' : State} {e : Env} {o : Out}
    {r : Nat} (h : g1_WF T0 s r) (hr : r ≤ e.round)
    (hs : step hash s e .unpause = .ok (s', o)) : g1_WF T0 s' e.round := by
  obtain ⟨t, hx, rfl⟩ := rb_step_np (by intro m hm; simp [endpointMeta] at hm; rw [← hm]) hs
  simp only [exec, pure_ok_iff] at hx
  subst hx
  exact g1_WF_same_cfg h rfl rfl rfl rfl rfl h.balOther rfl hr (h.vs.mono hr)

theorem g1_setPerTicket {T0 : Nat} {hash : List Nat → List Nat} {s s' : State} {e : Env} {o : Out}
    {r a : Nat} (h : g1_WF T0 s r) (hr : r ≤ e.round)
    (hs : step hash s e (.setPerTicket a) = .ok (s', o)) : g1_WF T0 s' e.round := by
  obtain ⟨t, hx, rfl⟩ := rb_step_np (by intro m hm; simp [endpointMeta] at hm; rw [← hm]) hs
  obtain ⟨h1, hst, h3, _⟩ := exec_setPerTicket_s hx
  simp only [rbTx_s] at hst h3
  have hns : s.flags.started = false :=
    g1_notStarted_of_lt h hr (Or.inl (rb_stage_addTickets hst))
  obtain ⟨hna, _⟩ := v1_phase_notStarted h.phase hns
  have hna' : s.flags.additional = false := hna
  rw [h1]
  refine g1_WF_same_cfg h rfl rfl rfl rfl rfl h.balOther rfl hr ?_
  have hl := h.vs.lp
  have hd : s.deposited = false := h3
  refine ⟨⟨hl.sched, fun _ => hl.nodep hd, fun _ => ⟨(hl.pre hna).fresh, fun hq => ?_⟩, fun hq => ?_⟩,
    h.vs.sch, (h.vs.mono hr).exact⟩
  · have : s.deposited = true := hq
    rw [hd] at this; cases this
  · have : s.flags.additional = true := hq
    rw [hna'] at this; cases this

/-! ### the unlock schedule -/

/-- `setSchedule1` is accepted only before the confirmation period or while no schedule is
    stored; in both cases nothing has been released so far, so the exactness clause is trivially
    re-established for the new schedule -/
theorem g1_setSchedule1 {T0 : Nat} {hash : List Nat → List Nat} {s s' : State} {e : Env} {o : Out}
    {r a b c d f : Nat} (h : g1_WF T0 s r) (hr : r ≤ e.round)
    (hs : step hash s e (.setSchedule1 a b c d f) = .ok (s', o)) : g1_WF T0 s' e.round := by
  obtain ⟨t, hx, rfl⟩ := rb_step_np (by
    intro m hm; simp only [endpointMeta] at hm; split at hm
    · simp at hm; rw [← hm]
    · cases hm) hs
  simp only [exec, bind_ok_iff, pure_ok_iff] at hx
  obtain ⟨s1, h1, rfl⟩ := hx
  obtain ⟨hwin, _, hv1, hv2, rfl⟩ := (setSchedule1_eq_ok ..).1 h1
  simp only [rbTx_s] at hwin
  refine g1_WF_same_cfg h rfl rfl rfl rfl rfl h.balOther rfl hr ?_
  refine ⟨h.vs.lp, ?_, fun u => Or.inl ?_⟩
  · intro x hx
    have hx' : some (⟨a, b, c, d, f⟩ : Sched1) = some x := hx
    injection hx' with hx'
    subst hx'
    exact ⟨hv1, hv2⟩
  · show s.userClaimed u = 0
    rcases hwin with hlt | hnone
    · have hns : s.flags.started = false := g1_notStarted_of_lt h hr (Or.inl hlt)
      obtain ⟨hna, _⟩ := v1_phase_notStarted h.phase hns
      exact (h.vs.fresh hna u).2.1
    · rcases h.vs.exact u with h0 | ⟨r', _, h0⟩
      · exact h0
      · have h0' : s.userClaimed u = entitled (s.userTotal u) (pct1 r' s.sched1) := h0
        rw [h0', hnone]
        simp [pct1, entitled]

theorem g1_setConfStart {T0 : Nat} {hash : List Nat → List Nat} {s s' : State} {e : Env} {o : Out}
    {r x : Nat} (h : g1_WF T0 s r) (hr : r ≤ e.round)
    (hs : step hash s e (.setConfStart x) = .ok (s', o)) : g1_WF T0 s' e.round := by
  obtain ⟨t, hx, rfl⟩ := rb_step_np (by intro m hm; simp [endpointMeta] at hm; rw [← hm]) hs
  obtain ⟨h1, h2, h3⟩ := exec_setConfStart_s hx
  have h2' : e.round < s.cfg.conf := h2
  rw [h1]
  refine g1_WF_of_core h rfl rfl rfl rfl rfl h.balOther ?_ ?_ (h.vs.mono hr)
  · intro _; exact h.tlConf (by omega)
  · intro hst; have := h.tlStarted hst; omega

theorem g1_setSelStart {T0 : Nat} {hash : List Nat → List Nat} {s s' : State} {e : Env} {o : Out}
    {r x : Nat} (h : g1_WF T0 s r) (hr : r ≤ e.round)
    (hs : step hash s e (.setSelStart x) = .ok (s', o)) : g1_WF T0 s' e.round := by
  obtain ⟨t, hx, rfl⟩ := rb_step_np (by intro m hm; simp [endpointMeta] at hm; rw [← hm]) hs
  obtain ⟨h1, h2, h3⟩ := exec_setSelStart_s hx
  have h2' : e.round < s.cfg.sel := h2
  rw [h1]
  refine g1_WF_of_core h rfl rfl rfl rfl rfl h.balOther ?_ ?_ (h.vs.mono hr)
  · intro hlt; exact h.tlConf (by have : e.round < s.cfg.conf := hlt; omega)
  · intro hst; have := h.tlStarted hst; omega

theorem g1_setClaimStart {T0 : Nat} {hash : List Nat → List Nat} {s s' : State} {e : Env} {o : Out}
    {r x : Nat} (h : g1_WF T0 s r) (hr : r ≤ e.round)
    (hs : step hash s e (.setClaimStart x) = .ok (s', o)) : g1_WF T0 s' e.round := by
  obtain ⟨t, hx, rfl⟩ := rb_step_np (by intro m hm; simp [endpointMeta] at hm; rw [← hm]) hs
  rw [(exec_setClaimStart_s hx).1]
  refine g1_WF_of_core h rfl rfl rfl rfl rfl h.balOther ?_ ?_ (h.vs.mono hr)
  · intro hlt; exact h.tlConf (by have : e.round < s.cfg.conf := hlt; omega)
  · intro hst
    have := h.tlStarted hst
    show s.cfg.conf ≤ e.round ∧ s.cfg.sel ≤ e.round
    omega

/-! ### deposit -/

theorem g1_deposit {T0 : Nat} {hash : List Nat → List Nat} {s s' : State} {e : Env} {o : Out}
    {r : Nat} (h : g1_WF T0 s r) (hr : r ≤ e.round) (hok : EnvOK e)
    (hs : step hash s e .deposit = .ok (s', o)) : g1_WF T0 s' e.round := by
  obtain ⟨m, t, _, _, _, hx, rfl, _⟩ := step_ok_inv hs
  have hx' := hx
  simp only [exec, bind_ok_iff, pure_ok_iff] at hx'
  obtain ⟨s1, hd, _⟩ := hx'
  obtain ⟨he1, he2⟩ := v1_deposit_payment hd hok
  have hlp : (tx0 s e).s.lpTok = s.lpTok := rfl
  have hpt : (tx0 s e).s.perTicket = s.perTicket := rfl
  have hnw : (tx0 s e).s.nrWinning = s.nrWinning := rfl
  have hres : reservedForDeposit (tx0 s e).s = s.totalGuaranteed := by
    unfold reservedForDeposit
    have : (tx0 s e).s.variant = s.variant := rfl
    rw [this, (g1_flags h.var).2.2.2.2.1]; rfl
  rw [hlp, hpt, hnw, hres] at he2
  obtain ⟨amt, hamt⟩ : ∃ amt, amt = s.perTicket * (s.nrWinning + s.totalGuaranteed) := ⟨_, rfl⟩
  rw [← hamt] at he2
  have hcp := rb_credit_single s e _ _ he1 he2
  obtain ⟨hnd, h1⟩ := exec_deposit_s hx
  have hnd' : s.deposited = false := hnd
  rw [h1]
  have hts : (tx0 s e).s = creditPayments s e := rfl
  rw [hts, hcp]
  have hbal : ∀ t, t ≠ .esdt s.lpTok → (s.bal.add (.esdt s.lpTok) 0 amt) t 0 = s.bal t 0 := by
    intro t ht; simp [Bal.add, ht]
  have hbl : (s.bal.add (.esdt s.lpTok) 0 amt) (.esdt s.lpTok) 0 = s.bal (.esdt s.lpTok) 0 + amt := by
    simp [Bal.add]
  have hl := h.vs.lp
  obtain ⟨_, hz2, hz3, hz4, hz5⟩ := hl.nodep hnd'
  have hz2' : s.bal (.esdt s.lpTok) 0 = 0 := hz2
  have hz4' : ∀ a, s.userTotal a = 0 ∧ s.userClaimed a = 0 := hz4
  have hrsd : reservedForDeposit { s with bal := s.bal.add (.esdt s.lpTok) 0 amt } = s.totalGuaranteed := by
    simp only [reservedForDeposit, (g1_flags h.var).2.2.2.2.1, if_true]
  refine g1_WF_same_cfg (s := s) h ?_ rfl rfl rfl rfl ?_ rfl hr ?_
  · show ({ s.core with payBal := (s.bal.add (.esdt s.lpTok) 0 amt) s.payTok 0 } : Core) = s.core
    rw [hbal _ h.tokNe]; rfl
  · intro t h1 h2
    show (s.bal.add (.esdt s.lpTok) 0 amt) t 0 = 0
    rw [hbal t h2]; exact h.balOther t h1 h2
  · refine ⟨?_, h.vs.sch, (h.vs.mono hr).exact⟩
    show LPI s.gcore
      { g1_lproj s with lpBal := (s.bal.add (.esdt s.lpTok) 0 amt) (.esdt s.lpTok) 0, deposited := true,
                        totalDeposited := s.perTicket * (s.nrWinning + reservedForDeposit { s with bal := s.bal.add (.esdt s.lpTok) 0 amt }) }
    rw [hbl, hz2', hrsd, Nat.zero_add, ← hamt]
    refine ⟨hl.sched, nofun, fun ha => ⟨(hl.pre ha).fresh, fun _ => ⟨rfl, by rw [hamt]; exact Nat.le_refl _⟩⟩,
      fun ha => ?_⟩
    have hnw0 : s.nrWinning = 0 := hz5 ha
    obtain ⟨⟨L, hnd2, hout, hAB⟩, hle, hun⟩ := hl.post ha
    refine ⟨⟨L, hnd2, hout, Or.inl ⟨?_, ?_⟩⟩, hle, hun⟩
    · show amt + sumOver s.userClaimed L = amt
      rw [sumOver_zero _ _ (fun a _ => (hz4' a).2)]; rfl
    · have hsum0 : sumOver s.userTotal L = 0 := sumOver_zero _ _ (fun a _ => (hz4' a).1)
      rcases hAB with ⟨_, W, w1, w2, w3⟩ | ⟨_, b2, _⟩
      · refine ⟨W, w1, w2, ?_⟩
        have w2' : W * s.perTicket = s.perTicket * s.nrWinning + sumOver s.userTotal L := w2
        rw [hsum0, hnw0] at w2'
        show W * s.perTicket ≤ amt
        rw [w2']; simp
      · refine ⟨0, ?_, ?_, by simp⟩
        · show s.claimablePayment = s.price * 0
          have : s.claimablePayment = 0 := b2
          rw [this]; simp
        · show 0 * s.perTicket = s.perTicket * s.nrWinning + sumOver s.userTotal L
          rw [hsum0, hnw0]; simp

/-! ### setTicketPrice -/

theorem g1_setTicketPrice {T0 : Nat} {hash : List Nat → List Nat} {s s' : State} {e : Env} {o : Out}
    {r a : Nat} {tok : Token} (h : g1_WF T0 s r) (hr : r ≤ e.round)
    (hs : step hash s e (.setTicketPrice tok a) = .ok (s', o)) : g1_WF T0 s' e.round := by
  obtain ⟨t, hx, rfl⟩ := rb_step_np (by intro m hm; simp [endpointMeta] at hm; rw [← hm]) hs
  obtain ⟨h1, h2, h3, _, h5⟩ := exec_setTicketPrice_s hx
  have hlt : e.round < s.cfg.conf := rb_stage_addTickets h2
  have hz : ∀ a, s.confirmed a = 0 := h.tlConf (by omega)
  have hns : s.flags.started = false := g1_notStarted_of_lt h hr (Or.inl hlt)
  obtain ⟨hadd, htg, L0, hp, ha, hg⟩ := v1_phase_notStarted h.phase hns
  have hpay0 : s.bal s.payTok 0 = 0 := by
    have : s.bal s.payTok 0 = s.price * sumOver s.confirmed (L0.map Prod.fst) := hp.pay
    rw [sumOver_zero _ _ (fun a _ => hz a)] at this
    simpa using this
  have hb0 : ∀ t, t ≠ .esdt s.lpTok → s.bal t 0 = 0 := by
    intro t ht
    by_cases h1 : t = s.payTok
    · rw [h1]; exact hpay0
    · exact h.balOther t h1 ht
  rw [h1]
  refine ⟨h.var, h3, h5, h.static, fun t _ h2 => hb0 t h2, fun _ => hz, ?_,
    h.vs.early hr hadd hadd (Nat.le_refl _) (fun _ => hz), ?_⟩
  · intro hst; have := h.tlStarted hst; exact ⟨by omega, by omega⟩
  · refine v1_mk_phaseA hadd htg (L0 := L0)
      ⟨hp.notFiltered, hp.notSelected, hp.nrw, hp.status0, hp.pos0, hp.ok, hp.outC, hp.outR, ?_⟩
      ⟨ha.notStarted, ha.op, ha.chain, ha.last⟩ ⟨hg.gi, hg.bl_range⟩
    show s.bal tok 0 = a * sumOver s.confirmed (L0.map Prod.fst)
    rw [sumOver_zero _ _ (fun a _ => hz a), hb0 tok h5]; simp

/-! ### confirm -/

theorem g1_confirm {T0 : Nat} {hash : List Nat → List Nat} {s s' : State} {e : Env} {o : Out}
    {r n : Nat} (h : g1_WF T0 s r) (hr : r ≤ e.round) (hok : EnvOK e)
    (hs : step hash s e (.confirm n) = .ok (s', o)) : g1_WF T0 s' e.round := by
  obtain ⟨total, hacc, rfl, _⟩ := LP.Props.C07.confirm_effect hash s e n s' o hs
  have hbal := LP.Props.C07.confirm_holdings s e n total hacc hok
  obtain ⟨_, _, hst, hdep, _, htix, hle⟩ := hacc
  obtain ⟨hc1, hc2⟩ := rb_stage_confirm hst
  have hns : s.flags.started = false := g1_notStarted_of_lt h hr (Or.inr hc2)
  obtain ⟨hadd, htg, L0, hp, ha, hg⟩ := v1_phase_notStarted h.phase hns
  have hcp : creditPayments s e = { s with bal := s.bal.add s.payTok 0 (s.price * n) } := by
    have : creditPayments s e = { s with bal := (creditPayments s e).bal } := rfl
    rw [this, hbal]
  rw [hcp]
  -- the caller's allocation bounds the new total
  have hin : e.caller ∈ L0.map Prod.fst → ∀ p ∈ L0, p.1 = e.caller → s.confirmed e.caller + n ≤ p.2 := by
    intro _ p hp1 hpe
    have : total = p.2 := rb_ticketsFor_chain ha.chain hp.ok.pos hp1 (by rw [hpe]; exact htix)
    omega
  have hout : e.caller ∉ L0.map Prod.fst → n = 0 ∧ s.confirmed e.caller = 0 := by
    intro hnin
    have hrn : s.range e.caller = none := hp.outR _ hnin
    have hc0 : s.confirmed e.caller = 0 := hp.outC _ hnin
    unfold ticketsFor at htix
    rw [hrn] at htix
    simp only [Except.ok.injEq] at htix
    omega
  refine ⟨h.var, h.pricePos, h.tokNe, h.static, ?_, ?_, ?_, ?_, ?_⟩
  · intro t h1 h2
    show (s.bal.add s.payTok 0 (s.price * n)) t 0 = 0
    simp only [Bal.add, h1, false_and, if_false]
    exact h.balOther t h1 h2
  · intro hlt; exfalso; have : e.round < s.cfg.conf := hlt; omega
  · intro hst2; have := h.tlStarted hst2; exact ⟨by omega, by omega⟩
  · have hlj : ({ g1_lproj s with lpBal := (s.bal.add s.payTok 0 (s.price * n)) (.esdt s.lpTok) 0 } : LProj)
        = g1_lproj s := by
      have : (s.bal.add s.payTok 0 (s.price * n)) (.esdt s.lpTok) 0 = s.bal (.esdt s.lpTok) 0 := by
        have hne : Token.esdt s.lpTok ≠ s.payTok := fun hh => h.tokNe hh.symm
        simp [Bal.add, hne]
      rw [this]; rfl
    show g1_Vest _ ({ g1_lproj s with lpBal := (s.bal.add s.payTok 0 (s.price * n)) (.esdt s.lpTok) 0 } : LProj)
      s.sched1 e.round
    rw [hlj]
    refine h.vs.early hr hadd hadd (Nat.le_refl _) (fun hq => ?_)
    have : s.deposited = false := hq
    rw [hdep] at this; cases this
  · refine v1_mk_phaseA hadd htg (L0 := L0)
      ⟨hp.notFiltered, hp.notSelected, hp.nrw, hp.status0, hp.pos0,
        ⟨hp.ok.nodup, hp.ok.pos, ?_⟩, ?_, hp.outR, ?_⟩
      ⟨ha.notStarted, ha.op, ha.chain, ha.last⟩ ⟨hg.gi, hg.bl_range⟩
    · intro p hp1
      show upd s.confirmed e.caller (s.confirmed e.caller + n) p.1 ≤ p.2
      by_cases hpe : p.1 = e.caller
      · rw [hpe, upd_same]
        exact hin (by rw [← hpe]; exact List.mem_map_of_mem hp1) p hp1 hpe
      · rw [upd_other _ _ _ _ hpe]; exact hp.ok.le p hp1
    · intro a ha1
      show upd s.confirmed e.caller (s.confirmed e.caller + n) a = 0
      by_cases hae : a = e.caller
      · subst hae
        obtain ⟨hn0, hc0⟩ := hout ha1
        rw [upd_same, hn0, hc0]
      · rw [upd_other _ _ _ _ hae]; exact hp.outC a ha1
    · show (s.bal.add s.payTok 0 (s.price * n)) s.payTok 0
        = s.price * sumOver (upd s.confirmed e.caller (s.confirmed e.caller + n)) (L0.map Prod.fst)
      have hpay : s.bal s.payTok 0 = s.price * sumOver s.confirmed (L0.map Prod.fst) := hp.pay
      simp only [Bal.add, and_self, if_true, hpay]
      by_cases hmem : e.caller ∈ L0.map Prod.fst
      · have := sumOver_upd_mem s.confirmed (L0.map Prod.fst) e.caller (s.confirmed e.caller + n)
          hp.ok.nodup hmem
        have e1 : sumOver (upd s.confirmed e.caller (s.confirmed e.caller + n)) (L0.map Prod.fst)
            = sumOver s.confirmed (L0.map Prod.fst) + n := by omega
        rw [e1, Nat.mul_add]
      · obtain ⟨hn0, _⟩ := hout hmem
        rw [sumOver_upd_not_mem _ _ _ _ hmem, hn0]; simp

end LP
