import LP.Proofs.ReachBEV1
import LP.Proofs.ReachBENft
import LP.Proofs.ReachNGBase
/-
  LP.Proofs.ReachBENG — `Variant.nftGuar` forms a `be_Family` (reachable states `ng_Reach hash`,
  side conditions `EnvOK`, `v1_CallOK`); a blacklisted participant is in neither NFT list.
-/
namespace LP
open LP.Props LP.Events LP.FY

theorem be_Tix_of_ng_Phase {T0 : Nat} {c : Core} {g : v1_G} (h : ng_Phase T0 c g) : be_Tix c := by
  rcases h with h | ⟨hF, rg, hop⟩
  · exact be_Tix_of_v1_PhaseC h
  · apply be_Tix_of_PhD_op hF.post
    intro f rm h1
    rw [hop] at h1; cases h1

theorem be_BV_reach_ng {hash : List Nat → List Nat} {s : State} {r : Nat}
    (h : ng_Reach hash s r) : be_BV s := by
  induction h with
  | init a e s h => exact be_BV_init h
  | call s r e c s' o _ _ _ _ h4 ih => exact be_BV_step ih h4
  | wait s r r' _ _ ih => exact ih

theorem be_good_ng {hash : List Nat → List Nat} {s : State} {r : Nat}
    (h : ng_Reach hash s r) : be_Good s := by
  obtain ⟨a0, ha⟩ := ng_Reach_iff.mp h
  have wf := ng_reach_WF ha
  have hnv : s.variant.vested = false := by rw [wf.var]; rfl
  have hbv := be_BV_reach_ng h
  have htix : be_Tix (nf_core s) := be_Tix_of_ng_Phase wf.phase
  exact ⟨be_Tix.of_payBal htix, hbv.1, hbv.2,
    fun h1 => (by rw [hnv] at h1; cases h1), fun h1 => (by rw [hnv] at h1; cases h1)⟩

theorem be_family_ng (hash : List Nat → List Nat) :
    be_Family hash be_POK1 (ng_Reach hash) :=
  ⟨fun hs hr hp hst => .call _ _ _ _ _ _ hs hr hp.1 hp.2 hst, fun hs hr => .wait _ _ _ hs hr,
    fun hs => be_good_ng hs⟩

/-- a blacklisted participant neither waits for the NFT draw nor has been drawn -/
theorem be_ng_not_listed {hash : List Nat → List Nat} {s : State} {r : Nat}
    (h : ng_Reach hash s r) {a : Nat} (hb : s.blacklist a = true) :
    a ∉ s.payers ∧ a ∉ s.nftWinners := by
  obtain ⟨a0, ha⟩ := ng_Reach_iff.mp h
  have hs := (ng_reach_WF ha).side
  have h0 : s.confirmed a = 0 := (be_BV_reach_ng h).1 a hb
  constructor
  · intro hm
    have : 0 < s.confirmed a := hs.conf a (Or.inl hm)
    omega
  · intro hm
    have : 0 < s.confirmed a := hs.conf a (Or.inr hm)
    omega

end LP
