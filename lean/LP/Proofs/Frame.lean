import LP.Proofs.StepLemmas
import LP.Proofs.Stage
/-
  LP.Proofs.Frame — FRAME lemmas: which storage fields a call can change.

  * `Terms` / `State.terms`   : the sale terms (fixed at deployment or changed only by the three
                                owner setters `setTicketPrice`, `setPerTicket`, `setNftCost`)
  * `Static` / `State.static` : terms + the two unlock schedules + the `deposited` flag + the
                                timeline `cfg`; every helper lemma is stated for this projection
                                (`X_static : X … = .ok r → r.static = input.static`), and the
                                `X_terms` lemmas are one-line corollaries (`static_terms`).
                                Projections out of an equality: `static_terms/sched1/sched2/deposited/cfg`,
                                `terms_price/payTok/perTicket/nftCost/variant/owner/lpTok`.
  * `runWhile_preserves`      : generic loop-invariant rule; `selectBody_tx_s`, `leftoverBody_tx_s`,
                                `nftBody_tx_s` (+ `runWhile_…_tx_s`): the loops that carry a `Tx`
                                never touch its state (`Tx.draw_s`, `Tx.freshRng_s`).
  * helpers (each doc comment lists the fields the helper can write):
      creditPayments, Tx.emit, Tx.setS, Tx.send (`Tx.send_s` exact), Tx.refund (`Tx.refund_pos`,
      `Tx.refund_zero` exact), tryCreateTickets, createMany, depositLaunchpadTokens (`_eq` exact),
      confirmTickets, settle, blacklistMany, addUsersToBlacklist, unblacklistMany,
      removeUsersFromBlacklist, filterTickets, selectWinners, Tx.sendLocked, Tx.sendLaunchpadTokens,
      addV1Many, addTicketsV1, addV2Many, addTicketsV2, clearV1Many, clearGuaranteedV1, clearV2Many,
      clearGuaranteedV2, restoreV1Many, restoreGuaranteedV1, restoreV2Many, restoreGuaranteedV2,
      guaranteedSubstep, creditAdditional, distribute, nftSubstep, selectNft, secondary, confirmNft,
      refundNftMany, claimNft, claimNftPayment, setSchedule1 (`_eq` exact), setSchedule2 (`_eq` exact),
      claimVested, claimPaymentOwn, claimPaymentCommon.
  * `exec`: `Call.setsTerms`, `Call.setsStatic`, `ownerEdit`, `exec_static`, `exec_static_cases`,
      `exec_terms`, exact effect + gate of the nine owner endpoints (`exec_setTicketPrice_s`, …).
  * `step`: `step_static_cases`, `static_frame`, `terms_frame` (`terms_frame_b`),
      `setTicketPrice_terms`, `setPerTicket_terms`, `setNftCost_terms`, `price_frame`,
      `perTicket_frame`, `nftCost_frame`, `sched1_frame`, `sched2_frame`, `deposited_frame`,
      `deposited_mono`, `cfg_frame`, `conf_frozen_once_reached`.
  (`flags` is treated in LP.Proofs.FrameFlags.)
-/
namespace LP

/-- strip leading `∃`/`∧` layers of hypothesis `h`, keeping the last component under the name `h` -/
macro "lp_peel " h:ident : tactic => `(tactic| repeat (cases $h:ident with | intro _ $h))

/-! ### the projections -/

/-- the sale terms -/
structure Terms where
  variant : Variant
  owner : Nat
  lpTok : Nat
  perTicket : Nat
  payTok : Token
  price : Nat
  minConfirmed : Nat
  lockPct : Nat
  unlockEpoch : Nat
  lockAddr : Nat
  nftCost : Pay
  availNfts : Nat
  deriving DecidableEq

def State.terms (s : State) : Terms :=
  { variant := s.variant, owner := s.owner, lpTok := s.lpTok, perTicket := s.perTicket,
    payTok := s.payTok, price := s.price, minConfirmed := s.minConfirmed, lockPct := s.lockPct,
    unlockEpoch := s.unlockEpoch, lockAddr := s.lockAddr, nftCost := s.nftCost,
    availNfts := s.availNfts }

/-- terms, unlock schedules, the `deposited` flag and the timeline: everything that only dedicated
    owner endpoints (`setTicketPrice`, `setPerTicket`, `setNftCost`, `setSchedule1`, `setSchedule2`,
    `deposit`, `setConfStart`, `setSelStart`, `setClaimStart`) can change -/
structure Static where
  terms : Terms
  sched1 : Option Sched1
  sched2 : Option (List (Nat × Nat))
  deposited : Bool
  cfg : Cfg
  deriving DecidableEq

def State.static (s : State) : Static :=
  { terms := s.terms, sched1 := s.sched1, sched2 := s.sched2, deposited := s.deposited, cfg := s.cfg }

theorem static_terms {s s' : State} (h : s'.static = s.static) : s'.terms = s.terms :=
  congrArg Static.terms h
theorem static_sched1 {s s' : State} (h : s'.static = s.static) : s'.sched1 = s.sched1 :=
  congrArg Static.sched1 h
theorem static_sched2 {s s' : State} (h : s'.static = s.static) : s'.sched2 = s.sched2 :=
  congrArg Static.sched2 h
theorem static_deposited {s s' : State} (h : s'.static = s.static) : s'.deposited = s.deposited :=
  congrArg Static.deposited h
theorem static_cfg {s s' : State} (h : s'.static = s.static) : s'.cfg = s.cfg :=
  congrArg Static.cfg h

theorem terms_price {s s' : State} (h : s'.terms = s.terms) : s'.price = s.price :=
  congrArg Terms.price h
theorem terms_payTok {s s' : State} (h : s'.terms = s.terms) : s'.payTok = s.payTok :=
  congrArg Terms.payTok h
theorem terms_perTicket {s s' : State} (h : s'.terms = s.terms) : s'.perTicket = s.perTicket :=
  congrArg Terms.perTicket h
theorem terms_nftCost {s s' : State} (h : s'.terms = s.terms) : s'.nftCost = s.nftCost :=
  congrArg Terms.nftCost h
theorem terms_variant {s s' : State} (h : s'.terms = s.terms) : s'.variant = s.variant :=
  congrArg Terms.variant h
theorem terms_owner {s s' : State} (h : s'.terms = s.terms) : s'.owner = s.owner :=
  congrArg Terms.owner h
theorem terms_lpTok {s s' : State} (h : s'.terms = s.terms) : s'.lpTok = s.lpTok :=
  congrArg Terms.lpTok h

/-! ### generic loop rule -/

/-- if the body preserves `P` then so does the loop (whatever the fuel, budget and status) -/
theorem runWhile_preserves {σ : Type} (P : σ → Prop) (body : σ → Res (σ × Bool))
    (hb : ∀ x x' c, body x = .ok (x', c) → P x → P x') :
    ∀ (fuel : Nat) (b : Option Nat) (s s' : σ) (b' : Option Nat) (st : LoopStatus),
      runWhile body fuel b s = .ok (s', b', st) → P s → P s' := by
  intro fuel
  induction fuel with
  | zero =>
    intro b s s' b' st h hp
    simp only [runWhile, Except.ok.injEq, Prod.mk.injEq] at h
    obtain ⟨rfl, _, _⟩ := h
    exact hp
  | succ n ih =>
    intro b s s' b' st h hp
    cases hbs : body s with
    | error e => simp [runWhile, hbs] at h
    | ok r =>
      obtain ⟨x, c⟩ := r
      have hx : P x := hb s x c hbs hp
      cases c with
      | false =>
        simp only [runWhile, hbs, Except.ok.injEq, Prod.mk.injEq] at h
        obtain ⟨rfl, _, _⟩ := h
        exact hx
      | true =>
        cases b with
        | none =>
          simp only [runWhile, hbs] at h
          exact ih _ _ _ _ _ h hx
        | some k =>
          cases k with
          | zero =>
            simp only [runWhile, hbs, Except.ok.injEq, Prod.mk.injEq] at h
            obtain ⟨rfl, _, _⟩ := h
            exact hx
          | succ k =>
            simp only [runWhile, hbs] at h
            exact ih _ _ _ _ _ h hx

/-! ### primitive transaction operations -/

@[simp] theorem creditPayments_static (s : State) (e : Env) : (creditPayments s e).static = s.static := rfl
@[simp] theorem creditPayments_terms (s : State) (e : Env) : (creditPayments s e).terms = s.terms := rfl

@[simp] theorem Tx.emit_s (t : Tx) (ev : Ev) : (t.emit ev).s = t.s := rfl
@[simp] theorem Tx.setS_s (t : Tx) (s : State) : (t.setS s).s = s := rfl
@[simp] theorem Tx.setS_o (t : Tx) (s : State) : (t.setS s).o = t.o := rfl
@[simp] theorem Tx.setS_c (t : Tx) (s : State) : (t.setS s).c = t.c := rfl

/-- a `Tx.setS`-based update preserves `static` as soon as the written state does -/
theorem Tx.setS_static {t : Tx} {s : State} (h : s.static = t.s.static) : (t.setS s).s.static = t.s.static := h
theorem Tx.setS_terms {t : Tx} {s : State} (h : s.terms = t.s.terms) : (t.setS s).s.terms = t.s.terms := h

theorem Tx.emit_static (t : Tx) (ev : Ev) : (t.emit ev).s.static = t.s.static := rfl
theorem Tx.emit_terms (t : Tx) (ev : Ev) : (t.emit ev).s.terms = t.s.terms := rfl

/-- `freshRng` touches only the seed list of the call context -/
@[simp] theorem Tx.freshRng_s (t : Tx) : t.freshRng.2.s = t.s := by
  unfold Tx.freshRng; split <;> rfl

/-- `draw` touches only the script and the draw log -/
@[simp] theorem Tx.draw_s (hash : List Nat → List Nat) (t : Tx) (rng : Rng) :
    (t.draw hash rng).2.2.s = t.s := by
  unfold Tx.draw
  cases hs : t.c.script <;> rfl

/-- `send` changes only `bal` (and appends one transfer to the output) -/
theorem Tx.send_s {t t' : Tx} {a : Nat} {p : Pay} (h : t.send a p = .ok t') :
    t'.s = { t.s with bal := t.s.bal.sub p.tok p.nonce p.amount } ∧
    t'.o = { t.o with xfers := t.o.xfers ++ [(a, p)] } ∧ t'.c = t.c := by
  unfold Tx.send at h
  split at h
  · cases h
  · cases h; exact ⟨rfl, rfl, rfl⟩

theorem Tx.send_static {t t' : Tx} {a : Nat} {p : Pay} (h : t.send a p = .ok t') :
    t'.s.static = t.s.static := by
  rw [(Tx.send_s h).1]; rfl

theorem Tx.send_terms {t t' : Tx} {a : Nat} {p : Pay} (h : t.send a p = .ok t') :
    t'.s.terms = t.s.terms := static_terms (Tx.send_static h)

/-- `refund`: changes only `bal`; exact output for `n > 0`, identity for `n = 0` -/
theorem Tx.refund_zero {t t' : Tx} {e : Env} {a : Nat} (h : t.refund e a 0 = .ok t') : t' = t := by
  simp only [Tx.refund, if_true, Except.ok.injEq] at h
  exact h.symm

theorem Tx.refund_pos {t t' : Tx} {e : Env} {a n : Nat} (h : t.refund e a n = .ok t') (hn : n > 0) :
    t'.s = { t.s with bal := t.s.bal.sub t.s.payTok 0 (t.s.price * n) } ∧
    t'.o.xfers = t.o.xfers ++ [(a, ⟨t.s.payTok, 0, t.s.price * n⟩)] ∧
    t'.o.events = t.o.events ++ [⟨"refundTicketPayment", topics e,
      [e.caller, e.round, e.epoch, n, t.s.payTok.code, 0, t.s.price * n]⟩] ∧
    t'.c = t.c := by
  unfold Tx.refund at h
  rw [if_neg (by omega)] at h
  simp only [bind_ok_iff, pure_ok_iff] at h
  obtain ⟨t1, h1, rfl⟩ := h
  obtain ⟨hs, ho, hc⟩ := Tx.send_s h1
  refine ⟨?_, ?_, ?_, ?_⟩
  · simp [hs]
  · simp [Tx.emit, ho]
  · simp [Tx.emit, ho, hs]
  · simp [Tx.emit, hc]

theorem Tx.refund_static {t t' : Tx} {e : Env} {a n : Nat} (h : t.refund e a n = .ok t') :
    t'.s.static = t.s.static := by
  rcases Nat.eq_zero_or_pos n with rfl | hn
  · rw [Tx.refund_zero h]
  · rw [(Tx.refund_pos h hn).1]; rfl

theorem Tx.refund_terms {t t' : Tx} {e : Env} {a n : Nat} (h : t.refund e a n = .ok t') :
    t'.s.terms = t.s.terms := static_terms (Tx.refund_static h)

/-! ### launchpad-common helpers -/

/-- `tryCreateTickets` changes only `range`, `batch`, `lastTicketId` -/
theorem tryCreateTickets_static {s s' : State} {a n : Nat} (h : tryCreateTickets s a n = .ok s') :
    s'.static = s.static := by
  unfold tryCreateTickets at h
  simp only [bind_ok_iff, pure_ok_iff, req_ok_iff, exists_const] at h
  obtain ⟨_, _, rfl⟩ := h
  rfl

theorem tryCreateTickets_terms {s s' : State} {a n : Nat} (h : tryCreateTickets s a n = .ok s') :
    s'.terms = s.terms := static_terms (tryCreateTickets_static h)

/-- `createMany` changes only `range`, `batch`, `lastTicketId` -/
theorem createMany_static : ∀ (l : List (Nat × Nat)) {s s' : State}, createMany l s = .ok s' →
    s'.static = s.static
  | [], s, s', h => by simp only [createMany, Except.ok.injEq] at h; rw [h]
  | (a, n) :: rest, s, s', h => by
    unfold createMany at h
    cases h1 : tryCreateTickets s a n with
    | error e => simp [h1] at h
    | ok s1 =>
      simp only [h1] at h
      exact (createMany_static rest h).trans (tryCreateTickets_static h1)

theorem createMany_terms {l : List (Nat × Nat)} {s s' : State} (h : createMany l s = .ok s') :
    s'.terms = s.terms := static_terms (createMany_static l h)

/-- `depositLaunchpadTokens` changes only `deposited` (false → true) and `totalDeposited` -/
theorem depositLaunchpadTokens_eq {s s' : State} {e : Env} {tw : Nat}
    (h : depositLaunchpadTokens s e tw = .ok s') :
    s.deposited = false ∧ s' = { s with deposited := true, totalDeposited := s.perTicket * tw } := by
  unfold depositLaunchpadTokens at h
  simp only [bind_ok_iff, pure_ok_iff, req_ok_iff, exists_const, Prod.exists] at h
  obtain ⟨hd, tok, amt, _, _, hamt, rfl⟩ := h
  have : amt = s.perTicket * tw := by simpa using hamt
  subst this
  exact ⟨by simpa using hd, rfl⟩

theorem depositLaunchpadTokens_terms {s s' : State} {e : Env} {tw : Nat}
    (h : depositLaunchpadTokens s e tw = .ok s') : s'.terms = s.terms := by
  rw [(depositLaunchpadTokens_eq h).2]; rfl

theorem depositLaunchpadTokens_sched {s s' : State} {e : Env} {tw : Nat}
    (h : depositLaunchpadTokens s e tw = .ok s') :
    s'.sched1 = s.sched1 ∧ s'.sched2 = s.sched2 ∧ s'.deposited = true := by
  rw [(depositLaunchpadTokens_eq h).2]; exact ⟨rfl, rfl, rfl⟩

/-- `confirmTickets` changes only `confirmed` (and emits one event) -/
theorem confirmTickets_static {t t' : Tx} {e : Env} {n : Nat} (h : confirmTickets t e n = .ok t') :
    t'.s.static = t.s.static := by
  unfold confirmTickets at h
  simp only [bind_ok_iff, pure_ok_iff, req_ok_iff, exists_const, Prod.exists] at h
  lp_peel h
  subst h
  rfl

theorem confirmTickets_terms {t t' : Tx} {e : Env} {n : Nat} (h : confirmTickets t e n = .ok t') :
    t'.s.terms = t.s.terms := static_terms (confirmTickets_static h)

/-- `settle` changes only `status`, `posToId`, `confirmed`, `range`, `batch`, `nrWinning`, `claimed` -/
theorem settle_static {s s' : State} {e : Env} {a b : Nat} (h : settle s e = .ok (s', a, b)) :
    s'.static = s.static := by
  unfold settle at h
  simp only [bind_ok_iff, req_ok_iff, exists_const] at h
  obtain ⟨_, _, _, h⟩ := h
  split at h
  · cases h
  · split at h <;> simp only [bind_ok_iff, pure_ok_iff, Prod.mk.injEq] at h <;>
      (obtain ⟨_, _, _, _, rfl, _, _⟩ := h; rfl)

theorem settle_terms {s s' : State} {e : Env} {a b : Nat} (h : settle s e = .ok (s', a, b)) :
    s'.terms = s.terms := static_terms (settle_static h)

/-- `blacklistMany` changes only `bal`, `confirmed`, `blacklist` -/
theorem blacklistMany_static (e : Env) : ∀ (l : List Nat) {t t' : Tx}, blacklistMany e l t = .ok t' →
    t'.s.static = t.s.static
  | [], t, t', h => by simp only [blacklistMany, Except.ok.injEq] at h; rw [h]
  | a :: rest, t, t', h => by
    unfold blacklistMany at h
    split at h
    · cases h
    · split at h
      · cases h
      · dsimp only at h
        split at h
        · cases h
        · rename_i t1 h1
          refine (blacklistMany_static e rest h).trans ?_
          have h2 : t1.s.static = t.s.static := by
            split at h1
            · exact Tx.refund_static h1
            · cases h1; rfl
          simp only [Tx.setS_s]
          split <;> exact h2

theorem blacklistMany_terms {e : Env} {l : List Nat} {t t' : Tx} (h : blacklistMany e l t = .ok t') :
    t'.s.terms = t.s.terms := static_terms (blacklistMany_static e l h)

theorem addUsersToBlacklist_static {t t' : Tx} {e : Env} {l : List Nat}
    (h : addUsersToBlacklist t e l = .ok t') : t'.s.static = t.s.static := by
  unfold addUsersToBlacklist at h
  simp only [bind_ok_iff] at h
  obtain ⟨_, _, _, _, h⟩ := h
  exact blacklistMany_static e l h

theorem addUsersToBlacklist_terms {t t' : Tx} {e : Env} {l : List Nat}
    (h : addUsersToBlacklist t e l = .ok t') : t'.s.terms = t.s.terms :=
  static_terms (addUsersToBlacklist_static h)

/-- `unblacklistMany` changes only `blacklist` -/
theorem unblacklistMany_static : ∀ (l : List Nat) {s s' : State}, unblacklistMany l s = .ok s' →
    s'.static = s.static
  | [], s, s', h => by simp only [unblacklistMany, Except.ok.injEq] at h; rw [h]
  | a :: rest, s, s', h => by
    unfold unblacklistMany at h
    split at h
    · exact (unblacklistMany_static rest h).trans rfl
    · cases h

theorem unblacklistMany_terms {l : List Nat} {s s' : State} (h : unblacklistMany l s = .ok s') :
    s'.terms = s.terms := static_terms (unblacklistMany_static l h)

theorem removeUsersFromBlacklist_static {s s' : State} {e : Env} {l : List Nat}
    (h : removeUsersFromBlacklist s e l = .ok s') : s'.static = s.static := by
  unfold removeUsersFromBlacklist at h
  simp only [bind_ok_iff] at h
  obtain ⟨_, _, _, _, h⟩ := h
  exact unblacklistMany_static l h

theorem removeUsersFromBlacklist_terms {s s' : State} {e : Env} {l : List Nat}
    (h : removeUsersFromBlacklist s e l = .ok s') : s'.terms = s.terms :=
  static_terms (removeUsersFromBlacklist_static h)

/-- `filterTickets` changes only `range`, `batch`, `flags`, `op`, `nrWinning`, `lastTicketId` -/
theorem filterTickets_static {t t' : Tx} {e : Env} (h : filterTickets t e = .ok t') :
    t'.s.static = t.s.static := by
  unfold filterTickets at h
  cases hop : t.s.op <;>
    simp only [hop, bind_ok_iff, req_ok_iff, pure_ok_iff, exists_const, Prod.exists, reduceCtorEq, false_and, and_false] at h
  all_goals
    lp_peel h
    split at h
    · cases h
    · cases h; rfl
    · simp only [bind_ok_iff, pure_ok_iff] at h
      lp_peel h
      subst h
      rfl

/-- `selectWinners` changes only `status`, `posToId`, `op`, `flags`, `claimablePayment` -/
theorem selectWinners_static {hash : List Nat → List Nat} {t t' : Tx} {e : Env}
    (h : selectWinners hash t e = .ok t') : t'.s.static = t.s.static := by
  unfold selectWinners at h
  cases hop : t.s.op <;>
    simp only [hop, bind_ok_iff, req_ok_iff, pure_ok_iff, exists_const, Prod.exists, reduceCtorEq, false_and, and_false] at h
  all_goals
    lp_peel h
    split at h
    · cases h
    · cases h; rfl
    · cases h; rfl

/-- `sendLocked` changes only `bal` -/
theorem Tx.sendLocked_static {t t' : Tx} {e : Env} {d a : Nat} (h : t.sendLocked e d a = .ok t') :
    t'.s.static = t.s.static := by
  unfold Tx.sendLocked at h
  dsimp only at h
  generalize (if e.epoch < t.s.unlockEpoch then lockSplit a t.s.lockPct else 0) = la at h
  split at h
  · simp only [bind_ok_iff, pure_ok_iff] at h
    obtain ⟨t0, h0, t1, rfl, h2⟩ := h
    have e1 := Tx.send_static h0
    split at h2
    · exact (Tx.send_static h2).trans e1
    · cases h2; exact e1
  · simp only [bind_ok_iff, pure_ok_iff] at h
    obtain ⟨t1, rfl, h2⟩ := h
    split at h2
    · exact Tx.send_static h2
    · cases h2; rfl

/-- `sendLaunchpadTokens` changes only `bal` -/
theorem Tx.sendLaunchpadTokens_static {t t' : Tx} {e : Env} {a n : Nat}
    (h : t.sendLaunchpadTokens e a n = .ok t') : t'.s.static = t.s.static := by
  unfold Tx.sendLaunchpadTokens at h
  split at h
  · cases h; rfl
  · dsimp only at h
    split at h
    · exact Tx.sendLocked_static h
    · exact Tx.send_static h

theorem filterTickets_terms {t t' : Tx} {e : Env} (h : filterTickets t e = .ok t') :
    t'.s.terms = t.s.terms := static_terms (filterTickets_static h)
theorem selectWinners_terms {hash : List Nat → List Nat} {t t' : Tx} {e : Env}
    (h : selectWinners hash t e = .ok t') : t'.s.terms = t.s.terms :=
  static_terms (selectWinners_static h)
theorem Tx.sendLocked_terms {t t' : Tx} {e : Env} {d a : Nat} (h : t.sendLocked e d a = .ok t') :
    t'.s.terms = t.s.terms := static_terms (Tx.sendLocked_static h)
theorem Tx.sendLaunchpadTokens_terms {t t' : Tx} {e : Env} {a n : Nat}
    (h : t.sendLaunchpadTokens e a n = .ok t') : t'.s.terms = t.s.terms :=
  static_terms (Tx.sendLaunchpadTokens_static h)

/-! ### guaranteed-ticket helpers -/

/-- `addV1Many` changes only `range`, `batch`, `lastTicketId`, `whitelist`, `uts` -/
theorem addV1Many_static : ∀ (l : List (Nat × Nat × Nat × Bool)) {acc acc' : State × Nat × Nat},
    addV1Many l acc = .ok acc' → acc'.1.static = acc.1.static
  | [], acc, acc', h => by simp only [addV1Many, Except.ok.injEq] at h; rw [h]
  | (buyer, staking, energy, migrated) :: rest, (s, tw, tg), acc', h => by
    unfold addV1Many at h
    cases h1 : tryCreateTickets s buyer (staking + energy) with
    | error e => simp [h1] at h
    | ok s1 =>
      simp only [h1] at h
      have e1 := tryCreateTickets_static h1
      repeat' (split at h)
      all_goals first | (cases h; done) | exact (addV1Many_static rest h).trans e1

theorem addTicketsV1_static {s s' : State} {e : Env} {l : List (Nat × Nat × Nat × Bool)}
    (h : addTicketsV1 s e l = .ok s') : s'.static = s.static := by
  unfold addTicketsV1 at h
  simp only [bind_ok_iff, pure_ok_iff, Prod.exists] at h
  obtain ⟨_, _, s1, tw, tg, h1, rfl⟩ := h
  exact addV1Many_static l h1

/-- `addV2Many` changes only `range`, `batch`, `lastTicketId`, `whitelist`, `uts` -/
theorem addV2Many_static (e : Env) : ∀ (l : List (Nat × Nat × List (Nat × Nat)))
    {acc acc' : State × Nat × Nat × Nat × Nat × Nat},
    addV2Many e l acc = .ok acc' → acc'.1.static = acc.1.static
  | [], acc, acc', h => by simp only [addV2Many, Except.ok.injEq] at h; rw [h]
  | (buyer, n, infos) :: rest, (s, tw, tg, uc, ta, ga), acc', h => by
    unfold addV2Many at h
    split at h
    · exact addV2Many_static e rest h
    · split at h
      · cases h
      · split at h
        · cases h
        · split at h
          · cases h
          · cases h1 : tryCreateTickets s buyer n with
            | error e => simp [h1] at h
            | ok s1 =>
              simp only [h1] at h
              have e1 := tryCreateTickets_static h1
              repeat' (split at h)
              all_goals first | (cases h; done) | exact (addV2Many_static e rest h).trans e1

theorem addTicketsV2_static {t t' : Tx} {e : Env} {l : List (Nat × Nat × List (Nat × Nat))}
    (h : addTicketsV2 t e l = .ok t') : t'.s.static = t.s.static := by
  unfold addTicketsV2 at h
  simp only [bind_ok_iff, pure_ok_iff, Prod.exists] at h
  obtain ⟨_, _, s1, tw, tg, uc, ta, ga, h1, rfl⟩ := h
  exact addV2Many_static e l h1

/-- `clearV1Many` changes only `whitelist`, `uts`, `blUts` -/
theorem clearV1Many_static : ∀ (l : List Nat) {acc acc' : State × Nat × Nat},
    clearV1Many l acc = .ok acc' → acc'.1.static = acc.1.static
  | [], acc, acc', h => by simp only [clearV1Many, Except.ok.injEq] at h; rw [h]
  | u :: rest, (s, removed, tg), acc', h => by
    unfold clearV1Many at h
    dsimp only at h
    repeat' (split at h)
    all_goals first | (cases h; done) | exact (clearV1Many_static rest h).trans rfl

/-- `clearGuaranteedV1` changes only `whitelist`, `uts`, `blUts`, `nrWinning`, `totalGuaranteed` -/
theorem clearGuaranteedV1_static {s s' : State} {l : List Nat} (h : clearGuaranteedV1 s l = .ok s') :
    s'.static = s.static := by
  unfold clearGuaranteedV1 at h
  simp only [bind_ok_iff, pure_ok_iff, Prod.exists] at h
  obtain ⟨s1, _, _, h1, rfl⟩ := h
  exact clearV1Many_static l h1

/-- `clearV2Many` changes only `whitelist`, `uts`, `blUts` -/
theorem clearV2Many_static : ∀ (l : List Nat) {acc acc' : State × Nat × Nat},
    clearV2Many l acc = .ok acc' → acc'.1.static = acc.1.static
  | [], acc, acc', h => by simp only [clearV2Many, Except.ok.injEq] at h; rw [h]
  | u :: rest, (s, nw, tg), acc', h => by
    unfold clearV2Many at h
    dsimp only at h
    repeat' (split at h)
    all_goals first | (cases h; done) | exact (clearV2Many_static rest h).trans rfl

theorem clearGuaranteedV2_static {s s' : State} {l : List Nat} (h : clearGuaranteedV2 s l = .ok s') :
    s'.static = s.static := by
  unfold clearGuaranteedV2 at h
  simp only [bind_ok_iff, pure_ok_iff, Prod.exists] at h
  obtain ⟨s1, _, _, h1, rfl⟩ := h
  exact clearV2Many_static l h1

/-- `restoreV1Many` changes only `whitelist`, `uts`, `blUts` -/
theorem restoreV1Many_static : ∀ (l : List Nat) {acc acc' : State × Nat × Nat},
    restoreV1Many l acc = .ok acc' → acc'.1.static = acc.1.static
  | [], acc, acc', h => by simp only [restoreV1Many, Except.ok.injEq] at h; rw [h]
  | u :: rest, (s, nw, tg), acc', h => by
    unfold restoreV1Many at h
    dsimp only at h
    repeat' (split at h)
    all_goals first | (cases h; done) | exact (restoreV1Many_static rest h).trans rfl

theorem restoreGuaranteedV1_static {s s' : State} {l : List Nat} (h : restoreGuaranteedV1 s l = .ok s') :
    s'.static = s.static := by
  unfold restoreGuaranteedV1 at h
  simp only [bind_ok_iff, pure_ok_iff, Prod.exists] at h
  obtain ⟨s1, _, _, h1, rfl⟩ := h
  exact restoreV1Many_static l h1

/-- `restoreV2Many` changes only `whitelist`, `uts`, `blUts` -/
theorem restoreV2Many_static : ∀ (l : List Nat) {acc acc' : State × Nat × Nat},
    restoreV2Many l acc = .ok acc' → acc'.1.static = acc.1.static
  | [], acc, acc', h => by simp only [restoreV2Many, Except.ok.injEq] at h; rw [h]
  | u :: rest, (s, nw, tg), acc', h => by
    unfold restoreV2Many at h
    dsimp only at h
    repeat' (split at h)
    all_goals first | (cases h; done) | exact (restoreV2Many_static rest h).trans rfl

theorem restoreGuaranteedV2_static {s s' : State} {l : List Nat} (h : restoreGuaranteedV2 s l = .ok s') :
    s'.static = s.static := by
  unfold restoreGuaranteedV2 at h
  simp only [bind_ok_iff, pure_ok_iff, Prod.exists] at h
  obtain ⟨s1, _, _, h1, rfl⟩ := h
  exact restoreV2Many_static l h1

/-! `_terms` corollaries for the guaranteed-ticket helpers -/

theorem addV1Many_terms {l : List (Nat × Nat × Nat × Bool)} {acc acc' : State × Nat × Nat}
    (h : addV1Many l acc = .ok acc') : acc'.1.terms = acc.1.terms := static_terms (addV1Many_static l h)
theorem addTicketsV1_terms {s s' : State} {e : Env} {l : List (Nat × Nat × Nat × Bool)}
    (h : addTicketsV1 s e l = .ok s') : s'.terms = s.terms := static_terms (addTicketsV1_static h)
theorem addV2Many_terms {e : Env} {l : List (Nat × Nat × List (Nat × Nat))}
    {acc acc' : State × Nat × Nat × Nat × Nat × Nat}
    (h : addV2Many e l acc = .ok acc') : acc'.1.terms = acc.1.terms := static_terms (addV2Many_static e l h)
theorem addTicketsV2_terms {t t' : Tx} {e : Env} {l : List (Nat × Nat × List (Nat × Nat))}
    (h : addTicketsV2 t e l = .ok t') : t'.s.terms = t.s.terms := static_terms (addTicketsV2_static h)
theorem clearV1Many_terms {l : List Nat} {acc acc' : State × Nat × Nat}
    (h : clearV1Many l acc = .ok acc') : acc'.1.terms = acc.1.terms := static_terms (clearV1Many_static l h)
theorem clearGuaranteedV1_terms {s s' : State} {l : List Nat} (h : clearGuaranteedV1 s l = .ok s') :
    s'.terms = s.terms := static_terms (clearGuaranteedV1_static h)
theorem clearV2Many_terms {l : List Nat} {acc acc' : State × Nat × Nat}
    (h : clearV2Many l acc = .ok acc') : acc'.1.terms = acc.1.terms := static_terms (clearV2Many_static l h)
theorem clearGuaranteedV2_terms {s s' : State} {l : List Nat} (h : clearGuaranteedV2 s l = .ok s') :
    s'.terms = s.terms := static_terms (clearGuaranteedV2_static h)
theorem restoreV1Many_terms {l : List Nat} {acc acc' : State × Nat × Nat}
    (h : restoreV1Many l acc = .ok acc') : acc'.1.terms = acc.1.terms := static_terms (restoreV1Many_static l h)
theorem restoreGuaranteedV1_terms {s s' : State} {l : List Nat} (h : restoreGuaranteedV1 s l = .ok s') :
    s'.terms = s.terms := static_terms (restoreGuaranteedV1_static h)
theorem restoreV2Many_terms {l : List Nat} {acc acc' : State × Nat × Nat}
    (h : restoreV2Many l acc = .ok acc') : acc'.1.terms = acc.1.terms := static_terms (restoreV2Many_static l h)
theorem restoreGuaranteedV2_terms {s s' : State} {l : List Nat} (h : restoreGuaranteedV2 s l = .ok s') :
    s'.terms = s.terms := static_terms (restoreGuaranteedV2_static h)

/-! ### loop bodies that carry the transaction: only `Tx.draw` touches it -/

theorem selectBody_tx_s {hash : List Nat → List Nat} {nr last : Nat} {x x' : SelSt} {c : Bool}
    (h : selectBody hash nr last x = .ok (x', c)) : x'.tx.s = x.tx.s := by
  unfold selectBody at h
  dsimp only at h
  repeat' (split at h)
  all_goals
    simp only [Except.ok.injEq, Prod.mk.injEq] at h
    obtain ⟨rfl, _⟩ := h
    first | rfl | exact Tx.draw_s ..

theorem leftoverBody_tx_s {hash : List Nat → List Nat} {v2 : Bool} {nrOrig last : Nat} {x x' : LSt} {c : Bool}
    (h : leftoverBody hash v2 nrOrig last x = .ok (x', c)) : x'.tx.s = x.tx.s := by
  unfold leftoverBody at h
  dsimp only at h
  repeat' (split at h)
  all_goals
    simp only [Except.ok.injEq, Prod.mk.injEq] at h
    obtain ⟨rfl, _⟩ := h
    first | rfl | exact Tx.draw_s ..

theorem nftBody_tx_s {hash : List Nat → List Nat} {total : Nat} {x x' : NSt} {c : Bool}
    (h : nftBody hash total x = .ok (x', c)) : x'.tx.s = x.tx.s := by
  unfold nftBody at h
  dsimp only at h
  repeat' (split at h)
  all_goals first | (cases h; done) | skip
  all_goals
    simp only [Except.ok.injEq, Prod.mk.injEq] at h
    obtain ⟨rfl, _⟩ := h
    first | rfl | exact Tx.draw_s ..

theorem runWhile_selectBody_tx_s {hash : List Nat → List Nat} {nr last fuel : Nat} {b b' : Option Nat}
    {x x' : SelSt} {st : LoopStatus}
    (h : runWhile (selectBody hash nr last) fuel b x = .ok (x', b', st)) : x'.tx.s = x.tx.s :=
  runWhile_preserves (fun y => y.tx.s = x.tx.s) _ (fun _ _ _ hb hp => (selectBody_tx_s hb).trans hp)
    _ _ _ _ _ _ h rfl

theorem runWhile_leftoverBody_tx_s {hash : List Nat → List Nat} {v2 : Bool} {nrOrig last fuel : Nat}
    {b b' : Option Nat} {x x' : LSt} {st : LoopStatus}
    (h : runWhile (leftoverBody hash v2 nrOrig last) fuel b x = .ok (x', b', st)) : x'.tx.s = x.tx.s :=
  runWhile_preserves (fun y => y.tx.s = x.tx.s) _ (fun _ _ _ hb hp => (leftoverBody_tx_s hb).trans hp)
    _ _ _ _ _ _ h rfl

theorem runWhile_nftBody_tx_s {hash : List Nat → List Nat} {total fuel : Nat}
    {b b' : Option Nat} {x x' : NSt} {st : LoopStatus}
    (h : runWhile (nftBody hash total) fuel b x = .ok (x', b', st)) : x'.tx.s = x.tx.s :=
  runWhile_preserves (fun y => y.tx.s = x.tx.s) _ (fun _ _ _ hb hp => (nftBody_tx_s hb).trans hp)
    _ _ _ _ _ _ h rfl

/-! ### distribution step -/

/-- `guaranteedSubstep` changes only `whitelist`, `status`, `posToId`, `op` -/
theorem guaranteedSubstep_static {hash : List Nat → List Nat} {t t' : Tx} {g g' : GuarOp} {st : LoopStatus}
    (h : guaranteedSubstep hash t g = .ok (t', g', st)) : t'.s.static = t.s.static := by
  unfold guaranteedSubstep at h
  simp only [bind_ok_iff, Prod.exists] at h
  obtain ⟨x, b, st1, h1, h⟩ := h
  cases st1 with
  | outOfFuel => cases h
  | interrupted =>
    simp only [pure_ok_iff, Prod.mk.injEq] at h
    obtain ⟨rfl, _, _⟩ := h
    rfl
  | completed =>
    simp only [bind_ok_iff, Prod.exists] at h
    obtain ⟨y, b2, st2, h2, h⟩ := h
    have hy := runWhile_leftoverBody_tx_s h2
    cases st2 with
    | outOfFuel => cases h
    | interrupted =>
      simp only [pure_ok_iff, Prod.mk.injEq] at h
      obtain ⟨rfl, _, _⟩ := h
      simp only [hy]
      rfl
    | completed =>
      simp only [pure_ok_iff, Prod.mk.injEq] at h
      obtain ⟨rfl, _, _⟩ := h
      simp only [Tx.setS_s, hy]
      rfl

theorem guaranteedSubstep_terms {hash : List Nat → List Nat} {t t' : Tx} {g g' : GuarOp} {st : LoopStatus}
    (h : guaranteedSubstep hash t g = .ok (t', g', st)) : t'.s.terms = t.s.terms :=
  static_terms (guaranteedSubstep_static h)

theorem creditAdditional_static (s : State) (add : Nat) : (creditAdditional s add).static = s.static := rfl
theorem creditAdditional_terms (s : State) (add : Nat) : (creditAdditional s add).terms = s.terms := rfl

/-- `distribute` changes only `whitelist`, `status`, `posToId`, `op`, `claimablePayment`, `nrWinning`, `flags` -/
theorem distribute_static {hash : List Nat → List Nat} {t t' : Tx} {e : Env}
    (h : distribute hash t e = .ok t') : t'.s.static = t.s.static := by
  unfold distribute at h
  cases hv : t.s.variant.isV2 <;> rcases hop : t.s.op with _ | _ | _ | (g | r) <;>
    simp only [hv, hop, pure_bind, bind_ok_iff, req_ok_iff, exists_const, Prod.exists, reduceCtorEq, false_and, and_false, if_true, if_false, Bool.false_eq_true] at h
  all_goals
    lp_peel h
    have e1 := guaranteedSubstep_static ‹guaranteedSubstep _ _ _ = _›
    try simp only [Tx.freshRng_s] at e1
    repeat' (split at h)
    all_goals
      simp only [pure_ok_iff] at h
      subst h
      exact e1

theorem distribute_terms {hash : List Nat → List Nat} {t t' : Tx} {e : Env}
    (h : distribute hash t e = .ok t') : t'.s.terms = t.s.terms := static_terms (distribute_static h)

/-! ### NFT helpers -/

/-- `nftSubstep` changes only `payers`, `nftWinners`, `op`, `claimableNft` -/
theorem nftSubstep_static {hash : List Nat → List Nat} {t t' : Tx} {r r' : Rng} {st : LoopStatus}
    (h : nftSubstep hash t r = .ok (t', r', st)) : t'.s.static = t.s.static := by
  unfold nftSubstep at h
  simp only [bind_ok_iff, Prod.exists] at h
  obtain ⟨x, b, st1, h1, h⟩ := h
  have hx := runWhile_nftBody_tx_s h1
  simp only at hx
  cases st1 with
  | outOfFuel => cases h
  | interrupted =>
    simp only [pure_ok_iff, Prod.mk.injEq] at h
    obtain ⟨rfl, _, _⟩ := h
    simp only [hx]
    rfl
  | completed =>
    simp only [pure_ok_iff, Prod.mk.injEq] at h
    obtain ⟨rfl, _, _⟩ := h
    simp only [Tx.setS_s, hx]
    rfl

theorem nftSubstep_terms {hash : List Nat → List Nat} {t t' : Tx} {r r' : Rng} {st : LoopStatus}
    (h : nftSubstep hash t r = .ok (t', r', st)) : t'.s.terms = t.s.terms :=
  static_terms (nftSubstep_static h)

/-- `selectNft` changes only `payers`, `nftWinners`, `op`, `claimableNft`, `flags` -/
theorem selectNft_static {hash : List Nat → List Nat} {t t' : Tx} {e : Env}
    (h : selectNft hash t e = .ok t') : t'.s.static = t.s.static := by
  unfold selectNft at h
  rcases hop : t.s.op with _ | _ | _ | (g | r) <;>
    simp only [hop, pure_bind, bind_ok_iff, req_ok_iff, exists_const, Prod.exists, reduceCtorEq, false_and, and_false] at h
  all_goals
    lp_peel h
    have e1 := nftSubstep_static ‹nftSubstep _ _ _ = _›
    try simp only [Tx.freshRng_s] at e1
    repeat' (split at h)
    all_goals
      simp only [pure_ok_iff] at h
      subst h
      exact e1

theorem selectNft_terms {hash : List Nat → List Nat} {t t' : Tx} {e : Env}
    (h : selectNft hash t e = .ok t') : t'.s.terms = t.s.terms := static_terms (selectNft_static h)

/-- `secondary` changes only `whitelist`, `status`, `posToId`, `op`, `claimablePayment`, `nrWinning`,
    `payers`, `nftWinners`, `claimableNft`, `flags` -/
theorem secondary_static {hash : List Nat → List Nat} {t t' : Tx} {e : Env}
    (h : secondary hash t e = .ok t') : t'.s.static = t.s.static := by
  unfold secondary at h
  rcases hop : t.s.op with _ | _ | _ | (g | r) <;>
    simp only [hop, pure_bind, bind_ok_iff, req_ok_iff, exists_const, Prod.exists, reduceCtorEq, false_and, and_false] at h
  case additional.nft =>
    lp_peel h
    have e1 := nftSubstep_static ‹nftSubstep _ _ _ = _›
    repeat' (split at h)
    all_goals
      simp only [pure_ok_iff] at h
      subst h
      exact e1
  all_goals
    lp_peel h
    have e1 := guaranteedSubstep_static ‹guaranteedSubstep _ _ _ = _›
    try simp only [Tx.freshRng_s] at e1
    split at h
    · simp only [bind_ok_iff, Prod.exists] at h
      obtain ⟨t2, r2, st2, h2, h⟩ := h
      have e2 := nftSubstep_static h2
      simp only [Tx.freshRng_s, Tx.setS_s] at e2
      have e3 : t2.s.static = t.s.static := e2.trans e1
      repeat' (split at h)
      all_goals
        simp only [pure_ok_iff] at h
        subst h
        exact e3
    · simp only [pure_ok_iff] at h
      subst h
      exact e1

theorem secondary_terms {hash : List Nat → List Nat} {t t' : Tx} {e : Env}
    (h : secondary hash t e = .ok t') : t'.s.terms = t.s.terms := static_terms (secondary_static h)

/-- `confirmNft` changes only `payers` -/
theorem confirmNft_static {s s' : State} {e : Env} (h : confirmNft s e = .ok s') :
    s'.static = s.static := by
  unfold confirmNft at h
  simp only [bind_ok_iff, pure_ok_iff, req_ok_iff, exists_const] at h
  lp_peel h
  subst h
  rfl

theorem confirmNft_terms {s s' : State} {e : Env} (h : confirmNft s e = .ok s') :
    s'.terms = s.terms := static_terms (confirmNft_static h)

/-- `refundNftMany` changes only `payers`, `bal` -/
theorem refundNftMany_static : ∀ (l : List Nat) {t t' : Tx}, refundNftMany l t = .ok t' →
    t'.s.static = t.s.static
  | [], t, t', h => by simp only [refundNftMany, Except.ok.injEq] at h; rw [h]
  | u :: rest, t, t', h => by
    unfold refundNftMany at h
    dsimp only at h
    split at h
    · split at h
      · cases h
      · rename_i t1 h1
        have e1 := Tx.send_static h1
        exact (refundNftMany_static rest h).trans e1
    · exact refundNftMany_static rest h

theorem refundNftMany_terms {l : List Nat} {t t' : Tx} (h : refundNftMany l t = .ok t') :
    t'.s.terms = t.s.terms := static_terms (refundNftMany_static l h)

/-- `claimNft` changes only `nftWinners`, `payers`, `bal` -/
theorem claimNft_static {t t' : Tx} {e : Env} (h : claimNft t e = .ok t') :
    t'.s.static = t.s.static := by
  unfold claimNft at h
  dsimp only [Tx.setS] at h
  cases hw : (swapRemove t.s.nftWinners e.caller).2 <;>
    cases hp : (swapRemove t.s.payers e.caller).2 <;>
    simp only [hw, hp, if_true, if_false, Bool.false_eq_true, bind_ok_iff, req_ok_iff, exists_const] at h
  all_goals
    obtain ⟨_, h⟩ := h
    first
      | (have e1 := Tx.send_static h; exact e1)
      | (cases h; rfl)

theorem claimNft_terms {t t' : Tx} {e : Env} (h : claimNft t e = .ok t') :
    t'.s.terms = t.s.terms := static_terms (claimNft_static h)

/-- `claimNftPayment` changes only `bal`, `claimableNft` -/
theorem claimNftPayment_static {t t' : Tx} {e : Env} (h : claimNftPayment t e = .ok t') :
    t'.s.static = t.s.static := by
  unfold claimNftPayment at h
  simp only [bind_ok_iff] at h
  obtain ⟨_, _, h⟩ := h
  split at h
  · simp only [bind_ok_iff, pure_ok_iff] at h
    obtain ⟨t1, h1, rfl⟩ := h
    have e1 := Tx.send_static h1
    exact e1
  · simp only [pure_ok_iff] at h
    subst h
    rfl

theorem claimNftPayment_terms {t t' : Tx} {e : Env} (h : claimNftPayment t e = .ok t') :
    t'.s.terms = t.s.terms := static_terms (claimNftPayment_static h)

/-! ### vesting helpers -/

/-- `setSchedule1` changes only `sched1` -/
theorem setSchedule1_eq {s s' : State} {e : Env} {a b c d f : Nat}
    (h : setSchedule1 s e a b c d f = .ok s') : s' = { s with sched1 := some ⟨a, b, c, d, f⟩ } := by
  unfold setSchedule1 at h
  simp only [bind_ok_iff, pure_ok_iff, req_ok_iff, exists_const] at h
  lp_peel h
  exact h.symm

theorem setSchedule1_terms {s s' : State} {e : Env} {a b c d f : Nat}
    (h : setSchedule1 s e a b c d f = .ok s') : s'.terms = s.terms := by
  rw [setSchedule1_eq h]; rfl

/-- `setSchedule2` changes only `sched2` (and emits one event) -/
theorem setSchedule2_eq {t t' : Tx} {e : Env} {ms : List (Nat × Nat)}
    (h : setSchedule2 t e ms = .ok t') : t'.s = { t.s with sched2 := some ms } := by
  unfold setSchedule2 at h
  simp only [bind_ok_iff, pure_ok_iff, req_ok_iff, exists_const] at h
  lp_peel h
  subst h
  rfl

theorem setSchedule2_terms {t t' : Tx} {e : Env} {ms : List (Nat × Nat)}
    (h : setSchedule2 t e ms = .ok t') : t'.s.terms = t.s.terms := by
  rw [setSchedule2_eq h]; rfl

/-- `claimVested` changes only `status`, `posToId`, `confirmed`, `range`, `batch`, `nrWinning`,
    `claimed`, `bal`, `userTotal`, `userClaimed` -/
theorem claimVested_static {t t' : Tx} {e : Env} (h : claimVested t e = .ok t') :
    t'.s.static = t.s.static := by
  unfold claimVested at h
  dsimp only at h
  cases hv : t.s.variant.isV2 <;> cases hcl : t.s.claimed e.caller <;>
    simp only [hv, hcl, if_true, if_false, Bool.false_eq_true, pure_bind, bind_ok_iff, req_ok_iff, exists_const, Prod.exists] at h
  case false.true | true.true =>
    lp_peel h
    split at h
    · simp only [bind_ok_iff, pure_ok_iff] at h
      obtain ⟨t3, h3, rfl⟩ := h
      have e3 := Tx.send_static h3
      exact e3
    · cases h; rfl
  all_goals
    lp_peel h
    rename_i s1 redeem refund hs t2 hr c hc
    have e2 : t2.s.static = t.s.static := (Tx.refund_static hr).trans (settle_static hs)
    generalize ht1 : (if redeem > 0 then t2.setS _ else t2) = t1 at h
    have e1 : t1.s.static = t.s.static := by
      subst ht1
      split <;> exact e2
    split at h
    · simp only [bind_ok_iff, pure_ok_iff] at h
      obtain ⟨t3, h3, rfl⟩ := h
      have e3 := Tx.send_static h3
      exact e3.trans e1
    · cases h; exact e1

theorem claimVested_terms {t t' : Tx} {e : Env} (h : claimVested t e = .ok t') :
    t'.s.terms = t.s.terms := static_terms (claimVested_static h)

/-- `claimPaymentOwn` changes only `claimablePayment`, `totalDeposited`, `bal` -/
theorem claimPaymentOwn_static {t t' : Tx} {e : Env} (h : claimPaymentOwn t e = .ok t') :
    t'.s.static = t.s.static := by
  unfold claimPaymentOwn at h
  simp only [bind_ok_iff] at h
  obtain ⟨_, _, h⟩ := h
  split at h
  · simp only [bind_ok_iff] at h
    obtain ⟨t1, h1, h⟩ := h
    have e0 := Tx.send_static h1
    have e1 : t1.s.static = t.s.static := e0
    repeat' (split at h)
    all_goals first
      | (cases h; exact e1)
      | (have e3 := Tx.send_static h; exact e3.trans e1)
  · simp only [pure_bind] at h
    repeat' (split at h)
    all_goals first
      | (cases h; rfl)
      | (have e3 := Tx.send_static h; exact e3)

theorem claimPaymentOwn_terms {t t' : Tx} {e : Env} (h : claimPaymentOwn t e = .ok t') :
    t'.s.terms = t.s.terms := static_terms (claimPaymentOwn_static h)

/-- `claimPaymentCommon` changes only `claimablePayment`, `bal` -/
theorem claimPaymentCommon_static {t t' : Tx} {e : Env} (h : claimPaymentCommon t e = .ok t') :
    t'.s.static = t.s.static := by
  unfold claimPaymentCommon at h
  simp only [bind_ok_iff] at h
  obtain ⟨_, _, h⟩ := h
  split at h
  · simp only [bind_ok_iff] at h
    obtain ⟨t1, h1, extra, _, h⟩ := h
    have e0 := Tx.send_static h1
    have e1 : t1.s.static = t.s.static := e0
    split at h
    · exact (Tx.send_static h).trans e1
    · cases h; exact e1
  · simp only [pure_bind, bind_ok_iff] at h
    obtain ⟨extra, _, h⟩ := h
    split at h
    · exact Tx.send_static h
    · cases h; rfl

theorem claimPaymentCommon_terms {t t' : Tx} {e : Env} (h : claimPaymentCommon t e = .ok t') :
    t'.s.terms = t.s.terms := static_terms (claimPaymentCommon_static h)

/-! ### the endpoint table `exec` -/

/-- the three owner setters of sale terms -/
def Call.setsTerms : Call → Bool
  | .setTicketPrice .. | .setPerTicket _ | .setNftCost _ => true
  | _ => false

/-- the calls that can change the `static` projection -/
def Call.setsStatic : Call → Bool
  | .setTicketPrice .. | .setPerTicket _ | .setNftCost _ | .deposit | .setSchedule1 .. | .setSchedule2 _
  | .setConfStart _ | .setSelStart _ | .setClaimStart _ => true
  | _ => false

theorem exec_setTicketPrice_s {hash : List Nat → List Nat} {t t' : Tx} {e : Env} {tok : Token} {a : Nat}
    (h : exec hash t e (.setTicketPrice tok a) = .ok t') :
    t'.s = { t.s with payTok := tok, price := a } ∧ t.s.stage e = .addTickets ∧ 0 < a ∧
      tok.valid = true ∧ tok ≠ .esdt t.s.lpTok := by
  simp only [exec, trySetTicketPrice, requireStage, bind_ok_iff, pure_ok_iff, req_ok_iff, exists_const] at h
  obtain ⟨hst, s1, ⟨hv, hne, ha, rfl⟩, rfl⟩ := h
  exact ⟨rfl, by simpa using hst, by simpa using ha, hv, by simpa using hne⟩

theorem exec_setPerTicket_s {hash : List Nat → List Nat} {t t' : Tx} {e : Env} {a : Nat}
    (h : exec hash t e (.setPerTicket a) = .ok t') :
    t'.s = { t.s with perTicket := a } ∧ t.s.stage e = .addTickets ∧ t.s.deposited = false ∧ 0 < a := by
  simp only [exec, requireStage, bind_ok_iff, pure_ok_iff, req_ok_iff, exists_const] at h
  obtain ⟨hst, hd, ha, rfl⟩ := h
  exact ⟨rfl, by simpa using hst, by simpa using hd, by simpa using ha⟩

theorem validCost_ok {lp : Nat} {c : Pay} (h : validCost lp c = .ok ()) : 0 < c.amount := by
  unfold validCost at h
  split at h <;> simp only [bind_ok_iff, req_ok_iff, exists_const] at h <;> simpa using h.2.1

theorem validCost_ne_lp {lp : Nat} {c : Pay} (h : validCost lp c = .ok ()) : c.tok ≠ .esdt lp := by
  unfold validCost at h
  split at h <;> simp only [bind_ok_iff, req_ok_iff, exists_const] at h <;> simpa using h.2.2

theorem exec_setNftCost_s {hash : List Nat → List Nat} {t t' : Tx} {e : Env} {c : Pay}
    (h : exec hash t e (.setNftCost c) = .ok t') :
    t'.s = { t.s with nftCost := c } ∧ t.s.stage e = .addTickets ∧ 0 < c.amount := by
  simp only [exec, requireStage, bind_ok_iff, pure_ok_iff, req_ok_iff, exists_const] at h
  obtain ⟨hst, _, hc, rfl⟩ := h
  exact ⟨rfl, by simpa using hst, validCost_ok hc⟩

theorem exec_deposit_s {hash : List Nat → List Nat} {t t' : Tx} {e : Env}
    (h : exec hash t e .deposit = .ok t') :
    t.s.deposited = false ∧
    t'.s = { t.s with deposited := true,
                      totalDeposited := t.s.perTicket * (t.s.nrWinning + reservedForDeposit t.s) } := by
  simp only [exec, bind_ok_iff, pure_ok_iff] at h
  obtain ⟨s1, h1, rfl⟩ := h
  exact depositLaunchpadTokens_eq h1

theorem exec_setSchedule1_s {hash : List Nat → List Nat} {t t' : Tx} {e : Env} {a b c d f : Nat}
    (h : exec hash t e (.setSchedule1 a b c d f) = .ok t') :
    t'.s = { t.s with sched1 := some ⟨a, b, c, d, f⟩ } := by
  simp only [exec, bind_ok_iff, pure_ok_iff] at h
  obtain ⟨s1, h1, rfl⟩ := h
  exact setSchedule1_eq h1

theorem exec_setSchedule2_s {hash : List Nat → List Nat} {t t' : Tx} {e : Env} {ms : List (Nat × Nat)}
    (h : exec hash t e (.setSchedule2 ms) = .ok t') :
    t'.s = { t.s with sched2 := some ms } := by
  simp only [exec] at h
  exact setSchedule2_eq h

theorem blacklist_tail_static {e : Env} {l : List Nat} {t2 t' : Tx}
    (h : (do
      let t ← if t2.s.variant.hasNft then refundNftMany l t2 else pure t2
      if t.s.variant.isV2 then
        pure (t.emit ⟨"addUsersToBlacklist", topics e, [e.caller, e.round, e.epoch, l.length] ++ l⟩)
      else pure t : Res Tx) = .ok t') : t'.s.static = t2.s.static := by
  split at h
  · simp only [bind_ok_iff] at h
    obtain ⟨t3, h3, h⟩ := h
    have e3 := refundNftMany_static _ h3
    split at h <;> (cases h; exact e3)
  · simp only [pure_bind] at h
    split at h <;> (cases h; rfl)

theorem exec_blacklist_static {hash : List Nat → List Nat} {t t' : Tx} {e : Env} {l : List Nat}
    (h : exec hash t e (.blacklist l) = .ok t') : t'.s.static = t.s.static := by
  simp only [exec, bind_ok_iff] at h
  obtain ⟨t1, h1, h⟩ := h
  have e1 := addUsersToBlacklist_static h1
  split at h
  · simp only [bind_ok_iff, pure_bind] at h
    obtain ⟨s2, h2, h⟩ := h
    have e2 := clearGuaranteedV2_static h2
    exact (blacklist_tail_static h).trans (e2.trans e1)
  · split at h
    · simp only [bind_ok_iff, pure_bind] at h
      obtain ⟨s2, h2, h⟩ := h
      have e2 := clearGuaranteedV1_static h2
      exact (blacklist_tail_static h).trans (e2.trans e1)
    · simp only [pure_bind] at h
      exact (blacklist_tail_static h).trans e1

/-- **frame of `exec`**: apart from the nine dedicated owner endpoints, no endpoint body changes
    the sale terms, the unlock schedules or the `deposited` flag -/
theorem exec_static {hash : List Nat → List Nat} {t t' : Tx} {e : Env} {c : Call}
    (h : exec hash t e c = .ok t') (hc : c.setsStatic = false) : t'.s.static = t.s.static := by
  cases c with
  | setTicketPrice _ _ | setPerTicket _ | setNftCost _ | deposit | setSchedule1 _ _ _ _ _ | setSchedule2 _
  | setConfStart _ | setSelStart _ | setClaimStart _ =>
    simp [Call.setsStatic] at hc
  | addTickets l =>
    simp only [exec, bind_ok_iff, pure_ok_iff] at h
    obtain ⟨_, _, s1, h1, rfl⟩ := h
    exact createMany_static l h1
  | addTicketsV1 l =>
    simp only [exec, bind_ok_iff, pure_ok_iff] at h
    obtain ⟨s1, h1, rfl⟩ := h
    exact addTicketsV1_static h1
  | addTicketsV2 l => exact addTicketsV2_static (by simpa only [exec] using h)
  | setSupport a | pause | unpause | sftSetup =>
    simp only [exec, pure_ok_iff] at h
    subst h
    rfl
  | confirm n => exact confirmTickets_static (by simpa only [exec] using h)
  | filter => exact filterTickets_static (by simpa only [exec] using h)
  | select => exact selectWinners_static (by simpa only [exec] using h)
  | distribute => exact distribute_static (by simpa only [exec] using h)
  | selectNft => exact selectNft_static (by simpa only [exec] using h)
  | secondary => exact secondary_static (by simpa only [exec] using h)
  | confirmNft =>
    simp only [exec, bind_ok_iff, pure_ok_iff] at h
    obtain ⟨s1, h1, rfl⟩ := h
    exact confirmNft_static h1
  | issueSft | createSfts | setTransferRole _ =>
    simp only [exec, bind_ok_iff, reduceCtorEq, and_false, exists_false] at h
  | claim =>
    simp only [exec] at h
    split at h
    · exact claimVested_static h
    · simp only [bind_ok_iff, Prod.exists] at h
      obtain ⟨s1, redeem, refund, hs, t1, h1, t2, h2, h⟩ := h
      have e2 : t2.s.static = t.s.static :=
        (Tx.sendLaunchpadTokens_static h2).trans ((Tx.refund_static h1).trans (settle_static hs))
      split at h
      · exact (claimNft_static h).trans e2
      · cases h; exact e2
  | claimPayment =>
    simp only [exec] at h
    split at h
    · exact claimPaymentOwn_static h
    · simp only [bind_ok_iff] at h
      obtain ⟨t1, h1, h⟩ := h
      have e1 := claimPaymentCommon_static h1
      split at h
      · exact (claimNftPayment_static h).trans e1
      · cases h; exact e1
  | blacklist l => exact exec_blacklist_static h
  | refundUsers l =>
    simp only [exec, bind_ok_iff, pure_ok_iff] at h
    obtain ⟨t1, h1, s2, h2, rfl⟩ := h
    exact (clearGuaranteedV2_static h2).trans (addUsersToBlacklist_static h1)
  | unblacklist l =>
    simp only [exec, bind_ok_iff] at h
    obtain ⟨s1, h1, h⟩ := h
    have e1 := removeUsersFromBlacklist_static h1
    split at h
    · simp only [bind_ok_iff, pure_ok_iff] at h
      obtain ⟨s2, h2, rfl⟩ := h
      exact (restoreGuaranteedV2_static h2).trans e1
    · simp only [bind_ok_iff, pure_ok_iff] at h
      obtain ⟨s2, h2, rfl⟩ := h
      exact (restoreGuaranteedV1_static h2).trans e1

theorem exec_setConfStart_s {hash : List Nat → List Nat} {t t' : Tx} {e : Env} {r : Nat}
    (h : exec hash t e (.setConfStart r) = .ok t') :
    t'.s = { t.s with cfg := { t.s.cfg with conf := r } } ∧ e.round < t.s.cfg.conf ∧ e.round < r := by
  obtain ⟨hv, _, rfl⟩ := exec_setConfStart_ok h
  exact ⟨rfl, validTimelineChange_ok.1 hv⟩

theorem exec_setSelStart_s {hash : List Nat → List Nat} {t t' : Tx} {e : Env} {r : Nat}
    (h : exec hash t e (.setSelStart r) = .ok t') :
    t'.s = { t.s with cfg := { t.s.cfg with sel := r } } ∧ e.round < t.s.cfg.sel ∧ e.round < r := by
  obtain ⟨hv, _, rfl⟩ := exec_setSelStart_ok h
  exact ⟨rfl, validTimelineChange_ok.1 hv⟩

theorem exec_setClaimStart_s {hash : List Nat → List Nat} {t t' : Tx} {e : Env} {r : Nat}
    (h : exec hash t e (.setClaimStart r) = .ok t') :
    t'.s = { t.s with cfg := { t.s.cfg with claim := r } } ∧ e.round < t.s.cfg.claim ∧ e.round < r := by
  obtain ⟨hv, _, rfl⟩ := exec_setClaimStart_ok h
  exact ⟨rfl, validTimelineChange_ok.1 hv⟩

/-- the state written by each of the nine dedicated owner endpoints (when the call is accepted) -/
def ownerEdit (s : State) : Call → State
  | .setTicketPrice tok a => { s with payTok := tok, price := a }
  | .setPerTicket a => { s with perTicket := a }
  | .setNftCost p => { s with nftCost := p }
  | .deposit => { s with deposited := true,
                         totalDeposited := s.perTicket * (s.nrWinning + reservedForDeposit s) }
  | .setSchedule1 a b c d f => { s with sched1 := some ⟨a, b, c, d, f⟩ }
  | .setSchedule2 ms => { s with sched2 := some ms }
  | .setConfStart r => { s with cfg := { s.cfg with conf := r } }
  | .setSelStart r => { s with cfg := { s.cfg with sel := r } }
  | .setClaimStart r => { s with cfg := { s.cfg with claim := r } }
  | _ => s

/-- every accepted endpoint body either leaves `static` alone or is one of the nine dedicated
    owner endpoints, whose exact effect on the whole state is `ownerEdit` -/
theorem exec_static_cases {hash : List Nat → List Nat} {t t' : Tx} {e : Env} {c : Call}
    (h : exec hash t e c = .ok t') :
    (c.setsStatic = false ∧ t'.s.static = t.s.static) ∨
    (c.setsStatic = true ∧ t'.s = ownerEdit t.s c) := by
  cases hc : c.setsStatic with
  | false => exact Or.inl ⟨rfl, exec_static h hc⟩
  | true =>
    refine Or.inr ⟨rfl, ?_⟩
    cases c with
    | setTicketPrice tok a => exact (exec_setTicketPrice_s h).1
    | setPerTicket a => exact (exec_setPerTicket_s h).1
    | setNftCost p => exact (exec_setNftCost_s h).1
    | deposit => exact (exec_deposit_s h).2
    | setSchedule1 a b c' d f => exact exec_setSchedule1_s h
    | setSchedule2 ms => exact exec_setSchedule2_s h
    | setConfStart r => exact (exec_setConfStart_s h).1
    | setSelStart r => exact (exec_setSelStart_s h).1
    | setClaimStart r => exact (exec_setClaimStart_s h).1
    | _ => simp [Call.setsStatic] at hc

/-- the same for a whole transaction (`creditPayments` only touches `bal`) -/
theorem step_static_cases {hash : List Nat → List Nat} {s s' : State} {e : Env} {c : Call} {o : Out}
    (h : step hash s e c = .ok (s', o)) :
    (c.setsStatic = false ∧ s'.static = s.static) ∨
    (c.setsStatic = true ∧ s' = ownerEdit (creditPayments s e) c) := by
  obtain ⟨m, t, _, _, _, hx, rfl, _⟩ := step_ok_inv h
  exact exec_static_cases hx

/-- frame of `exec` for the sale terms -/
theorem exec_terms {hash : List Nat → List Nat} {t t' : Tx} {e : Env} {c : Call}
    (h : exec hash t e c = .ok t') (hc : c.setsTerms = false) : t'.s.terms = t.s.terms := by
  rcases exec_static_cases h with ⟨_, h1⟩ | ⟨hs, h1⟩
  · exact static_terms h1
  · rw [h1]
    cases c <;> first | rfl | simp [Call.setsTerms] at hc

/-! ### frame theorems for `step` -/

theorem Call.setsTerms_eq_false {c : Call} (h1 : ∀ tok a, c ≠ .setTicketPrice tok a)
    (h2 : ∀ a, c ≠ .setPerTicket a) (h3 : ∀ p, c ≠ .setNftCost p) : c.setsTerms = false := by
  cases c <;> simp_all [Call.setsTerms]

/-- **static frame**: an accepted call other than `setTicketPrice`, `setPerTicket`, `setNftCost`,
    `deposit`, `setSchedule1`, `setSchedule2`, `setConfStart`, `setSelStart`, `setClaimStart`
    leaves terms, schedules, `deposited` and the timeline unchanged -/
theorem static_frame {hash : List Nat → List Nat} {s s' : State} {e : Env} {c : Call} {o : Out}
    (h : step hash s e c = .ok (s', o)) (hc : c.setsStatic = false) : s'.static = s.static := by
  obtain ⟨m, t, _, _, _, hx, rfl, _⟩ := step_ok_inv h
  exact exec_static hx hc

/-- **terms frame** (Boolean form of the side condition) -/
theorem terms_frame_b {hash : List Nat → List Nat} {s s' : State} {e : Env} {c : Call} {o : Out}
    (h : step hash s e c = .ok (s', o)) (hc : c.setsTerms = false) : s'.terms = s.terms := by
  obtain ⟨m, t, _, _, _, hx, rfl, _⟩ := step_ok_inv h
  exact exec_terms hx hc

/-- **terms frame**: an accepted call that is not one of the three setters leaves the sale
    terms unchanged -/
theorem terms_frame {hash : List Nat → List Nat} {s s' : State} {e : Env} {c : Call} {o : Out}
    (h : step hash s e c = .ok (s', o))
    (h1 : ∀ tok a, c ≠ .setTicketPrice tok a) (h2 : ∀ a, c ≠ .setPerTicket a)
    (h3 : ∀ p, c ≠ .setNftCost p) : s'.terms = s.terms :=
  terms_frame_b h (Call.setsTerms_eq_false h1 h2 h3)

/-- `setTicketPrice tok a` changes only `payTok := tok, price := a` (of the terms; of the whole
    state, additionally the call value — none, the endpoint is not payable — is credited) -/
theorem setTicketPrice_terms {hash : List Nat → List Nat} {s s' : State} {e : Env} {tok : Token} {a : Nat}
    {o : Out} (h : step hash s e (.setTicketPrice tok a) = .ok (s', o)) :
    s'.terms = { s.terms with payTok := tok, price := a } ∧
    s' = { creditPayments s e with payTok := tok, price := a } ∧
    s.stage e = .addTickets ∧ 0 < a ∧ tok.valid = true ∧ tok ≠ .esdt s.lpTok := by
  obtain ⟨m, t, _, _, _, hx, rfl, _⟩ := step_ok_inv h
  obtain ⟨h1, h2, h3, h4, h5⟩ := exec_setTicketPrice_s hx
  exact ⟨by rw [h1]; rfl, h1, h2, h3, h4, h5⟩

/-- `setPerTicket a` changes only `perTicket := a` -/
theorem setPerTicket_terms {hash : List Nat → List Nat} {s s' : State} {e : Env} {a : Nat}
    {o : Out} (h : step hash s e (.setPerTicket a) = .ok (s', o)) :
    s'.terms = { s.terms with perTicket := a } ∧
    s' = { creditPayments s e with perTicket := a } ∧
    s.stage e = .addTickets ∧ s.deposited = false ∧ 0 < a := by
  obtain ⟨m, t, _, _, _, hx, rfl, _⟩ := step_ok_inv h
  obtain ⟨h1, h2, h3, h4⟩ := exec_setPerTicket_s hx
  exact ⟨by rw [h1]; rfl, h1, h2, h3, h4⟩

/-- `setNftCost p` changes only `nftCost := p` -/
theorem setNftCost_terms {hash : List Nat → List Nat} {s s' : State} {e : Env} {p : Pay}
    {o : Out} (h : step hash s e (.setNftCost p) = .ok (s', o)) :
    s'.terms = { s.terms with nftCost := p } ∧
    s' = { creditPayments s e with nftCost := p } ∧
    s.stage e = .addTickets ∧ 0 < p.amount := by
  obtain ⟨m, t, _, _, _, hx, rfl, _⟩ := step_ok_inv h
  obtain ⟨h1, h2, h3⟩ := exec_setNftCost_s hx
  exact ⟨by rw [h1]; rfl, h1, h2, h3⟩

/-- only `setTicketPrice` changes `price` / `payTok` -/
theorem price_frame {hash : List Nat → List Nat} {s s' : State} {e : Env} {c : Call} {o : Out}
    (h : step hash s e c = .ok (s', o)) (hc : ∀ tok a, c ≠ .setTicketPrice tok a) :
    s'.price = s.price ∧ s'.payTok = s.payTok := by
  rcases step_static_cases h with ⟨_, h1⟩ | ⟨_, h1⟩
  · exact ⟨terms_price (static_terms h1), terms_payTok (static_terms h1)⟩
  · rw [h1]
    cases c <;> first | exact ⟨rfl, rfl⟩ | exact absurd rfl (hc _ _)

/-- only `setPerTicket` changes `perTicket` -/
theorem perTicket_frame {hash : List Nat → List Nat} {s s' : State} {e : Env} {c : Call} {o : Out}
    (h : step hash s e c = .ok (s', o)) (hc : ∀ a, c ≠ .setPerTicket a) :
    s'.perTicket = s.perTicket := by
  rcases step_static_cases h with ⟨_, h1⟩ | ⟨_, h1⟩
  · exact terms_perTicket (static_terms h1)
  · rw [h1]
    cases c <;> first | rfl | exact absurd rfl (hc _)

/-- only `setNftCost` changes `nftCost` -/
theorem nftCost_frame {hash : List Nat → List Nat} {s s' : State} {e : Env} {c : Call} {o : Out}
    (h : step hash s e c = .ok (s', o)) (hc : ∀ p, c ≠ .setNftCost p) :
    s'.nftCost = s.nftCost := by
  rcases step_static_cases h with ⟨_, h1⟩ | ⟨_, h1⟩
  · exact terms_nftCost (static_terms h1)
  · rw [h1]
    cases c <;> first | rfl | exact absurd rfl (hc _)

/-- only `setSchedule1` changes `sched1` -/
theorem sched1_frame {hash : List Nat → List Nat} {s s' : State} {e : Env} {c : Call} {o : Out}
    (h : step hash s e c = .ok (s', o)) (hc : ∀ a b c' d f, c ≠ .setSchedule1 a b c' d f) :
    s'.sched1 = s.sched1 := by
  rcases step_static_cases h with ⟨_, h1⟩ | ⟨_, h1⟩
  · exact static_sched1 h1
  · rw [h1]
    cases c <;> first | rfl | exact absurd rfl (hc _ _ _ _ _)

theorem setSchedule1_sched1 {hash : List Nat → List Nat} {s s' : State} {e : Env} {a b c d f : Nat} {o : Out}
    (h : step hash s e (.setSchedule1 a b c d f) = .ok (s', o)) :
    s' = { creditPayments s e with sched1 := some ⟨a, b, c, d, f⟩ } := by
  obtain ⟨m, t, _, _, _, hx, rfl, _⟩ := step_ok_inv h
  exact exec_setSchedule1_s hx

/-- only `setSchedule2` changes `sched2` -/
theorem sched2_frame {hash : List Nat → List Nat} {s s' : State} {e : Env} {c : Call} {o : Out}
    (h : step hash s e c = .ok (s', o)) (hc : ∀ ms, c ≠ .setSchedule2 ms) :
    s'.sched2 = s.sched2 := by
  rcases step_static_cases h with ⟨_, h1⟩ | ⟨_, h1⟩
  · exact static_sched2 h1
  · rw [h1]
    cases c <;> first | rfl | exact absurd rfl (hc _)

theorem setSchedule2_sched2 {hash : List Nat → List Nat} {s s' : State} {e : Env} {ms : List (Nat × Nat)} {o : Out}
    (h : step hash s e (.setSchedule2 ms) = .ok (s', o)) :
    s' = { creditPayments s e with sched2 := some ms } := by
  obtain ⟨m, t, _, _, _, hx, rfl, _⟩ := step_ok_inv h
  exact exec_setSchedule2_s hx

/-- only `deposit` changes `deposited`, and only from `false` to `true` -/
theorem deposited_frame {hash : List Nat → List Nat} {s s' : State} {e : Env} {c : Call} {o : Out}
    (h : step hash s e c = .ok (s', o)) :
    (c ≠ .deposit → s'.deposited = s.deposited) ∧
    (c = .deposit → s.deposited = false ∧ s'.deposited = true) := by
  constructor
  · intro hc
    rcases step_static_cases h with ⟨_, h1⟩ | ⟨_, h1⟩
    · exact static_deposited h1
    · rw [h1]
      cases c <;> first | rfl | exact absurd rfl hc
  · rintro rfl
    obtain ⟨m, t, _, _, _, hx, rfl, _⟩ := step_ok_inv h
    obtain ⟨h0, h1⟩ := exec_deposit_s hx
    exact ⟨h0, by rw [h1]⟩

/-- `deposited` never goes back to false -/
theorem deposited_mono {hash : List Nat → List Nat} {s s' : State} {e : Env} {c : Call} {o : Out}
    (h : step hash s e c = .ok (s', o)) (hd : s.deposited = true) : s'.deposited = true := by
  by_cases hc : c = .deposit
  · exact ((deposited_frame h).2 hc).2
  · rw [(deposited_frame h).1 hc]; exact hd

/-- only the three timeline setters change `cfg`; `conf` changes only by `setConfStart`, which is
    accepted only while `round < conf` -/
theorem cfg_frame {hash : List Nat → List Nat} {s s' : State} {e : Env} {c : Call} {o : Out}
    (h : step hash s e c = .ok (s', o))
    (hc : (∀ r, c ≠ .setConfStart r) ∧ (∀ r, c ≠ .setSelStart r) ∧ (∀ r, c ≠ .setClaimStart r)) :
    s'.cfg = s.cfg := by
  rcases step_static_cases h with ⟨_, h1⟩ | ⟨_, h1⟩
  · exact static_cfg h1
  · rw [h1]
    cases c <;> first | rfl | exact absurd rfl (hc.1 _) | exact absurd rfl (hc.2.1 _) | exact absurd rfl (hc.2.2 _)

/-- once the confirmation start round has been reached it can no longer be changed -/
theorem conf_frozen_once_reached {hash : List Nat → List Nat} {s s' : State} {e : Env} {c : Call} {o : Out}
    (h : step hash s e c = .ok (s', o)) (hr : s.cfg.conf ≤ e.round) : s'.cfg.conf = s.cfg.conf := by
  rcases step_static_cases h with ⟨_, h1⟩ | ⟨_, h1⟩
  · rw [static_cfg h1]
  · cases c with
    | setConfStart r =>
      obtain ⟨m, t, _, _, _, hx, rfl, _⟩ := step_ok_inv h
      have := (exec_setConfStart_s hx).2.1
      have h2 : (tx0 s e).s.cfg = s.cfg := rfl
      rw [h2] at this
      omega
    | _ => rw [h1]; rfl

/-! ### non-vacuity -/

/-- a small concrete state used in the examples -/
def frameDemoState : State :=
  { variant := .base, owner := 1, lpTok := 1, perTicket := 3, payTok := .egld, price := 10,
    nrWinning := 1, cfg := ⟨5, 10, 15⟩, flags := {}, support := 1 }

/-- an accepted non-setter call (hypotheses of `terms_frame` / `static_frame` are satisfiable) -/
example : ∃ s' o, step (fun x => x) frameDemoState { caller := 1, round := 2 } (.setSupport 7) = .ok (s', o) ∧
    (Call.setSupport 7).setsStatic = false ∧ s'.support = 7 := ⟨_, _, rfl, rfl, rfl⟩

/-- an accepted price change: the terms do change, exactly as `setTicketPrice_terms` says -/
example : ∃ s' o, step (fun x => x) frameDemoState { caller := 1, round := 2 } (.setTicketPrice (.esdt 5) 11) = .ok (s', o) ∧
    s'.price = 11 ∧ s'.payTok = .esdt 5 := ⟨_, _, rfl, rfl, rfl⟩

/-- an accepted deposit flips `deposited` -/
example : ∃ s' o, step (fun x => x) frameDemoState { caller := 1, round := 2, esdts := [⟨.esdt 1, 0, 3⟩] } .deposit = .ok (s', o) ∧
    s'.deposited = true := ⟨_, _, rfl, rfl⟩

end LP

#print axioms LP.runWhile_preserves
#print axioms LP.exec_static
#print axioms LP.exec_static_cases
#print axioms LP.static_frame
#print axioms LP.terms_frame
#print axioms LP.setTicketPrice_terms
#print axioms LP.setPerTicket_terms
#print axioms LP.setNftCost_terms
#print axioms LP.sched1_frame
#print axioms LP.sched2_frame
#print axioms LP.deposited_frame
#print axioms LP.deposited_mono
#print axioms LP.cfg_frame
#print axioms LP.conf_frozen_once_reached
