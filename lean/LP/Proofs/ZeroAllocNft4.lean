import LP.Proofs.ZeroAllocNft3
import LP.Proofs.ReachFLLp
import LP.Proofs.LockedGuarClaim
/-
  LP.Proofs.ZeroAllocNft4 — zero-size allocations for `Variant.nft`, part 4: facts that hold on
  `ReachZ hash .nft` by a direct induction (no simulation needed) and the ACCEPTANCE of a claim of
  a variant with the NFT hook (`zn_claim_accepts`, the converse of `nf_claim_shape`).
-/
namespace LP
open LP.Props.C09 LP.Props.C14

/-- the launchpad-token invariant of `LP/Proofs/ReachFLLp.lean` needs no restriction on the calls -/
theorem zn_reachZ_NftLp {hash : List Nat → List Nat} {s : State} {r : Nat}
    (h : ReachZ hash .nft s r) : fl_NftLp s := by
  induction h with
  | init a e s h => exact fl_init_NftLp h
  | call s r e c s' o _ _ _ h4 ih => exact fl_step_NftLp ih h4
  | wait s r r' _ _ ih => exact ih

/-- nothing is confirmed before the deposit -/
theorem zn_reachZ_noConf {hash : List Nat → List Nat} {v : Variant} {s : State} {r : Nat}
    (h : ReachZ hash v s r) : lk_NoConf s := by
  induction h with
  | init a e s hh => exact lk_init_noConf hh
  | call s r e c s' o _ _ _ h4 ih => exact lk_step_noConf ih h4
  | wait s r r' _ _ ih => exact ih

/-- **acceptance of a claim** (variants with the NFT hook): the conditions of the common claim, the
    SFT token id is set, and — for a fee payer who was not drawn — the fee refund is covered after
    the common part -/
theorem zn_claim_accepts (hash : List Nat → List Nat) (s : State) (e : Env) (rg : Range)
    (hn : s.variant.hasNft = true) (hacc : ClaimAccepts s e rg) (hsft : s.sftToken = true)
    (hfee : nftCategory s e.caller = 2 →
      s.nftCost.amount ≤ (balAfterClaim s e.caller) s.nftCost.tok s.nftCost.nonce) :
    ∃ x, step hash s e .claim = .ok x := by
  obtain ⟨hl, hv⟩ := hasNft_props hn
  obtain ⟨he1, he2, hst, hcl, hr, hnw, hle, hb, hb2⟩ := hacc
  have hw : winCount s e.caller = countWinning s.status rg.first (rangeLen rg) := winCount_of_range hr
  have hvar : (claimMid (txc s e) e rg).s.variant = s.variant := by rw [claimMid_state]; rfl
  have hl' : (claimMid (txc s e) e rg).s.variant.hasLock = false := by rw [hvar]; exact hl
  obtain ⟨t2, ht2⟩ : ∃ t2, t2 = sendTokensResult (claimMid (txc s e) e rg) e.caller
      (countWinning s.status rg.first (rangeLen rg)) := ⟨_, rfl⟩
  have hst2 : t2.s = { settledState s e.caller rg with bal := balAfterClaim s e.caller } := by
    rw [ht2, sendTokensResult_state, claimMid_state]
    simp only [balAfterClaim, hw, txc]
    rfl
  have hn' : t2.s.variant.hasNft = true := by rw [hst2]; exact hn
  have hcat : nftCategory t2.s e.caller = nftCategory s e.caller :=
    nftCategory_congr e.caller (by rw [hst2]; rfl) (by rw [hst2]; rfl)
  refine ⟨((claimNftResult t2 e).s, (claimNftResult t2 e).o), ?_⟩
  rw [step_claim_ok_iff, exec_claim_nonvested hash _ e hv]
  refine ⟨he1, he2, claimNftResult t2 e, ?_, rfl, rfl⟩
  rw [claimBase_ok_iff]
  refine ⟨rg, ⟨hst, hcl, hr, ?_, ?_, ?_⟩, t2, ?_, ?_⟩
  · rw [txc_s, ← hw]; exact hnw
  · rw [txc_s, ← hw]; exact hle
  · rw [txc_s, ← hw]; exact hb
  · rw [sendLaunchpadTokens_nolock_ok_iff _ e _ _ _ hl']
    refine ⟨?_, by rw [txc_s]; exact ht2⟩
    rw [claimMid_state, txc_s, ← hw]
    exact hb2
  · rw [if_pos hn', claimNft_ok_iff]
    refine ⟨by rw [hst2]; exact hsft, ?_, rfl⟩
    intro h2
    rw [hcat] at h2
    have := hfee h2
    rw [hst2]
    exact this

/-! ### the NFT participants are frozen during the selection stage (no `CallOK`) -/

/-- `zn_Later hash s r s2 r2`: `s2` (at round `r2`) is reached from `s` (at round `r`) by accepted
    calls — ANY calls, zero-size allocation entries included — and by the passing of time
    (`nf_Later` of LP/Proofs/ReachNftFrame.lean without the premise `CallOK`) -/
inductive zn_Later (hash : List Nat → List Nat) (s : State) (r : Nat) : State → Nat → Prop
  | refl : zn_Later hash s r s r
  | call (s1 : State) (r1 : Nat) (e : Env) (c : Call) (s2 : State) (o : Out) :
      zn_Later hash s r s1 r1 → r1 ≤ e.round → EnvOK e →
      step hash s1 e c = .ok (s2, o) → zn_Later hash s r s2 e.round
  | wait (s1 : State) (r1 r2 : Nat) : zn_Later hash s r s1 r1 → r1 ≤ r2 → zn_Later hash s r s1 r2

theorem zn_Frozen_of_sim {s1 s2 z1 z2 : State} (h1 : ZSim s1 z1) (h2 : ZSim s2 z2)
    (hf : nf_Frozen z1 z2) : nf_Frozen s1 s2 := by
  obtain ⟨R1, B1, K1, C1, rfl⟩ := h1.shape'
  obtain ⟨R2, B2, K2, C2, rfl⟩ := h2.shape'
  exact ⟨hf.mem, hf.len, hf.pre, hf.avail, hf.cost⟩

/-- from a `ReachZA` state in which the filter has started, as long as the draw is not complete:
    whatever calls are accepted in whatever order, the NFT participants stay the same -/
theorem zn_later_frozen {hash : List Nat → List Nat} {a0 : InitArgs} {s : State} {r : Nat}
    (h : ReachZA hash .nft a0 s r) (hstd : s.flags.started = true) {s2 : State} {r2 : Nat}
    (hl : zn_Later hash s r s2 r2) :
    ReachZA hash .nft a0 s2 r2 ∧
    (s2.flags.additional = false → nf_Frozen s s2 ∧ s2.flags.started = true) := by
  induction hl with
  | refl => exact ⟨h, fun _ => ⟨nf_Frozen.refl s, hstd⟩⟩
  | call s1 r1 e c s2 o _ h1 h2 h4 ih =>
    obtain ⟨i1, i2⟩ := ih
    refine ⟨.call s1 r1 e c s2 o i1 h1 h2 h4, fun hadd2 => ?_⟩
    have hadd1 : s1.flags.additional = false := by
      cases hq : s1.flags.additional with
      | false => rfl
      | true =>
        have := (step_flags_gain h4).2 hq
        rw [hadd2] at this; cases this
    obtain ⟨j1, j2⟩ := i2 hadd1
    obtain ⟨z1, hz1, hsim1, hd1, hfr1⟩ := zn_sim i1
    obtain ⟨z2, _, hsim2, _, hcase⟩ := zn_sim_step hz1 hsim1 hd1 hfr1 h1 h2 h4
    have hfl1 : z1.flags = s1.flags := hsim1.sim.fields.2.1
    have hfl2 : z2.flags = s2.flags := hsim2.sim.fields.2.1
    rcases hcase with ⟨_, hc⟩ | ⟨c', _, hstep⟩
    · -- a claim needs the draw to be complete
      exfalso
      subst hc
      have hvs : s1.variant = .nft := by
        rw [← hsim1.sim.fields.2.2.1]; exact (nf_reach_WF hz1).var
      obtain ⟨rg, hacc, _⟩ := nf_claim_shape hash s1 e s2 o (nf_flags hvs).2.1 h4
      have := (claim_stage_selected hacc.2.2.1).2.1
      rw [hadd1] at this; cases this
    · obtain ⟨k1, k2⟩ := nf_call_frozen (nf_reach_WF hz1) h1 (by rw [hfl1]; exact j2)
        (by rw [hfl1]; exact hadd1) hstep
      exact ⟨j1.trans (zn_Frozen_of_sim hsim1.sim hsim2.sim k1), by rw [← hfl2]; exact k2⟩
  | wait s1 r1 r2 _ h1 ih =>
    obtain ⟨i1, i2⟩ := ih
    exact ⟨.wait s1 r1 r2 i1 h1, i2⟩

end LP
