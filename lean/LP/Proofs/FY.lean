import LP.Common
/-
  LP.Proofs.FY — the base lottery (`shuffleStep`) is a sparse, partial Fisher–Yates shuffle.
  Helper definitions and lemmas; the property theorems are in LP/Props/C03base.lean, C05.lean.
-/
namespace LP.FY

/-! ### definitions -/

/-- iterate `shuffleStep n` at positions `pos, pos+1, …`, one raw draw each -/
def fySteps (n : Nat) : (Nat → Bool) × (Nat → Nat) → Nat → List Nat → (Nat → Bool) × (Nat → Nat)
  | s, _, [] => s
  | s, pos, r :: rs => fySteps n (shuffleStep n s.1 s.2 pos r) (pos + 1) rs

/-- swap the entries with (0-based) indices `a` and `b` -/
def swapAt (arr : List Nat) (a b : Nat) : List Nat :=
  (arr.set a (arr.getD b 0)).set b (arr.getD a 0)

/-- textbook Fisher–Yates step `i` (1-based) over `n` entries with raw random `raw` -/
def tbStep (n : Nat) (arr : List Nat) (i raw : Nat) : List Nat :=
  swapAt arr (i - 1) (i + raw % (n - i + 1) - 1)

def tbSteps (n : Nat) : List Nat → Nat → List Nat → List Nat
  | arr, _, [] => arr
  | arr, i, r :: rs => tbSteps n (tbStep n arr i r) (i + 1) rs

/-- the array after running the textbook algorithm from the identity with the given raws -/
def tbRun (n : Nat) (raws : List Nat) : List Nat := tbSteps n (List.range' 1 n) 1 raws

/-- the selection: first `raws.length` entries -/
def tbSel (n : Nat) (raws : List Nat) : List Nat := (tbRun n raws).take raws.length

/-! ### swapAt -/

@[simp] theorem length_swapAt (arr : List Nat) (a b : Nat) : (swapAt arr a b).length = arr.length := by
  simp [swapAt]

theorem getD_swapAt (arr : List Nat) (a b p : Nat) (ha : a < arr.length) (hb : b < arr.length) :
    (swapAt arr a b).getD p 0 =
      if p = b then arr.getD a 0 else if p = a then arr.getD b 0 else arr.getD p 0 := by
  unfold swapAt
  simp only [List.getD_eq_getElem?_getD, List.getElem?_set, List.length_set]
  grind

theorem swapAt_perm (arr : List Nat) (a b : Nat) (ha : a < arr.length) (hb : b < arr.length) :
    (swapAt arr a b).Perm arr := by
  rw [List.perm_iff_count]
  intro c
  unfold swapAt
  rw [List.count_set (by simpa using hb), List.count_set ha]
  simp only [List.getD_eq_getElem?_getD, List.getElem_set]
  have h1 : ∀ (i : Nat) (h : i < arr.length), arr[i] = c → 0 < arr.count c := by
    intro i h e; exact List.count_pos_iff.mpr (e ▸ List.getElem_mem h)
  grind


theorem mem_take_iff_getD (l : List Nat) (m t : Nat) :
    t ∈ l.take m ↔ ∃ p, p < m ∧ p < l.length ∧ l.getD p 0 = t := by
  rw [List.mem_take_iff_getElem]
  constructor
  · rintro ⟨p, hp, e⟩
    refine ⟨p, by omega, by omega, ?_⟩
    simp only [List.getD_eq_getElem?_getD]
    rw [List.getElem?_eq_getElem (by omega)]; simpa using e
  · rintro ⟨p, h1, h2, e⟩
    refine ⟨p, by omega, ?_⟩
    simp only [List.getD_eq_getElem?_getD] at e
    rw [List.getElem?_eq_getElem (by omega)] at e; simpa using e

theorem mem_iff_getD (l : List Nat) (t : Nat) :
    t ∈ l ↔ ∃ p, p < l.length ∧ l.getD p 0 = t := by
  have := mem_take_iff_getD l l.length t
  rw [List.take_length] at this
  rw [this]
  constructor
  · rintro ⟨p, _, h, e⟩; exact ⟨p, h, e⟩
  · rintro ⟨p, h, e⟩; exact ⟨p, h, h, e⟩

theorem getD_range' (n p : Nat) (h : p < n) : (List.range' 1 n).getD p 0 = p + 1 := by
  simp only [List.getD_eq_getElem?_getD]
  rw [List.getElem?_eq_getElem (by simpa using h)]
  simp; omega

/-- in a duplicate-free list, equal entries have equal indices -/
theorem getD_inj (l : List Nat) (hn : l.Nodup) (p q : Nat) (hp : p < l.length) (hq : q < l.length)
    (e : l.getD p 0 = l.getD q 0) : p = q := (List.getD_inj hp hq hn).mp e

/-! ### the refinement invariant -/

/-- `arr` is the textbook array before step `i` (1-based); the sparse maps `status`/`posToId`
    represent its not-yet-fixed part (positions `i..n`) and the set of already selected ids. -/
structure R (n i : Nat) (status : Nat → Bool) (posToId : Nat → Nat) (arr : List Nat) : Prop where
  perm : arr.Perm (List.range' 1 n)
  pos : ∀ p, i ≤ p → p ≤ n → idFromPos posToId p = arr.getD (p - 1) 0
  stat : ∀ t, status t = true ↔ t ∈ arr.take (i - 1)

theorem R.len {n i st pi arr} (h : R n i st pi arr) : arr.length = n := by
  have := h.perm.length_eq; simpa using this

theorem R.nodup {n i st pi arr} (h : R n i st pi arr) : arr.Nodup :=
  h.perm.nodup_iff.mpr (List.nodup_range' 1)

theorem R.mem {n i st pi arr} (h : R n i st pi arr) (t : Nat) : t ∈ arr ↔ 1 ≤ t ∧ t ≤ n := by
  rw [h.perm.mem_iff, List.mem_range'_1]; omega

theorem R.getD_range {n i st pi arr} (h : R n i st pi arr) (p : Nat) (hp : p < n) :
    1 ≤ arr.getD p 0 ∧ arr.getD p 0 ≤ n := by
  rw [← h.mem]; rw [mem_iff_getD]; exact ⟨p, by rw [h.len]; exact hp, rfl⟩

theorem R_init (n : Nat) : R n 1 (fun _ => false) (fun _ => 0) (List.range' 1 n) where
  perm := List.Perm.refl _
  pos := by
    intro p h1 h2
    rw [getD_range' n (p - 1) (by omega)]
    simp [idFromPos]; omega
  stat := by intro t; simp

theorem inRange_eq (raw i n : Nat) (h : i ≤ n) : inRange raw i (n + 1) = i + raw % (n - i + 1) := by
  unfold inRange
  rw [if_neg (by omega)]
  congr 2; omega

theorem R_step {n i st pi arr} (raw : Nat) (h1 : 1 ≤ i) (h2 : i ≤ n) (h : R n i st pi arr) :
    R n (i + 1) (shuffleStep n st pi i raw).1 (shuffleStep n st pi i raw).2 (tbStep n arr i raw) := by
  have hlen := h.len
  have hj : raw % (n - i + 1) < n - i + 1 := Nat.mod_lt _ (by omega)
  generalize hjd : i + raw % (n - i + 1) = j at *
  have hj1 : i ≤ j := by omega
  have hj2 : j ≤ n := by omega
  have hsh : shuffleStep n st pi i raw = (upd st (arr.getD (j - 1) 0) true, upd pi j (arr.getD (i - 1) 0)) := by
    unfold shuffleStep
    simp only [inRange_eq raw i n h2, hjd]
    rw [h.pos j hj1 hj2, h.pos i (Nat.le_refl _) h2]
  rw [hsh]
  unfold tbStep
  rw [hjd]
  have ha : i - 1 < arr.length := by omega
  have hb : j - 1 < arr.length := by omega
  refine ⟨(swapAt_perm arr _ _ ha hb).trans h.perm, ?_, ?_⟩
  · intro p hp1 hp2
    rw [getD_swapAt arr _ _ _ ha hb]
    have hi0 := (h.getD_range (i - 1) (by omega)).1
    by_cases hpj : p = j
    · subst hpj
      simp only [idFromPos, upd_same]
      have : ¬ arr.getD (i - 1) 0 = 0 := by omega
      rw [if_neg this]; simp
    · have : idFromPos (upd pi j (arr.getD (i - 1) 0)) p = idFromPos pi p := by
        simp only [idFromPos, upd_other _ _ _ _ hpj]
      have e1 : ¬ p - 1 = j - 1 := by omega
      have e2 : ¬ p - 1 = i - 1 := by omega
      rw [this, h.pos p (by omega) hp2, if_neg e1, if_neg e2]
  · intro t
    simp only [upd_apply]
    rw [mem_take_iff_getD, length_swapAt]
    constructor
    · intro ht
      split at ht
      · rename_i e
        refine ⟨i - 1, by omega, ha, ?_⟩
        rw [getD_swapAt arr _ _ _ ha hb]
        by_cases hij : i - 1 = j - 1
        · rw [if_pos hij, e, hij]
        · rw [if_neg hij, if_pos rfl, e]
      · obtain ⟨p, hp1, hp2, e⟩ := (mem_take_iff_getD _ _ _).mp ((h.stat t).mp ht)
        have e1 : ¬ p = j - 1 := by omega
        have e2 : ¬ p = i - 1 := by omega
        refine ⟨p, by omega, hp2, ?_⟩
        rw [getD_swapAt arr _ _ _ ha hb, if_neg e1, if_neg e2]; exact e
    · rintro ⟨p, hp1, hp2, e⟩
      rw [getD_swapAt arr _ _ _ ha hb] at e
      by_cases hp : p = i - 1
      · subst hp
        have : arr.getD (j - 1) 0 = t := by
          by_cases hij : i - 1 = j - 1
          · rw [if_pos hij] at e; rw [← hij]; exact e
          · rw [if_neg hij, if_pos rfl] at e; exact e
        rw [if_pos this.symm]
      · have e1 : ¬ p = j - 1 := by omega
        rw [if_neg e1, if_neg hp] at e
        have : st t = true :=
          (h.stat t).mpr ((mem_take_iff_getD _ _ _).mpr ⟨p, by omega, hp2, e⟩)
        split <;> simp [this]


theorem R_steps {n : Nat} (raws : List Nat) : ∀ {i : Nat} {s : (Nat → Bool) × (Nat → Nat)} {arr : List Nat},
    1 ≤ i → i - 1 + raws.length ≤ n → R n i s.1 s.2 arr →
    R n (i + raws.length) (fySteps n s i raws).1 (fySteps n s i raws).2 (tbSteps n arr i raws) := by
  induction raws with
  | nil => intro i s arr _ _ h; simpa [fySteps, tbSteps] using h
  | cons r rs ih =>
    intro i s arr h1 h2 h
    simp only [List.length_cons] at h2
    have := ih (i := i + 1) (by omega) (by omega) (R_step r h1 (by omega) h)
    simp only [fySteps, tbSteps, List.length_cons]
    rw [show i + (rs.length + 1) = i + 1 + rs.length by omega]
    exact this

/-! ### counting winners -/

/-- number of ids `t` in `1..m` with `status t = true` -/
def countTrue (status : Nat → Bool) : Nat → Nat
  | 0 => 0
  | m + 1 => countTrue status m + (if status (m + 1) then 1 else 0)

theorem countTrue_eq_filter (st : Nat → Bool) (m : Nat) :
    countTrue st m = ((List.range' 1 m).filter st).length := by
  induction m with
  | zero => simp [countTrue]
  | succ m ih =>
    rw [countTrue, ih, List.range'_1_concat, List.filter_append, List.length_append]
    congr 1
    rw [Nat.add_comm 1 m]
    by_cases h : st (m + 1) <;> simp [h]

theorem countTrue_eq_length (st : Nat → Bool) (n : Nat) (L : List Nat) (hn : L.Nodup)
    (hr : ∀ t ∈ L, 1 ≤ t ∧ t ≤ n) (hs : ∀ t, 1 ≤ t → t ≤ n → (st t = true ↔ t ∈ L)) :
    countTrue st n = L.length := by
  rw [countTrue_eq_filter]
  apply List.Perm.length_eq
  rw [List.perm_ext_iff_of_nodup ((List.nodup_range' 1).filter _) hn]
  intro t
  rw [List.mem_filter, List.mem_range'_1]
  constructor
  · rintro ⟨⟨a, b⟩, c⟩; exact (hs t a (by omega)).mp c
  · intro h
    have := hr t h
    exact ⟨⟨this.1, by omega⟩, (hs t this.1 this.2).mpr h⟩


/-! ### more on the textbook algorithm: prefix stability, permutation -/

theorem getD_set_ne (l : List Nat) (a v p : Nat) (h : p ≠ a) : (l.set a v).getD p 0 = l.getD p 0 := by
  simp only [List.getD_eq_getElem?_getD, List.getElem?_set]
  rw [if_neg (fun e => h e.symm)]

theorem getD_swapAt_ne (arr : List Nat) (a b p : Nat) (h1 : p ≠ a) (h2 : p ≠ b) :
    (swapAt arr a b).getD p 0 = arr.getD p 0 := by
  unfold swapAt; rw [getD_set_ne _ _ _ _ h2, getD_set_ne _ _ _ _ h1]

theorem swapAt_oob (arr : List Nat) (a b : Nat) (ha : arr.length ≤ a) (hb : arr.length ≤ b) :
    swapAt arr a b = arr := by
  unfold swapAt
  rw [List.set_eq_of_length_le (by simpa using hb), List.set_eq_of_length_le ha]

@[simp] theorem length_tbStep (n : Nat) (arr : List Nat) (i r : Nat) :
    (tbStep n arr i r).length = arr.length := by simp [tbStep]

@[simp] theorem length_tbSteps (n : Nat) (raws : List Nat) : ∀ (arr : List Nat) (i : Nat),
    (tbSteps n arr i raws).length = arr.length := by
  induction raws with
  | nil => intro arr i; rfl
  | cons r rs ih => intro arr i; simp [tbSteps, ih]

theorem tbStep_perm (n : Nat) (arr : List Nat) (i r : Nat) (hl : arr.length = n) (h1 : 1 ≤ i) :
    (tbStep n arr i r).Perm arr := by
  unfold tbStep
  by_cases h : i ≤ n
  · have : r % (n - i + 1) < n - i + 1 := Nat.mod_lt _ (by omega)
    exact swapAt_perm _ _ _ (by omega) (by omega)
  · rw [swapAt_oob _ _ _ (by omega) (by omega)]

theorem tbSteps_perm (n : Nat) (raws : List Nat) : ∀ (arr : List Nat) (i : Nat),
    arr.length = n → 1 ≤ i → (tbSteps n arr i raws).Perm arr := by
  induction raws with
  | nil => intro arr i _ _; exact List.Perm.refl _
  | cons r rs ih =>
    intro arr i hl h1
    exact (ih (tbStep n arr i r) (i + 1) (by simpa using hl) (by omega)).trans
      (tbStep_perm n arr i r hl h1)

theorem tbRun_perm (n : Nat) (raws : List Nat) : (tbRun n raws).Perm (List.range' 1 n) :=
  tbSteps_perm n raws _ 1 (by simp) (Nat.le_refl 1)

/-- steps `i, i+1, …` never touch the entries with index `< i-1` -/
theorem getD_tbSteps_lt (n : Nat) (raws : List Nat) : ∀ (arr : List Nat) (i p : Nat),
    p < i - 1 → (tbSteps n arr i raws).getD p 0 = arr.getD p 0 := by
  induction raws with
  | nil => intro arr i p _; rfl
  | cons r rs ih =>
    intro arr i p hp
    rw [tbSteps, ih _ (i + 1) p (by omega)]
    unfold tbStep
    exact getD_swapAt_ne _ _ _ _ (by omega) (by omega)

theorem getD_take (l : List Nat) (m p : Nat) (h : p < m) : (l.take m).getD p 0 = l.getD p 0 := by
  simp only [List.getD_eq_getElem?_getD, List.getElem?_take, if_pos h]

/-! ### residue vectors -/

/-- residues of the raws drawn at steps `i, i+1, …` -/
def resFrom (n : Nat) : Nat → List Nat → List Nat
  | _, [] => []
  | i, r :: rs => r % (n - i + 1) :: resFrom n (i + 1) rs

/-- `cs` is a vector of residues for steps `i, i+1, …`: the entry for step `m` is `< n - m + 1` -/
def validFrom (n : Nat) : Nat → List Nat → Prop
  | _, [] => True
  | i, c :: cs => c < n - i + 1 ∧ validFrom n (i + 1) cs

@[simp] theorem length_resFrom (n : Nat) (raws : List Nat) : ∀ i, (resFrom n i raws).length = raws.length := by
  induction raws with
  | nil => intro i; rfl
  | cons r rs ih => intro i; simp [resFrom, ih]

theorem getD_resFrom (n : Nat) (raws : List Nat) : ∀ (i q : Nat), q < raws.length →
    (resFrom n i raws).getD q 0 = raws.getD q 0 % (n - (i + q) + 1) := by
  induction raws with
  | nil => intro i q hq; simp at hq
  | cons r rs ih =>
    intro i q hq
    cases q with
    | zero => simp [resFrom]
    | succ q =>
      simp only [List.length_cons] at hq
      simp only [resFrom, List.getD_cons_succ]
      rw [ih (i + 1) q (by omega), show i + 1 + q = i + (q + 1) by omega]

theorem tbStep_mod (n : Nat) (arr : List Nat) (i r : Nat) :
    tbStep n arr i (r % (n - i + 1)) = tbStep n arr i r := by
  unfold tbStep; rw [Nat.mod_mod]

theorem tbSteps_resFrom (n : Nat) (raws : List Nat) : ∀ (arr : List Nat) (i : Nat),
    tbSteps n arr i (resFrom n i raws) = tbSteps n arr i raws := by
  induction raws with
  | nil => intro arr i; rfl
  | cons r rs ih => intro arr i; simp only [resFrom, tbSteps, tbStep_mod, ih]

theorem validFrom_resFrom (n : Nat) (raws : List Nat) : ∀ i, validFrom n i (resFrom n i raws) := by
  induction raws with
  | nil => intro i; trivial
  | cons r rs ih => intro i; exact ⟨Nat.mod_lt _ (by omega), ih (i + 1)⟩

theorem validFrom_iff (n : Nat) (cs : List Nat) : ∀ i,
    validFrom n i cs ↔ ∀ q, q < cs.length → cs.getD q 0 < n - (i + q) + 1 := by
  induction cs with
  | nil => intro i; simp [validFrom]
  | cons c cs ih =>
    intro i
    simp only [validFrom, ih, List.length_cons]
    constructor
    · rintro ⟨h0, h⟩ q hq
      cases q with
      | zero => simpa using h0
      | succ q =>
        have := h q (by omega)
        simp only [List.getD_cons_succ]
        rw [show i + (q + 1) = i + 1 + q by omega]; exact this
    · intro h
      refine ⟨by simpa using h 0 (by omega), ?_⟩
      intro q hq
      have := h (q + 1) (by omega)
      simp only [List.getD_cons_succ] at this
      rw [show i + (q + 1) = i + 1 + q by omega] at this; exact this

/-- distinct residue vectors give distinct selections -/
theorem tbSteps_inj (n : Nat) (cs : List Nat) : ∀ (cs' arr : List Nat) (i : Nat),
    arr.Nodup → arr.length = n → 1 ≤ i → cs.length = cs'.length →
    validFrom n i cs → validFrom n i cs' → i - 1 + cs.length ≤ n →
    (tbSteps n arr i cs).take (i - 1 + cs.length) = (tbSteps n arr i cs').take (i - 1 + cs.length) →
    cs = cs' := by
  induction cs with
  | nil =>
    intro cs' arr i _ _ _ hl _ _ _ _
    cases cs' with
    | nil => rfl
    | cons _ _ => simp at hl
  | cons c cs ih =>
    intro cs' arr i hnd hlen h1 hl hv hv' hb he
    cases cs' with
    | nil => simp at hl
    | cons c' cs' =>
      simp only [List.length_cons] at hl hb he
      obtain ⟨hc, hv⟩ := hv
      obtain ⟨hc', hv'⟩ := hv'
      have e0 : ((tbSteps n arr i (c :: cs)).take (i - 1 + (cs.length + 1))).getD (i - 1) 0 =
          ((tbSteps n arr i (c' :: cs')).take (i - 1 + (cs.length + 1))).getD (i - 1) 0 := by rw [he]
      rw [getD_take _ _ _ (by omega), getD_take _ _ _ (by omega)] at e0
      simp only [tbSteps] at e0
      rw [getD_tbSteps_lt _ _ _ _ _ (by omega), getD_tbSteps_lt _ _ _ _ _ (by omega)] at e0
      unfold tbStep at e0
      rw [Nat.mod_eq_of_lt hc, Nat.mod_eq_of_lt hc',
        getD_swapAt _ _ _ _ (by omega) (by omega), getD_swapAt _ _ _ _ (by omega) (by omega)] at e0
      have hcc : c = c' := by
        have key : arr.getD (i + c - 1) 0 = arr.getD (i + c' - 1) 0 := by
          by_cases ha : i - 1 = i + c - 1
          · rw [if_pos ha] at e0
            by_cases hb' : i - 1 = i + c' - 1
            · rw [if_pos hb'] at e0; rw [← ha, ← hb']
            · rw [if_neg hb', if_pos rfl] at e0; rw [← ha]; exact e0
          · rw [if_neg ha, if_pos rfl] at e0
            by_cases hb' : i - 1 = i + c' - 1
            · rw [if_pos hb'] at e0; rw [← hb']; exact e0
            · rw [if_neg hb', if_pos rfl] at e0; exact e0
        have := getD_inj arr hnd _ _ (by omega) (by omega) key
        omega
      subst hcc
      congr 1
      have hA : (tbStep n arr i c).Perm arr := tbStep_perm n arr i c hlen h1
      apply ih cs' (tbStep n arr i c) (i + 1) (hA.nodup_iff.mpr hnd) (by simpa using hlen)
        (by omega) (by omega) hv hv' (by omega)
      simp only [tbSteps] at he
      rw [show i + 1 - 1 + cs.length = i - 1 + (cs.length + 1) by omega]
      exact he

/-- every duplicate-free list over the not-yet-fixed part of the array is reached -/
theorem tbSteps_surj (n : Nat) (sel : List Nat) : ∀ (arr : List Nat) (i : Nat),
    arr.Nodup → arr.length = n → 1 ≤ i → i - 1 ≤ n → sel.Nodup →
    (∀ t ∈ sel, ∃ p, i - 1 ≤ p ∧ p < n ∧ arr.getD p 0 = t) →
    ∃ cs, cs.length = sel.length ∧ validFrom n i cs ∧ i - 1 + sel.length ≤ n ∧
      ∀ q, q < sel.length → (tbSteps n arr i cs).getD (i - 1 + q) 0 = sel.getD q 0 := by
  induction sel with
  | nil => intro arr i _ _ _ hi _ _; exact ⟨[], rfl, trivial, by simpa using hi, by simp⟩
  | cons t sel ih =>
    intro arr i hnd hlen h1 hi hsn hmem
    obtain ⟨p, hp1, hp2, hpt⟩ := hmem t (List.mem_cons_self)
    have hc : p - (i - 1) < n - i + 1 := by omega
    have hj : i + (p - (i - 1)) % (n - i + 1) - 1 = p := by rw [Nat.mod_eq_of_lt hc]; omega
    have hAdef : tbStep n arr i (p - (i - 1)) = swapAt arr (i - 1) p := by unfold tbStep; rw [hj]
    have hA : (tbStep n arr i (p - (i - 1))).Perm arr := tbStep_perm n arr i _ hlen h1
    have hsn' := List.nodup_cons.mp hsn
    obtain ⟨cs, hcl, hcv, hcb, hcq⟩ := ih (tbStep n arr i (p - (i - 1))) (i + 1)
      (hA.nodup_iff.mpr hnd) (by simpa using hlen) (by omega) (by omega) hsn'.2 (by
        intro t' ht'
        obtain ⟨p', hp1', hp2', hpt'⟩ := hmem t' (List.mem_cons_of_mem _ ht')
        have hne : p' ≠ p := by
          intro e; subst e; rw [hpt] at hpt'; subst hpt'; exact hsn'.1 ht'
        rw [hAdef]
        by_cases hp' : p' = i - 1
        · refine ⟨p, by omega, hp2, ?_⟩
          rw [getD_swapAt _ _ _ _ (by omega) (by omega), if_pos rfl, ← hp']; exact hpt'
        · refine ⟨p', by omega, hp2', ?_⟩
          rw [getD_swapAt_ne _ _ _ _ hp' hne]; exact hpt')
    refine ⟨(p - (i - 1)) :: cs, by simp [hcl], ⟨hc, hcv⟩, by simp only [List.length_cons]; omega, ?_⟩
    intro q hq
    simp only [tbSteps]
    cases q with
    | zero =>
      rw [getD_tbSteps_lt _ _ _ _ _ (by omega), hAdef,
        getD_swapAt _ _ _ _ (by omega) (by omega)]
      simp only [Nat.add_zero, List.getD_cons_zero]
      by_cases e : i - 1 = p
      · simp only [e, if_true]; exact hpt
      · simp only [e, if_false, if_true]; exact hpt
    | succ q =>
      simp only [List.length_cons] at hq
      have := hcq q (by omega)
      rw [show i - 1 + (q + 1) = i + 1 - 1 + q by omega, this]
      simp

/-- a list is determined by its length and its entries -/
theorem ext_getD (l l' : List Nat) (hl : l.length = l'.length)
    (h : ∀ q, q < l.length → l.getD q 0 = l'.getD q 0) : l = l' := by
  apply List.ext_getElem hl
  intro q h1 h2
  have := h q h1
  simp only [List.getD_eq_getElem?_getD] at this
  rw [List.getElem?_eq_getElem h1, List.getElem?_eq_getElem h2] at this
  simpa using this

/-! ### valid residue vectors, selections, and the bijection between them -/

/-- residues of a full raw vector (steps `1, 2, …`) -/
def residues (n : Nat) (raws : List Nat) : List Nat := resFrom n 1 raws

/-- `cs` is a valid residue vector for `(n,k)`: `k` entries, the entry with 0-based index `q`
    (step `q+1`) is `< n - q` (`= n - (q+1) + 1` whenever the step exists, i.e. `q < n`). -/
def ValidRes (n k : Nat) (cs : List Nat) : Prop :=
  cs.length = k ∧ ∀ q, q < k → cs.getD q 0 < n - q

/-- `sel` is an ordered selection of `k` distinct tickets out of `1..n` -/
def IsSel (n k : Nat) (sel : List Nat) : Prop :=
  sel.length = k ∧ sel.Nodup ∧ ∀ t ∈ sel, 1 ≤ t ∧ t ≤ n

theorem ValidRes.le {n k cs} (h : ValidRes n k cs) : k ≤ n := by
  apply Nat.le_of_not_lt
  intro hlt
  have := h.2 n hlt
  omega

theorem ValidRes.validFrom {n k cs} (h : ValidRes n k cs) : validFrom n 1 cs := by
  rw [validFrom_iff]
  intro q hq
  have := h.2 q (by rw [← h.1]; exact hq)
  omega

theorem validRes_of_validFrom {n : Nat} {cs : List Nat} (hk : cs.length ≤ n) (h : validFrom n 1 cs) :
    ValidRes n cs.length cs := by
  refine ⟨rfl, ?_⟩
  intro q hq
  have := (validFrom_iff n cs 1).mp h q hq
  omega

theorem tbSel_isSel {n k cs} (h : ValidRes n k cs) : IsSel n k (tbSel n cs) := by
  have hk := h.le
  have hp := tbRun_perm n cs
  have hlen : (tbRun n cs).length = n := by simpa using hp.length_eq
  refine ⟨?_, ?_, ?_⟩
  · simp only [tbSel, List.length_take, hlen, h.1]; omega
  · exact (hp.nodup_iff.mpr (List.nodup_range' 1)).sublist (List.take_sublist _ _)
  · intro t ht
    have := hp.mem_iff.mp (List.mem_of_mem_take ht)
    rw [List.mem_range'_1] at this; omega

theorem tbSel_inj {n k cs cs'} (h : ValidRes n k cs) (h' : ValidRes n k cs')
    (e : tbSel n cs = tbSel n cs') : cs = cs' := by
  have hk := h.le
  apply tbSteps_inj n cs cs' (List.range' 1 n) 1 (List.nodup_range' 1) (by simp) (Nat.le_refl 1)
    (by rw [h.1, h'.1]) h.validFrom h'.validFrom (by rw [h.1]; omega)
  simp only [tbSel, tbRun, h.1, h'.1] at e
  simpa [h.1] using e

theorem tbSel_surj {n k sel} (h : IsSel n k sel) : ∃ cs, ValidRes n k cs ∧ tbSel n cs = sel := by
  obtain ⟨hl, hnd, hr⟩ := h
  obtain ⟨cs, hcl, hcv, hcb, hcq⟩ := tbSteps_surj n sel (List.range' 1 n) 1 (List.nodup_range' 1)
    (by simp) (Nat.le_refl 1) (by omega) hnd (by
      intro t ht
      have := hr t ht
      exact ⟨t - 1, by omega, by omega, by rw [getD_range' n (t - 1) (by omega)]; omega⟩)
  have hkn : sel.length ≤ n := by omega
  refine ⟨cs, ?_, ?_⟩
  · have := validRes_of_validFrom (by omega) hcv
    rw [hcl, hl] at this; exact this
  · apply ext_getD
    · simp only [tbSel, tbRun, List.length_take, length_tbSteps, List.length_range']; omega
    · intro q hq
      have hq' : q < sel.length := by
        simp only [tbSel, tbRun, List.length_take, length_tbSteps, List.length_range'] at hq; omega
      simp only [tbSel]
      rw [getD_take _ _ _ (by omega)]
      have := hcq q hq'
      simpa [tbRun] using this

theorem tbRun_residues (n : Nat) (raws : List Nat) : tbRun n (residues n raws) = tbRun n raws :=
  tbSteps_resFrom n raws _ 1

theorem tbSel_residues (n : Nat) (raws : List Nat) : tbSel n (residues n raws) = tbSel n raws := by
  unfold tbSel
  rw [tbRun_residues]
  simp only [residues, length_resFrom]

theorem validRes_residues (n : Nat) (raws : List Nat) (hk : raws.length ≤ n) :
    ValidRes n raws.length (residues n raws) := by
  have := validRes_of_validFrom (n := n) (cs := residues n raws)
    (by simpa [residues] using hk) (validFrom_resFrom n raws 1)
  simpa [residues] using this

/-! ### exchanging two ticket ids -/

def swapVal (t t' x : Nat) : Nat := if x = t then t' else if x = t' then t else x

/-- exchange the values `t` and `t'` in a selection -/
def swapVals (t t' : Nat) (sel : List Nat) : List Nat := sel.map (swapVal t t')

theorem swapVal_invol (t t' x : Nat) : swapVal t t' (swapVal t t' x) = x := by
  unfold swapVal; split <;> split <;> (try split) <;> omega

theorem swapVal_inj (t t' : Nat) {x y : Nat} (h : swapVal t t' x = swapVal t t' y) : x = y := by
  have := congrArg (swapVal t t') h
  rwa [swapVal_invol, swapVal_invol] at this

theorem swapVals_invol (t t' : Nat) (sel : List Nat) : swapVals t t' (swapVals t t' sel) = sel := by
  unfold swapVals
  rw [List.map_map]
  have : swapVal t t' ∘ swapVal t t' = id := by funext x; exact swapVal_invol t t' x
  rw [this, List.map_id]

theorem mem_swapVals (t t' x : Nat) (sel : List Nat) :
    x ∈ swapVals t t' sel ↔ swapVal t t' x ∈ sel := by
  unfold swapVals
  rw [List.mem_map]
  constructor
  · rintro ⟨y, hy, e⟩; rw [← e, swapVal_invol]; exact hy
  · intro h; exact ⟨_, h, swapVal_invol t t' x⟩

theorem swapVals_isSel {n k t t' sel} (ht : 1 ≤ t ∧ t ≤ n) (ht' : 1 ≤ t' ∧ t' ≤ n)
    (h : IsSel n k sel) : IsSel n k (swapVals t t' sel) := by
  obtain ⟨hl, hnd, hr⟩ := h
  refine ⟨by simp [swapVals, hl], ?_, ?_⟩
  · unfold swapVals
    rw [List.nodup_iff_pairwise_ne, List.pairwise_map]
    exact hnd.imp (fun hne e => hne (swapVal_inj t t' e))
  · intro x hx
    rw [mem_swapVals] at hx
    have := hr _ hx
    unfold swapVal at this
    split at this
    · omega
    · split at this <;> omega

/-- some residue vector producing `sel` (the inverse of the bijection of `tbSel_inj/surj`) -/
noncomputable def decode (n k : Nat) (sel : List Nat) : List Nat :=
  open Classical in
  if h : ∃ cs, ValidRes n k cs ∧ tbSel n cs = sel then Classical.choose h else []

theorem decode_spec {n k sel} (h : IsSel n k sel) :
    ValidRes n k (decode n k sel) ∧ tbSel n (decode n k sel) = sel := by
  have hex := tbSel_surj h
  unfold decode
  rw [dif_pos hex]
  exact Classical.choose_spec hex

/-- the involution on residue vectors induced by exchanging tickets `t` and `t'` -/
noncomputable def resSwap (n k t t' : Nat) (cs : List Nat) : List Nat :=
  decode n k (swapVals t t' (tbSel n cs))

theorem swapVals_mem_iff (t t' : Nat) (sel : List Nat) :
    (t ∈ sel ↔ t' ∈ swapVals t t' sel) ∧ (t' ∈ sel ↔ t ∈ swapVals t t' sel) := by
  rw [mem_swapVals, mem_swapVals]
  have e1 : swapVal t t' t' = t := by unfold swapVal; split <;> simp_all
  have e2 : swapVal t t' t = t' := by unfold swapVal; simp
  rw [e1, e2]; exact ⟨Iff.rfl, Iff.rfl⟩

theorem resSwap_spec {n k t t' : Nat} (ht : 1 ≤ t ∧ t ≤ n) (ht' : 1 ≤ t' ∧ t' ≤ n) {cs : List Nat}
    (h : ValidRes n k cs) :
    ValidRes n k (resSwap n k t t' cs) ∧
    tbSel n (resSwap n k t t' cs) = swapVals t t' (tbSel n cs) ∧
    resSwap n k t t' (resSwap n k t t' cs) = cs ∧
    (t ∈ tbSel n cs ↔ t' ∈ tbSel n (resSwap n k t t' cs)) ∧
    (t' ∈ tbSel n cs ↔ t ∈ tbSel n (resSwap n k t t' cs)) := by
  have hs := tbSel_isSel h
  have hd := decode_spec (swapVals_isSel ht ht' hs)
  have hd2 := decode_spec (swapVals_isSel ht ht' (tbSel_isSel hd.1))
  refine ⟨hd.1, hd.2, ?_, ?_, ?_⟩
  · apply tbSel_inj hd2.1 h
    show tbSel n (decode n k (swapVals t t' (tbSel n (decode n k (swapVals t t' (tbSel n cs)))))) = _
    rw [hd2.2, hd.2, swapVals_invol]
  · show _ ↔ t' ∈ tbSel n (decode n k (swapVals t t' (tbSel n cs)))
    rw [hd.2]; exact (swapVals_mem_iff t t' _).1
  · show _ ↔ t ∈ tbSel n (decode n k (swapVals t t' (tbSel n cs)))
    rw [hd.2]; exact (swapVals_mem_iff t t' _).2

/-! ### the raw draws of `Rng.next` -/

/-- generator state after `j` draws -/
def rngAfter (hash : List Nat → List Nat) (r : Rng) : Nat → Rng
  | 0 => r
  | j + 1 => (Rng.next hash (rngAfter hash r j)).2

/-- the `j`-th raw draw (0-based) -/
def drawAt (hash : List Nat → List Nat) (r : Rng) (j : Nat) : Nat :=
  (Rng.next hash (rngAfter hash r j)).1

/-- the first `k` raw draws, as the loop consumes them -/
def draws (hash : List Nat → List Nat) (r : Rng) : Nat → List Nat
  | 0 => []
  | k + 1 => (r.next hash).1 :: draws hash (r.next hash).2 k

theorem rngAfter_succ' (hash : List Nat → List Nat) (r : Rng) (j : Nat) :
    rngAfter hash r (j + 1) = rngAfter hash (r.next hash).2 j := by
  induction j with
  | zero => rfl
  | succ j ih => rw [rngAfter, ih]; rfl

theorem drawAt_succ' (hash : List Nat → List Nat) (r : Rng) (j : Nat) :
    drawAt hash r (j + 1) = drawAt hash (r.next hash).2 j := by
  unfold drawAt; rw [rngAfter_succ']

theorem draws_eq_map (hash : List Nat → List Nat) (k : Nat) : ∀ r : Rng,
    draws hash r k = (List.range k).map (drawAt hash r) := by
  induction k with
  | zero => intro r; rfl
  | succ k ih =>
    intro r
    have e : List.range (k + 1) = 0 :: (List.range k).map Nat.succ := List.range_succ_eq_map
    rw [e]
    show (r.next hash).1 :: draws hash (r.next hash).2 k = _
    rw [ih, List.map_cons, List.map_map]
    have hd : (r.next hash).1 = drawAt hash r 0 := rfl
    rw [hd]
    refine congrArg (List.cons _) ?_
    apply List.map_congr_left
    intro j _
    exact (drawAt_succ' hash r j).symm

@[simp] theorem length_draws (hash : List Nat → List Nat) (k : Nat) (r : Rng) :
    (draws hash r k).length = k := by
  rw [draws_eq_map]; simp

/-- `iter f m a = f^[m] a` (Mathlib's `iter`, restated here to stay core-only) -/
def iter {α : Type} (f : α → α) : Nat → α → α
  | 0, a => a
  | m + 1, a => iter f m (f a)

theorem iterate_succ_apply' (f : List Nat → List Nat) (m : Nat) : ∀ a : List Nat,
    iter f (m + 1) a = f (iter f m a) := by
  induction m with
  | zero => intro a; rfl
  | succ m ih => intro a; exact ih (f a)

theorem next_eq (hash : List Nat → List Nat) (r : Rng) :
    Rng.next hash r =
      if r.index + 4 > 32 then (beWord (hash r.seed) 0, { seed := hash r.seed, index := 4 })
      else (beWord r.seed r.index, { seed := r.seed, index := r.index + 4 }) := by
  simp only [Rng.next, USIZE_BYTES, HASH_LEN]
  by_cases h : r.index + 4 > 32
  · have h' : 32 < r.index + 4 := h
    simp [h']
  · have h' : ¬ 32 < r.index + 4 := h
    simp [h']

theorem rngAfter_closed (hash : List Nat → List Nat) (seed : List Nat) (j : Nat) :
    rngAfter hash { seed := seed, index := 0 } (j + 1) =
      { seed := iter hash (j / 8) seed, index := 4 * (j % 8) + 4 } := by
  induction j with
  | zero => simp [rngAfter, next_eq, iter]
  | succ j ih =>
    rw [rngAfter, ih, next_eq]
    by_cases h : j % 8 = 7
    · have h1 : (j + 1) / 8 = j / 8 + 1 := by omega
      have h2 : (j + 1) % 8 = 0 := by omega
      have : 4 * (j % 8) + 4 + 4 > 32 := by omega
      rw [h1, h2, iterate_succ_apply', if_pos this]
    · have h1 : (j + 1) / 8 = j / 8 := by omega
      have h2 : (j + 1) % 8 = j % 8 + 1 := by omega
      have : ¬ (4 * (j % 8) + 4 + 4 > 32) := by omega
      rw [h1, h2, if_neg this]
      simp only [Rng.mk.injEq, true_and]
      omega

theorem drawAt_closed (hash : List Nat → List Nat) (seed : List Nat) (j : Nat) :
    drawAt hash { seed := seed, index := 0 } j =
      beWord (iter hash (j / 8) seed) (4 * (j % 8)) := by
  cases j with
  | zero => simp [drawAt, rngAfter, next_eq, iter]
  | succ j =>
    rw [drawAt, rngAfter_closed, next_eq]
    by_cases h : j % 8 = 7
    · have h1 : (j + 1) / 8 = j / 8 + 1 := by omega
      have h2 : (j + 1) % 8 = 0 := by omega
      have : 4 * (j % 8) + 4 + 4 > 32 := by omega
      rw [h1, h2, iterate_succ_apply', if_pos this]
    · have h1 : (j + 1) / 8 = j / 8 := by omega
      have h2 : (j + 1) % 8 = j % 8 + 1 := by omega
      have : ¬ (4 * (j % 8) + 4 + 4 > 32) := by omega
      rw [h1, h2, if_neg this]
      show beWord _ _ = beWord _ _
      congr 1


/-! ### the endpoint's loop (`selectBody` under `runWhile`) -/

theorem draw_noscript (hash : List Nat → List Nat) (t : Tx) (rng : Rng) (h : t.c.script = []) :
    (t.draw hash rng).1 = (rng.next hash).1 ∧ (t.draw hash rng).2.1 = (rng.next hash).2 ∧
    (t.draw hash rng).2.2.c.script = [] ∧ (t.draw hash rng).2.2.s = t.s := by
  unfold Tx.draw
  simp [h]

/-- loop state after one draw + shuffle step, with the given next position -/
def stepSt (hash : List Nat → List Nat) (last : Nat) (x : SelSt) (pos' : Nat) : SelSt where
  status := (shuffleStep last x.status x.posToId x.pos (x.tx.draw hash x.rng).1).1
  posToId := (shuffleStep last x.status x.posToId x.pos (x.tx.draw hash x.rng).1).2
  rng := (x.tx.draw hash x.rng).2.1
  pos := pos'
  tx := (x.tx.draw hash x.rng).2.2

theorem selectBody_eq (hash : List Nat → List Nat) (nr last : Nat) (x : SelSt) :
    selectBody hash nr last x =
      if nr = 0 then .ok (x, false) else
      if x.pos = nr then .ok (stepSt hash last x x.pos, false)
      else .ok (stepSt hash last x (x.pos + 1), true) := by
  unfold selectBody stepSt
  rfl

theorem select_loop (hash : List Nat → List Nat) (nr last : Nat) : ∀ (fuel : Nat) (x : SelSt),
    x.tx.c.script = [] → 1 ≤ x.pos → x.pos ≤ nr → nr - x.pos + 1 ≤ fuel →
    ∃ x', runWhile (selectBody hash nr last) fuel none x = .ok (x', none, .completed) ∧
      (x'.status, x'.posToId) =
        fySteps last (x.status, x.posToId) x.pos (draws hash x.rng (nr - x.pos + 1)) ∧
      x'.pos = nr ∧ x'.rng = rngAfter hash x.rng (nr - x.pos + 1) ∧
      x'.tx.c.script = [] ∧ x'.tx.s = x.tx.s := by
  intro fuel
  induction fuel with
  | zero => intro x _ _ _ h; omega
  | succ fuel ih =>
    intro x hs h1 h2 hf
    obtain ⟨d1, d2, d3, d4⟩ := draw_noscript hash x.tx x.rng hs
    have hnr : ¬ nr = 0 := by omega
    by_cases hp : x.pos = nr
    · refine ⟨stepSt hash last x x.pos, ?_, ?_, hp, ?_, d3, d4⟩
      · rw [runWhile, selectBody_eq, if_neg hnr, if_pos hp]
      · rw [show nr - x.pos + 1 = 0 + 1 by omega]
        simp only [stepSt, draws, fySteps, d1]
      · rw [show nr - x.pos + 1 = 0 + 1 by omega]
        simp only [stepSt, rngAfter, d2]
    · obtain ⟨x', e, hfy, hpos, hrng, hscr, hst⟩ := ih (stepSt hash last x (x.pos + 1))
        d3 (by simp [stepSt]) (by simp only [stepSt]; omega) (by simp only [stepSt]; omega)
      refine ⟨x', ?_, ?_, hpos, ?_, hscr, hst.trans d4⟩
      · rw [runWhile, selectBody_eq, if_neg hnr, if_neg hp]
        exact e
      · rw [hfy]
        simp only [stepSt]
        rw [show nr - x.pos + 1 = (nr - (x.pos + 1) + 1) + 1 by omega]
        simp only [draws, fySteps, d1, d2]
      · rw [hrng]
        simp only [stepSt]
        rw [show nr - x.pos + 1 = (nr - (x.pos + 1) + 1) + 1 by omega, rngAfter_succ' hash x.rng, d2]


/-- the loop of `selectWinners` from position 1 (never interrupted, no scripted draws) -/
theorem select_loop_full (hash : List Nat → List Nat) (nr last fuel : Nat) (x : SelSt)
    (hs : x.tx.c.script = []) (hp : x.pos = 1) (hf : nr + 1 ≤ fuel) :
    ∃ x', runWhile (selectBody hash nr last) fuel none x = .ok (x', none, .completed) ∧
      (x'.status, x'.posToId) = fySteps last (x.status, x.posToId) 1 (draws hash x.rng nr) := by
  by_cases h0 : nr = 0
  · subst h0
    refine ⟨x, ?_, rfl⟩
    obtain ⟨fuel, rfl⟩ : ∃ f, fuel = f + 1 := ⟨fuel - 1, by omega⟩
    rw [runWhile, selectBody_eq, if_pos rfl]
  · obtain ⟨x', e, hfy, _⟩ := select_loop hash nr last fuel x hs (by omega) (by omega) (by omega)
    refine ⟨x', e, ?_⟩
    rw [hfy, hp, show nr - 1 + 1 = nr by omega]

/-! ### the endpoint `selectWinners` -/

theorem req_bind_ok {β : Type} (c : Bool) (m : String) (f : Unit → Res β) (b : β)
    (h : (req c m >>= f) = .ok b) : c = true ∧ f () = .ok b := by
  cases c with
  | false => simp [req, bind, Except.bind] at h
  | true => exact ⟨rfl, by simpa [req, bind, Except.bind] using h⟩

theorem freshRng_ctx (t : Tx) : t.freshRng.2.c.script = t.c.script ∧
    t.freshRng.2.c.budget = t.c.budget ∧ t.freshRng.2.s = t.s := by
  unfold Tx.freshRng
  split <;> simp

/-- a successful, uninterrupted `selectWinners` call that starts the operation (no scripted
    draws) leaves exactly the result of `fySteps` over the first `nrWinning` draws of the fresh
    generator in the two storage maps -/
theorem selectWinners_fy (hash : List Nat → List Nat) (t : Tx) (e : Env) (t' : Tx)
    (hop : t.s.op = .none) (hb : t.c.budget = none) (hscr : t.c.script = [])
    (hok : selectWinners hash t e = .ok t') :
    (t'.s.status, t'.s.posToId) =
      fySteps t.s.lastTicketId (t.s.status, t.s.posToId) 1 (draws hash t.freshRng.1 t.s.nrWinning) ∧
    t'.s.flags.selected = true ∧ t'.s.nrWinning = t.s.nrWinning ∧
    t'.s.lastTicketId = t.s.lastTicketId := by
  unfold selectWinners at hok
  obtain ⟨_, hok⟩ := req_bind_ok _ _ _ _ hok
  unfold requireStage ownerOrUser at hok
  obtain ⟨_, hok⟩ := req_bind_ok _ _ _ _ hok
  obtain ⟨_, hok⟩ := req_bind_ok _ _ _ _ hok
  obtain ⟨_, hok⟩ := req_bind_ok _ _ _ _ hok
  obtain ⟨_, hok⟩ := req_bind_ok _ _ _ _ hok
  simp only [hop, pure_bind] at hok
  obtain ⟨f1, f2, f3⟩ := freshRng_ctx t
  obtain ⟨x', hx, hfy⟩ := select_loop_full hash t.s.nrWinning t.s.lastTicketId (t.s.nrWinning + 2)
    { status := t.s.status, posToId := t.s.posToId, rng := t.freshRng.1, pos := 1, tx := t.freshRng.2 }
    (by rw [f1]; exact hscr) rfl (by omega)
  rw [f2, hb, hx] at hok
  simp only [bind, Except.bind, pure, Except.pure, Except.ok.injEq] at hok
  subst hok
  exact ⟨hfy, rfl, rfl, rfl⟩

end LP.FY
