import LP.Proofs.ZeroAllocG1FullA
/-
  LP.Proofs.ZeroAllocG1FullB — zero-size allocations for `Variant.guarV1` without any restriction
  on the allocation entries, part 2: the first `filter` call (hand-over from the shadow to the
  erased state `zv_z s`, which keeps the REAL guarantee bookkeeping), the phases after it (the
  erased state is `ZGSim`-related to a state satisfying the invariant `g1_WF` of the original
  development — in general NOT a reachable one — and takes the same steps), the reachable states
  without any premise on the calls (`g1_ReachFullA`, `g1_ReachFull`) and the simulation invariant
  `zh_Inv` / `zh_sim`.

  The post-filter lemmas are the ones of LP/Proofs/ZeroAllocG1g.lean, ZeroAllocG1h.lean and
  ZeroAllocG1.lean with the hypothesis "`z` is reachable in the original development" weakened to
  "`z` satisfies `g1_WF`" (all they ever used); the body-level lemmas (`zg_exec_*`,
  `zg_filterTickets`, `zg_distribute`, `zg_guarBody`: an EMPTY range and NO range are the same to
  the top-up of a guarantee) are reused unchanged.
-/
namespace LP
open LP.FY LP.Events

/-! ### the first `filter` call -/

/-- `g1_WF` before the first filter call with the reserve invariant cut down to its range-free
    clauses (which is all `filter` needs) -/
structure zh_WFA (T0 : Nat) (s : State) (r : Nat) : Prop where
  var : s.variant = .guarV1
  pricePos : 0 < s.price
  tokNe : s.payTok ≠ .esdt s.lpTok
  static : 0 < s.minConfirmed
  balOther : ∀ t, t ≠ s.payTok → t ≠ .esdt s.lpTok → s.bal t 0 = 0
  tlConf : r < s.cfg.conf → ∀ a, s.confirmed a = 0
  tlStarted : s.flags.started = true → s.cfg.conf ≤ r ∧ s.cfg.sel ≤ r
  vs : g1_Vest s.gcore (g1_lproj s) s.sched1 r
  add : s.flags.additional = false
  tg : s.totalGuaranteed ≤ T0
  pre : ∃ L0, Pre (T0 - s.totalGuaranteed) s.core L0 ∧ PhA s.core L0
  gw : v1_GW (v1_gv s)

theorem zh_vs_early {s s' : State} {r r' : Nat} (hvs : g1_Vest s.gcore (g1_lproj s) s.sched1 r)
    (hr : r ≤ r')
    (ha : s.flags.additional = false) (ha' : s'.flags.additional = false)
    (hlj : g1_lproj s' = g1_lproj s) (hsc : s'.sched1 = s.sched1)
    (hnw : s'.nrWinning + s'.totalGuaranteed ≤ s.nrWinning + s.totalGuaranteed)
    (hc : s.deposited = false → ∀ a, s'.confirmed a = 0) :
    g1_Vest s'.gcore (g1_lproj s') s'.sched1 r' := by
  rw [hlj, hsc]
  exact hvs.early (g' := s'.gcore) hr ha ha' hnw hc

/-- copy of `g1_filter` (LP/Proofs/ReachG1Filter.lean) for a first call under `zh_WFA` -/
theorem zh_filter_weak {T0 : Nat} {hash : List Nat → List Nat} {s s' : State} {e : Env} {o : Out}
    {r : Nat} (h : zh_WFA T0 s r) (_hr : r ≤ e.round)
    (hs : step hash s e .filter = .ok (s', o)) : g1_WF T0 s' e.round ∧ s'.flags.started = true := by
  obtain ⟨t, hx, rfl⟩ := rb_step_np (by intro m hm; simp [endpointMeta] at hm; rw [← hm]) hs
  simp only [exec] at hx
  obtain ⟨hpre, x, f, b, hxs, hcase⟩ := rb_filterTickets_cases hx
  simp only [rbTx_s] at hpre hxs hcase
  obtain ⟨hc1, hc2⟩ := rb_stage_winnerSelection hpre.stage
  have hadd := h.add
  have htg : (v1_gv s).tg ≤ T0 := h.tg
  obtain ⟨L0, hp, ha⟩ := h.pre
  have hadd' : s.flags.additional = false := hadd
  have hgw : v1_GW (v1_gv s) := h.gw
  have hmid : Mid s.confirmed s.lastTicketId L0 x ∧ (x.first = 1 ∨ s.flags.started = true) := by
    have hop : s.op = .none := ha.op
    simp only [filStOf, hop, Option.some.injEq] at hxs
    subst hxs
    have hl : s.lastTicketId = ticketTotal L0 := ha.last
    rw [hl]
    exact ⟨rb_Mid_start ha.chain hp.outR, Or.inl rfl⟩
  obtain ⟨hmid, hfirst⟩ := hmid
  have hok : AllocOK s.confirmed L0 := hp.ok
  have hloop := fun b' st (hrun : runWhile (filterBody s.confirmed s.lastTicketId)
      (s.lastTicketId + 2) (rbTx s e).c.budget x = .ok (f, b', st)) =>
    rb_runWhile_inv (Mid s.confirmed s.lastTicketId L0) (filterBody s.confirmed s.lastTicketId)
      (fun y y' hb hm => rb_filterBody_Mid hok hb hm) _ _ _ _ _ _ hrun hmid
  obtain ⟨hff, hfs, hfa⟩ := rb_filterFlags s x.first
  rcases hcase with ⟨hrun, hs'⟩ | ⟨hrun, hle, hs'⟩
  · -- interrupted
    have hmf : Mid s.confirmed s.lastTicketId L0 f := (hloop _ _ hrun).1 rfl
    have houtR := hmf.choose_spec.choose_spec.2.2.2.2.2.2.2
    rw [hs']
    refine ⟨⟨h.var, h.pricePos, h.tokNe, h.static, h.balOther, ?_, ?_, ?_, ?_⟩,
      filterFlags_started s x.first hfirst⟩
    · intro hlt; exfalso; have : e.round < s.cfg.conf := hlt; omega
    · intro _; exact ⟨hc1, hc2⟩
    · exact zh_vs_early (s' := filterSaved s x f) h.vs _hr hadd'
        (by show (filterFlags s x.first).additional = false; rw [hfa]; exact hadd')
        rfl rfl (Nat.le_refl _) (fun hq => (h.vs.lp.nodep hq).1)
    · left
      refine ⟨?_, htg, Or.inl ⟨L0, ⟨?_, ?_, hp.nrw, hp.status0, hp.pos0, hp.ok, hp.outC, houtR, hp.pay⟩,
        Or.inr ⟨⟨?_, ?_⟩, hgw⟩⟩⟩
      · show (filterFlags s x.first).additional = false
        rw [hfa]; exact hadd'
      · show (filterFlags s x.first).filtered = false
        rw [hff]; exact hpre.notFiltered
      · show (filterFlags s x.first).selected = false
        rw [hfs]; exact hp.notSelected
      · exact filterFlags_started s x.first hfirst
      · exact ⟨f.first, f.removed, rfl, hmf⟩
  · -- completed
    obtain ⟨y, hmy, hby⟩ := (hloop _ _ hrun).2 rfl
    obtain ⟨hy1, hyf⟩ := rb_filterBody_false hby
    subst hyf
    obtain ⟨hch, hrem, hlast, hzero, hout⟩ := rb_Mid_final hok hmy hy1
    have hcd := confSum_add_droppedSum s.confirmed L0 hok.le
    have hnew : s.lastTicketId - f.removed = ticketTotal (survivors s.confirmed L0) := by
      rw [ticketTotal_survivors, hrem]; omega
    have hnrw : s.nrWinning = T0 - s.totalGuaranteed := hp.nrw
    rw [hs']
    refine ⟨⟨h.var, h.pricePos, h.tokNe, h.static, h.balOther, ?_, ?_, ?_, ?_⟩,
      filterFlags_started s x.first hfirst⟩
    · intro hlt; exfalso; have : e.round < s.cfg.conf := hlt; omega
    · intro _; exact ⟨hc1, hc2⟩
    · refine zh_vs_early (s' := filterDone s x f) h.vs _hr hadd'
        (by show (filterFlags s x.first).additional = false; rw [hfa]; exact hadd')
        rfl rfl ?_ (fun hq => (h.vs.lp.nodep hq).1)
      show (if s.nrWinning > s.lastTicketId - f.removed then s.lastTicketId - f.removed
              else s.nrWinning) + s.totalGuaranteed ≤ s.nrWinning + s.totalGuaranteed
      split <;> omega
    · left
      refine ⟨?_, htg, Or.inr (Or.inl ⟨⟨filterFlags_started s x.first hfirst, rfl, ?_, ?_, ?_,
        Or.inl ⟨rfl, hp.status0, hp.pos0⟩⟩, hgw⟩)⟩
      · show (filterFlags s x.first).additional = false
        rw [hfa]; exact hadd'
      · show (filterFlags s x.first).selected = false
        rw [hfs]; exact hp.notSelected
      · show (if s.nrWinning > s.lastTicketId - f.removed then s.lastTicketId - f.removed
              else s.nrWinning) = min (T0 - s.totalGuaranteed) (s.lastTicketId - f.removed)
        rw [hnrw]; split <;> omega
      · refine ⟨survivors s.confirmed L0, survivors_nodup _ _ hok.nodup, ?_, hch, hnew, ?_, ?_⟩
        · intro p hp1
          obtain ⟨_, h2, h3⟩ := mem_survivors hp1
          exact ⟨by omega, h2⟩
        · intro a ha
          by_cases hin : a ∈ L0.map Prod.fst
          · obtain ⟨p, hp1, hpa⟩ := List.mem_map.mp hin
            have hc0 : s.confirmed p.1 = 0 := by
              apply Classical.byContradiction
              intro hne
              exact ha (hpa ▸ rb_mem_survivors_of_pos hp1 hne)
            subst hpa
            exact ⟨hzero p hp1 hc0, hc0⟩
          · exact ⟨hout a hin, hp.outC a hin⟩
        · show s.bal s.payTok 0 = s.price * sumOver s.confirmed ((survivors s.confirmed L0).map Prod.fst)
          rw [rb_sumOver_survivors]
          exact hp.pay

/-- before the first `filter` call nobody has settled -/
theorem zh_PA_fresh {T0 : Nat} {s : State} {r : Nat} (h : zh_PA T0 s r) (a : Nat) :
    s.userTotal a = 0 ∧ s.userClaimed a = 0 ∧ s.claimed a = false := by
  obtain ⟨U, BU, N, TG, hwf, _⟩ := h.sh
  obtain ⟨hadd, _⟩ := v1_phase_notStarted hwf.phase h.ns
  exact hwf.vs.fresh hadd a

/-- before the first filter call the erased state satisfies the cut-down invariant -/
theorem zh_WFA_of_PA {T0 : Nat} {s : State} {r : Nat} (h : zh_PA T0 s r) : zh_WFA T0 (zv_z s) r := by
  obtain ⟨U, BU, N, TG, hwf, _⟩ := h.sh
  obtain ⟨hadd, htg, L0, hp, ha, _⟩ := v1_phase_notStarted hwf.phase h.ns
  have hsum := zh_sh_sum hwf h.ns
  have hs := h.sum
  have hiv2 : s.variant.isV2 = false := by
    have hv : s.variant = .guarV1 := hwf.var
    rw [hv]; rfl
  have hadd' : s.flags.additional = false := hadd
  refine ⟨hwf.var, hwf.pricePos, hwf.tokNe, hwf.static, hwf.balOther, hwf.tlConf, hwf.tlStarted, ?_,
    hadd, by show s.totalGuaranteed ≤ T0; omega, ⟨L0, ?_, ⟨ha.notStarted, ha.op, ha.chain, ha.last⟩⟩, ?_⟩
  · have hlj : g1_lproj (zv_z s) = g1_lproj (zv_sh s U BU N TG) := rfl
    have hsc : (zv_z s).sched1 = (zv_sh s U BU N TG).sched1 := rfl
    exact zh_vs_early (s := zv_sh s U BU N TG) (s' := zv_z s) hwf.vs (Nat.le_refl r) hadd hadd hlj hsc
      (by show s.nrWinning + s.totalGuaranteed ≤ N + TG; omega)
      (fun hq => (hwf.vs.lp.nodep hq).1)
  · exact ⟨hp.notFiltered, hp.notSelected, by show s.nrWinning = T0 - s.totalGuaranteed; omega,
      hp.status0, hp.pos0, hp.ok, hp.outC, hp.outR, hp.pay⟩
  · have hb := h.gx.base
    rw [hiv2] at hb
    exact ⟨hb.total, hb.mem_of_pos, hb.pos_of_mem⟩

/-- **the first `filter` call**: the erased state takes the same step and lands in the original
    invariant; from now on the real state is `ZGSim`-related to a well-formed state -/
theorem zh_PA_filter {T0 : Nat} {hash : List Nat → List Nat} {s s' : State} {e : Env}
    {o : Out} {r : Nat} (h : zh_PA T0 s r) (hr : r ≤ e.round)
    (hs : step hash s e .filter = .ok (s', o)) :
    ∃ z', g1_WF T0 z' e.round ∧ ZGSim s' z' ∧ s'.flags.started = true ∧
      step hash (zv_z s) e .filter = .ok (z', o) := by
  have hwfa := zh_WFA_of_PA h
  obtain ⟨L0, hp, ha⟩ := hwfa.pre
  have hcl := (LP.Props.C09.step_claimed_exact hash s e _ s' o hs).1 (by simp)
  obtain ⟨m, t, hm, hpay, hown, hx, rfl, rfl⟩ := step_ok_inv hs
  simp only [exec] at hx
  have hokA : AllocOK (tx0 s e).s.confirmed L0 := hp.ok
  have hmid : ∀ x, filStOf (tx0 s e).s = some x →
      Mid (tx0 s e).s.confirmed (tx0 s e).s.lastTicketId L0 (z_ef x) := by
    intro x hxs
    have hxs' : filStOf s = some x := hxs
    have hop' : s.op = .none := ha.op
    simp only [filStOf, hop', Option.some.injEq] at hxs'
    subst hxs'
    show Mid s.confirmed s.lastTicketId L0 _
    have hl : s.lastTicketId = ticketTotal L0 := ha.last
    rw [hl]
    exact rb_Mid_start (conf := s.confirmed) ha.chain hp.outR
  obtain ⟨k1, k2, k3, k4⟩ := zg_filterTickets (zv_K s.range s.blacklist) s.claimed s.uts hx hokA hmid
  have htx : tx0 (zv_z s) e = zg_wt (tx0 s e) ⟨z_eraseR (tx0 s e).s.range, z_eraseB (tx0 s e).s.batch,
      zv_K s.range s.blacklist, s.claimed, s.uts⟩ := rfl
  have hstep := z_step_intro (hash := hash) (s := zv_z s) (c := .filter) (by exact hm) hpay
    (by exact hown) (by rw [htx]; simp only [exec]; exact k1)
  obtain ⟨hwf', hst'⟩ := zh_filter_weak hwfa hr hstep
  refine ⟨_, hwf', ⟨rfl, rfl, fun _ => rfl, ?_, ?_, ?_, ?_⟩, hst', hstep⟩
  · intro a ha'
    have ha2 : zv_K s.range s.blacklist a = true := ha'
    show t.s.blacklist a = true
    rw [k3]
    unfold zv_K at ha2
    simp only [Bool.and_eq_true] at ha2
    exact ha2.1
  · intro a ha'
    show t.s.claimed a = true
    rw [hcl]; exact ha'
  · intro a
    left
    show s.uts a = t.s.uts a
    rw [k2]; rfl
  · intro a ha'
    exfalso
    have ha2 : t.s.claimed a = true := ha'
    rw [hcl, (zh_PA_fresh h a).2.2] at ha2
    cases ha2

/-! ### after the first `filter` call: the erased state takes real steps -/

theorem zh_var_of_sim {T0 : Nat} {s z : State} {r : Nat} (hz : g1_WF T0 z r) (hsim : ZGSim s z) :
    s.variant = .guarV1 := by
  rw [← hsim.fields.2.2.1]; exact hz.var

/-- "not yet settled ⇒ no vesting record" from the invariant -/
theorem zh_norec {T0 : Nat} {z : State} {r : Nat} (hz : g1_WF T0 z r) :
    ∀ a, z.claimed a = false → z.userTotal a = 0 ∧ z.userClaimed a = 0 := by
  have hl := hz.vs.lp
  cases ha : z.flags.additional with
  | false =>
    have hp : ∀ a, z.userTotal a = 0 ∧ z.userClaimed a = 0 ∧ z.claimed a = false := (hl.pre ha).fresh
    exact fun a _ => ⟨(hp a).1, (hp a).2.1⟩
  | true =>
    have hp := hl.post ha
    intro a hc
    have h1 : z.userTotal a = 0 := hp.unclaimed a hc
    have h2 : z.userClaimed a ≤ z.userTotal a := hp.le a
    exact ⟨h1, by omega⟩

/-- the endpoints that do not touch the five fields -/
theorem zh_PB_indep {T0 : Nat} {hash : List Nat → List Nat} {s z s' : State} {r : Nat} {e : Env}
    {c : Call} {o : Out} (hc : zg_indep c = true) (hz : g1_WF T0 z r) (hsim : ZGSim s z)
    (hr : r ≤ e.round) (hok : EnvOK e) (hs : step hash s e c = .ok (s', o)) :
    ∃ z', g1_WF T0 z' e.round ∧ ZGSim s' z' ∧ step hash z e c = .ok (z', o) := by
  obtain ⟨f1, _⟩ := g1_flags (zh_var_of_sim hz hsim)
  obtain ⟨g1, g2, g3, g4, g5⟩ := zg_step_indep_frame hc f1 hs
  have hstep : step hash z e c = .ok (zg_w s' (zg_of z), o) := by
    have := zg_step_indep (w := zg_of z) hc f1 hs
    rw [← hsim.rest] at this
    exact this
  refine ⟨_, g1_call_WF hz hr hok (zg_indep_CallOK hc) hstep,
    ⟨rfl, ?_, ?_, ?_, ?_, ?_, zg_done_keep hs (by intro h; subst h; simp [zg_indep] at hc) hsim.done⟩, hstep⟩
  · show z.range = z_eraseR s'.range
    rw [g1]; exact hsim.range
  · intro hf
    show z.batch = z_eraseB s'.batch
    rw [g2]; exact hsim.batch (z_filtered_back hs hf)
  · intro a ha; rw [g3]; exact hsim.bl a ha
  · intro a ha; rw [g4]; exact hsim.cl a ha
  · show zg_Uweak s'.uts z.uts
    rw [g5]; exact hsim.uts

/-- `confirm n` -/
theorem zh_PB_confirm {T0 : Nat} {hash : List Nat → List Nat} {s z s' : State} {r : Nat} {e : Env}
    {n : Nat} {o : Out} (hz : g1_WF T0 z r) (hsim : ZGSim s z)
    (hr : r ≤ e.round) (hok : EnvOK e) (hs : step hash s e (.confirm n) = .ok (s', o)) :
    ∃ z', g1_WF T0 z' e.round ∧ ZGSim s' z' ∧ step hash z e (.confirm n) = .ok (z', o) := by
  have hfb := z_filtered_back hs
  have hs0 := hs
  obtain ⟨m, t, hm, hpay, hown, hx, rfl, rfl⟩ := step_ok_inv hs
  obtain ⟨_, _, hvz, hoz, _⟩ := hsim.fields
  obtain ⟨k1, k2, k3, k4, k5, k6, k7, k8, k9⟩ :=
    zg_exec_confirm z.batch z.blacklist z.claimed z.uts hx (fun hk => hsim.bl _ hk)
  have htx : tx0 z e = zg_wt (tx0 s e) ⟨z_eraseR (tx0 s e).s.range, z.batch, z.blacklist, z.claimed, z.uts⟩ := by
    conv => lhs; rw [hsim.eq]
    rfl
  have hmz : endpointMeta z.variant (.confirm n) = some m := by rw [← hm, hvz]
  have hstep := z_step_intro hmz hpay (by rw [hoz]; exact hown) (by rw [htx]; exact k1)
  refine ⟨_, g1_call_WF (c := .confirm n) hz hr hok trivial hstep,
    ⟨rfl, ?_, ?_, ?_, ?_, ?_, zg_done_keep hs0 (by simp) hsim.done⟩, hstep⟩
  · show z_eraseR (tx0 s e).s.range = z_eraseR t.s.range
    rw [k2]
  · intro hf
    show z.batch = z_eraseB t.s.batch
    rw [k3]; exact hsim.batch (hfb hf)
  · intro a ha
    show t.s.blacklist a = true
    rw [k4]; exact hsim.bl a ha
  · intro a ha
    show t.s.claimed a = true
    rw [k5]; exact hsim.cl a ha
  · show zg_Uweak t.s.uts z.uts
    rw [k8]; exact hsim.uts

/-- `filter` (a resumed call, or a first call on a state that has no zero-size entry left) -/
theorem zh_PB_filter {T0 : Nat} {hash : List Nat → List Nat} {s z s' : State} {r : Nat} {e : Env}
    {o : Out} (hz : g1_WF T0 z r) (hsim : ZGSim s z)
    (hr : r ≤ e.round) (hok : EnvOK e) (hs : step hash s e .filter = .ok (s', o)) :
    ∃ z', g1_WF T0 z' e.round ∧ ZGSim s' z' ∧ step hash z e .filter = .ok (z', o) := by
  have hs0 := hs
  obtain ⟨m, t, hm, hpay, hown, hx, rfl, rfl⟩ := step_ok_inv hs
  obtain ⟨hcfg, hfl, hvz, hoz, hcf, hop, hlast, _⟩ := hsim.fields
  simp only [exec] at hx
  obtain ⟨hpre, _⟩ := filterTickets_inv _ _ _ hx
  have hnf : s.flags.filtered = false := hpre.notFiltered
  obtain ⟨_, _, L0, hp, hab⟩ := v1_phase_notFiltered hz.phase
    (by show z.flags.filtered = false; rw [hfl]; exact hnf)
  have hzb : z.batch = z_eraseB s.batch := hsim.batch hnf
  have hokA : AllocOK (tx0 s e).s.confirmed L0 := by
    have : AllocOK z.confirmed L0 := hp.ok
    rw [hcf] at this; exact this
  have hmid : ∀ x, filStOf (tx0 s e).s = some x →
      Mid (tx0 s e).s.confirmed (tx0 s e).s.lastTicketId L0 (z_ef x) := by
    intro x hxs
    have hxs' : filStOf s = some x := hxs
    show Mid s.confirmed s.lastTicketId L0 (z_ef x)
    rw [← hcf, ← hlast]
    rcases hab with ⟨ha, _⟩ | ⟨hb, _⟩
    · have hop' : s.op = .none := by rw [← hop]; exact ha.op
      simp only [filStOf, hop', Option.some.injEq] at hxs'
      subst hxs'
      have hl : z.lastTicketId = ticketTotal L0 := ha.last
      rw [hl]
      have := rb_Mid_start (conf := z.confirmed) ha.chain hp.outR
      have e1 : z.core.range = z_eraseR s.range := hsim.range
      have e2 : z.core.batch = z_eraseB s.batch := hzb
      rw [e1, e2] at this
      exact this
    · obtain ⟨f0, rm, hop0, hm0⟩ := hb.mid
      have hop' : s.op = .filter f0 rm := by rw [← hop]; exact hop0
      simp only [filStOf, hop', Option.some.injEq] at hxs'
      subst hxs'
      have e1 : z.core.range = z_eraseR s.range := hsim.range
      have e2 : z.core.batch = z_eraseB s.batch := hzb
      rw [e1, e2] at hm0
      exact hm0
  obtain ⟨k1, k2, k3, k4⟩ := zg_filterTickets z.blacklist z.claimed z.uts hx hokA hmid
  have htx : tx0 z e = zg_wt (tx0 s e) ⟨z_eraseR (tx0 s e).s.range, z_eraseB (tx0 s e).s.batch,
      z.blacklist, z.claimed, z.uts⟩ := by
    have := hsim.eq
    rw [hzb] at this
    conv => lhs; rw [this]
    rfl
  have hmz : endpointMeta z.variant .filter = some m := by rw [← hm, hvz]
  have hstep := z_step_intro (hash := hash) hmz hpay (by rw [hoz]; exact hown)
    (by rw [htx]; simp only [exec]; exact k1)
  refine ⟨_, g1_call_WF (c := .filter) hz hr hok trivial hstep,
    ⟨rfl, rfl, fun _ => rfl, ?_, ?_, ?_, zg_done_keep hs0 (by simp) hsim.done⟩, hstep⟩
  · intro a ha
    show t.s.blacklist a = true
    rw [k3]; exact hsim.bl a ha
  · intro a ha
    show t.s.claimed a = true
    rw [k4]; exact hsim.cl a ha
  · show zg_Uweak t.s.uts z.uts
    rw [k2]; exact hsim.uts

/-- `distribute` (interrupted or completed): the same call on the erased state; a whitelisted
    holder of an EMPTY range (ghost guarantee) is treated as a holder without range: the whole
    guarantee goes to the leftover -/
theorem zh_PB_distribute {T0 : Nat} {hash : List Nat → List Nat} {s z s' : State} {r : Nat} {e : Env}
    {o : Out} (hz : g1_WF T0 z r) (hsim : ZGSim s z)
    (hr : r ≤ e.round) (hok : EnvOK e) (hs : step hash s e .distribute = .ok (s', o)) :
    ∃ z', g1_WF T0 z' e.round ∧ ZGSim s' z' ∧ step hash z e .distribute = .ok (z', o) := by
  have hs0 := hs
  have hfb := z_filtered_back hs
  obtain ⟨m, t, hm, hpay, hown, hx, rfl, rfl⟩ := step_ok_inv hs
  obtain ⟨hcfg, hfl, hvz, hoz, hcf, hop, hlast, _⟩ := hsim.fields
  have hvar : s.variant = .guarV1 := zh_var_of_sim hz hsim
  obtain ⟨_, _, hv2, _⟩ := g1_flags hvar
  simp only [exec] at hx
  -- the five fields are not touched
  have hself := zg_distribute hash (tx0 s e) e (zg_of (tx0 s e).s) hv2 (fun _ => rfl)
  have hself' : distribute hash (tx0 s e) e = mapR (zg_wt · (zg_of (tx0 s e).s)) (distribute hash (tx0 s e) e) :=
    hself
  rw [hx] at hself'
  have hfr : t = zg_wt t (zg_of (tx0 s e).s) := by
    injection hself'
  have g1 : t.s.range = s.range := (congrArg (fun x => x.s.range) hfr).trans rfl
  have g2 : t.s.batch = s.batch := (congrArg (fun x => x.s.batch) hfr).trans rfl
  have g3 : t.s.blacklist = s.blacklist := (congrArg (fun x => x.s.blacklist) hfr).trans rfl
  have g4 : t.s.claimed = s.claimed := (congrArg (fun x => x.s.claimed) hfr).trans rfl
  have g5 : t.s.uts = s.uts := (congrArg (fun x => x.s.uts) hfr).trans rfl
  have hgb : ∀ x, guarBody (zg_w (tx0 s e).s (zg_of z)) x = guarBody (tx0 s e).s x :=
    zg_guarBody (tx0 s e).s (zg_of z) hv2 hsim.range hsim.uts
  have k1 := zg_distribute hash (tx0 s e) e (zg_of z) hv2 hgb
  rw [hx] at k1
  have htx : tx0 z e = zg_wt (tx0 s e) (zg_of z) := by
    conv => lhs; rw [hsim.rest]
    rfl
  have hmz : endpointMeta z.variant .distribute = some m := by rw [← hm, hvz]
  have hstep := z_step_intro (hash := hash) hmz hpay (by rw [hoz]; exact hown)
    (by rw [htx]; simp only [exec]; exact k1)
  refine ⟨_, g1_call_WF (c := .distribute) hz hr hok trivial hstep,
    ⟨rfl, ?_, ?_, ?_, ?_, ?_, zg_done_keep hs0 (by simp) hsim.done⟩, hstep⟩
  · show z.range = z_eraseR t.s.range
    rw [g1]; exact hsim.range
  · intro hf
    show z.batch = z_eraseB t.s.batch
    rw [g2]; exact hsim.batch (hfb hf)
  · intro a ha
    show t.s.blacklist a = true
    rw [g3]; exact hsim.bl a ha
  · intro a ha
    show t.s.claimed a = true
    rw [g4]; exact hsim.cl a ha
  · show zg_Uweak t.s.uts z.uts
    rw [g5]; exact hsim.uts

/-- `claim`:
    * caller settled on both sides, or unsettled with a non-empty range: the same claim;
    * caller with an EMPTY range (first claim) or already "settled" only in `s` (repeat claim of an
      address that had an empty range): the erased state does not move. -/
theorem zh_PB_claim {T0 : Nat} {hash : List Nat → List Nat} {s z s' : State} {r : Nat} {e : Env}
    {o : Out} (hz : g1_WF T0 z r) (hsim : ZGSim s z)
    (hr : r ≤ e.round) (hok : EnvOK e) (hs : step hash s e .claim = .ok (s', o)) :
    ∃ z', g1_WF T0 z' e.round ∧ ZGSim s' z' ∧
      ((step hash z e .claim = .ok (z', o) ∧ z.claimed e.caller = s.claimed e.caller) ∨
        (z' = z ∧ s.userTotal e.caller = 0 ∧
          ((s' = s ∧ s.claimed e.caller = true) ∨
           ∃ rg, s.range e.caller = some rg ∧ rg.last < rg.first ∧ s.claimed e.caller = false ∧
          s' = zg_w s ⟨upd s.range e.caller none, upd s.batch rg.first none, s.blacklist,
                       upd s.claimed e.caller true, s.uts⟩))) := by
  have hwf := hz
  obtain ⟨hcfg, hfl, hvz, hoz, hcf, hop, hlast, _, _, hut⟩ := hsim.fields
  have hvar : s.variant = .guarV1 := zh_var_of_sim hz hsim
  obtain ⟨hvest, _, hv2, _⟩ := g1_flags hvar
  -- stage
  have hdone : s.flags.selected = true ∧ s.flags.additional = true := by
    rcases LP.Props.C06.claim_gate hash s e (s', o) hs with hstg | ⟨_, hc⟩
    · obtain ⟨h1, h2, _, _⟩ := v1_stage_claim hstg; exact ⟨h1, h2⟩
    · exact hsim.done _ hc
  obtain ⟨hsel, hadd⟩ := hdone
  have hD := v1_phase_D hwf.phase (by show z.flags.additional = true; rw [hfl]; exact hadd)
  have hfil : s.flags.filtered = true := by rw [← hfl]; exact hD.filtered
  have hsta : s.flags.started = true := by rw [← hfl]; exact hD.started
  have hnorec := zh_norec hz
  have hs2 := hs
  rw [LP.Props.C09.step_claim_ok_iff] at hs2
  obtain ⟨he1, he2, t, hx, rfl, rfl⟩ := hs2
  have hvt : (LP.Props.C09.txc s e).s.variant = .guarV1 := hvar
  have htx : LP.Props.C09.txc z e = zg_wt (LP.Props.C09.txc s e) (zg_of z) := by
    conv => lhs; rw [hsim.rest]
    rfl
  -- generic closing of the "same claim" cases
  have same : ∀ (w' ws' : zg_O),
      exec hash (zg_wt (LP.Props.C09.txc s e) (zg_of z)) e .claim = .ok (zg_wt t w') →
      t = zg_wt t ws' →
      w'.R = z_eraseR ws'.R → (∀ a, w'.K a = true → ws'.K a = true) →
      (∀ a, w'.C a = true → ws'.C a = true) → zg_Uweak ws'.U w'.U →
      z.claimed e.caller = s.claimed e.caller →
      ∃ z', g1_WF T0 z' e.round ∧ ZGSim t.s z' ∧
        ((step hash z e .claim = .ok (z', t.o) ∧ z.claimed e.caller = s.claimed e.caller) ∨
          (z' = z ∧ s.userTotal e.caller = 0 ∧
            ((t.s = s ∧ s.claimed e.caller = true) ∨
             ∃ rg, s.range e.caller = some rg ∧ rg.last < rg.first ∧ s.claimed e.caller = false ∧
            t.s = zg_w s ⟨upd s.range e.caller none, upd s.batch rg.first none, s.blacklist,
                         upd s.claimed e.caller true, s.uts⟩))) := by
    intro w' ws' hex hfr hR hK hC hU hcc
    have hstep : step hash z e .claim = .ok ((zg_wt t w').s, t.o) := by
      rw [LP.Props.C09.step_claim_ok_iff]
      exact ⟨he1, he2, _, by rw [htx]; exact hex, rfl, rfl⟩
    have e1 : t.s.range = ws'.R := (congrArg (fun x => x.s.range) hfr).trans rfl
    have e3 : t.s.blacklist = ws'.K := (congrArg (fun x => x.s.blacklist) hfr).trans rfl
    have e4 : t.s.claimed = ws'.C := (congrArg (fun x => x.s.claimed) hfr).trans rfl
    have e5 : t.s.uts = ws'.U := (congrArg (fun x => x.s.uts) hfr).trans rfl
    obtain ⟨_, g2, g3, g4⟩ := step_flags_gain4 hs
    have q2 : t.s.flags.filtered = true := g2 hfil
    have q3 : t.s.flags.selected = true := g3 hsel
    have q4 : t.s.flags.additional = true := g4 hadd
    refine ⟨_, g1_call_WF (c := .claim) hz hr hok trivial hstep,
      ⟨rfl, ?_, ?_, ?_, ?_, ?_, fun _ _ => ⟨q3, q4⟩⟩, Or.inl ⟨hstep, hcc⟩⟩
    · show w'.R = z_eraseR t.s.range
      rw [e1]; exact hR
    · intro hf
      rw [q2] at hf; cases hf
    · intro a ha
      show t.s.blacklist a = true
      rw [e3]; exact hK a ha
    · intro a ha
      show t.s.claimed a = true
      rw [e4]; exact hC a ha
    · show zg_Uweak t.s.uts w'.U
      rw [e5]; exact hU
  rcases Bool.eq_false_or_eq_true (s.claimed e.caller) with hcl | hcl
  ·
    rcases Bool.eq_false_or_eq_true (z.claimed e.caller) with hzc | hzc
    ·
      -- settled on both sides: a further instalment
      obtain ⟨w', k1, k2⟩ := zg_exec_claim (zg_of z) hvt hx (Or.inl ⟨hcl, hzc⟩)
      obtain ⟨ws', j1, j2⟩ := zg_exec_claim (zg_of (LP.Props.C09.txc s e).s) hvt hx (Or.inl ⟨hcl, hcl⟩)
      have j1' : exec hash (LP.Props.C09.txc s e) e .claim = .ok (zg_wt t ws') := j1
      rw [hx] at j1'
      have hfr : t = zg_wt t ws' := by injection j1'
      rcases k2 with ⟨_, rfl⟩ | ⟨h0, _⟩
      · rcases j2 with ⟨_, rfl⟩ | ⟨h0, _⟩
        · exact same _ _ k1 hfr hsim.range hsim.bl hsim.cl hsim.uts (by rw [hcl, hzc])
        · exact absurd (show s.claimed e.caller = _ from h0) (by rw [hcl]; simp)
      · exact absurd (show s.claimed e.caller = _ from h0) (by rw [hcl]; simp)
    ·
      -- "settled" only in `s` (an address that had an empty range): nothing happens
      have hut0 : s.userTotal e.caller = 0 := by rw [← hut]; exact (hnorec e.caller hzc).1
      have hs' : t.s = s := zg_claim_noop hvar hs hcl hut0
      refine ⟨z, g1_wait_WF hz hr, ?_, Or.inr ⟨rfl, hut0, Or.inl ⟨hs', hcl⟩⟩⟩
      rw [hs']; exact hsim
  ·
    have hzc : z.claimed e.caller = false := by
      cases hk : z.claimed e.caller with
      | false => rfl
      | true => rw [hsim.cl _ hk] at hcl; cases hcl
    -- the caller holds a range
    obtain ⟨rg, hrg⟩ : ∃ rg, s.range e.caller = some rg := by
      have hx' : claimVested (rbTx s e) e = .ok t := by
        have hx0 := hx
        simp only [exec] at hx0
        rw [if_pos (by exact hvest)] at hx0
        exact hx0
      obtain ⟨t1, c, h1, _⟩ := g1_claimVested_state hv2 hx'
      rcases v2_claimSettle_state h1 with ⟨h0, _⟩ | ⟨_, _, rg, B, hrg, _⟩
      · exact absurd (show s.claimed e.caller = _ from h0) (by rw [hcl]; simp)
      · exact ⟨rg, hrg⟩
    by_cases hne : rg.first ≤ rg.last
    · have hzr : z.range e.caller = some rg := by rw [hsim.range]; exact z_eraseR_of_ne hrg hne
      obtain ⟨w', k1, k2⟩ := zg_exec_claim (zg_of z) hvt hx (Or.inr ⟨hcl, hzc, rg, hrg, hzr⟩)
      obtain ⟨ws', j1, j2⟩ := zg_exec_claim (zg_of (LP.Props.C09.txc s e).s) hvt hx
        (Or.inr ⟨hcl, hcl, rg, hrg, hrg⟩)
      have j1' : exec hash (LP.Props.C09.txc s e) e .claim = .ok (zg_wt t ws') := j1
      rw [hx] at j1'
      have hfr : t = zg_wt t ws' := by injection j1'
      rcases k2 with ⟨h0, _⟩ | ⟨_, rg1, hrg1, rfl⟩
      · exact absurd (show s.claimed e.caller = _ from h0) (by rw [hcl]; simp)
      · rcases j2 with ⟨h0, _⟩ | ⟨_, rg2, hrg2, rfl⟩
        · exact absurd (show s.claimed e.caller = _ from h0) (by rw [hcl]; simp)
        · have hrg1' : s.range e.caller = some rg1 := hrg1
          have hrg2' : s.range e.caller = some rg2 := hrg2
          rw [hrg] at hrg1' hrg2'
          injection hrg1' with hrg1'
          injection hrg2' with hrg2'
          subst hrg1' hrg2'
          refine same _ _ k1 hfr ?_ hsim.bl ?_ hsim.uts (by rw [hcl, hzc])
          · show upd z.range e.caller none = z_eraseR (upd s.range e.caller none)
            rw [z_eraseR_upd_none, hsim.range]
          · intro a ha
            have ha' : upd z.claimed e.caller true a = true := ha
            show upd s.claimed e.caller true a = true
            by_cases hxa : a = e.caller
            · subst hxa; simp
            · rw [upd_other _ _ _ _ hxa] at ha' ⊢; exact hsim.cl a ha'
    · -- an address with an empty range: the erased state does not move
      have hzn : z.range e.caller = none := by rw [hsim.range]; exact z_eraseR_of_empty hrg hne
      have hc0 : s.confirmed e.caller = 0 := by rw [← hcf]; exact hD.rngNone e.caller hzn
      have hut0 : s.userTotal e.caller = 0 := by rw [← hut]; exact (hnorec e.caller hzc).1
      have hst2 := zg_claim_stutter hvar hs hcl hrg (by omega) hc0 hut0
      refine ⟨z, g1_wait_WF hz hr, ⟨?_, ?_, ?_, ?_, ?_, ?_, ?_⟩,
        Or.inr ⟨rfl, hut0, Or.inr ⟨rg, hrg, by omega, hcl, hst2⟩⟩⟩
      · rw [hst2, zg_w_w]; exact hsim.rest
      · rw [hst2]
        show z.range = z_eraseR (upd s.range e.caller none)
        rw [z_eraseR_upd_none, ← hsim.range, z_upd_none_self _ _ hzn]
      · intro hf
        rw [hst2] at hf
        have hf' : s.flags.filtered = false := hf
        rw [hfil] at hf'; cases hf'
      · intro a ha
        rw [hst2]
        exact hsim.bl a ha
      · intro a ha
        rw [hst2]
        show upd s.claimed e.caller true a = true
        by_cases hxa : a = e.caller
        · subst hxa; simp
        · rw [upd_other _ _ _ _ hxa]; exact hsim.cl a ha
      · rw [hst2]; exact hsim.uts
      · intro _ _
        rw [hst2]; exact ⟨hsel, hadd⟩

/-! ### reachable states without ANY premise on the calls -/

/-- `g1_ReachA` without the premise `v1_CallOK c`: ANY accepted call, in particular
    `addTicketsV1` with entries `(a, 0, 0, true)` (deployment arguments fixed) -/
inductive g1_ReachFullA (hash : List Nat → List Nat) (a0 : InitArgs) : State → Nat → Prop
  | init (e : Env) (s : State) : init .guarV1 a0 e = .ok s → g1_ReachFullA hash a0 s e.round
  | call (s : State) (r : Nat) (e : Env) (c : Call) (s' : State) (o : Out) :
      g1_ReachFullA hash a0 s r → r ≤ e.round → EnvOK e →
      step hash s e c = .ok (s', o) → g1_ReachFullA hash a0 s' e.round
  | wait (s : State) (r r' : Nat) : g1_ReachFullA hash a0 s r → r ≤ r' → g1_ReachFullA hash a0 s r'

theorem g1_ReachFull_iff {hash : List Nat → List Nat} {s : State} {r : Nat} :
    g1_ReachFull hash s r ↔ ∃ a0, g1_ReachFullA hash a0 s r := by
  constructor
  · intro h
    induction h with
    | init a e s h => exact ⟨a, .init e s h⟩
    | call s r e c s' o _ h1 h2 h3 ih =>
      obtain ⟨a0, ih⟩ := ih
      exact ⟨a0, .call s r e c s' o ih h1 h2 h3⟩
    | wait s r r' _ h1 ih =>
      obtain ⟨a0, ih⟩ := ih
      exact ⟨a0, .wait s r r' ih h1⟩
  · rintro ⟨a0, h⟩
    induction h with
    | init e s h => exact .init a0 e s h
    | call s r e c s' o _ h1 h2 h3 ih => exact .call s r e c s' o ih h1 h2 h3
    | wait s r r' _ h1 ih => exact .wait s r r' ih h1

/-- every `g1_ReachZA` state (hence every state of the original development) is a
    `g1_ReachFullA` state -/
theorem g1_ReachZA.toFullA {hash : List Nat → List Nat} {a0 : InitArgs} {s : State} {r : Nat}
    (h : g1_ReachZA hash a0 s r) : g1_ReachFullA hash a0 s r := by
  induction h with
  | init e s h => exact .init e s h
  | call s r e c s' o _ h1 h2 _ h4 ih => exact .call s r e c s' o ih h1 h2 h4
  | wait s r r' _ h1 ih => exact .wait s r r' ih h1

theorem g1_ReachA.toFullA {hash : List Nat → List Nat} {a0 : InitArgs} {s : State} {r : Nat}
    (h : g1_ReachA hash a0 s r) : g1_ReachFullA hash a0 s r := h.toZ.toFullA

/-! ### the simulation invariant -/

/-- before the first `filter` call: the shadow invariant `zh_PA`; afterwards: `ZGSim`-related to a
    well-formed state of the original development -/
def zh_Inv (T0 : Nat) (s : State) (r : Nat) : Prop :=
  zh_PA T0 s r ∨ (s.flags.started = true ∧ ∃ z, g1_WF T0 z r ∧ ZGSim s z)

theorem zh_PA_flags {T0 : Nat} {s : State} {r : Nat} (h : zh_PA T0 s r) :
    s.flags.filtered = false ∧ s.flags.selected = false ∧ s.flags.additional = false ∧
    s.variant = .guarV1 := by
  obtain ⟨U, BU, N, TG, hwf, _⟩ := h.sh
  obtain ⟨hadd, _, L0, hp, _, _⟩ := v1_phase_notStarted hwf.phase h.ns
  exact ⟨hp.notFiltered, hp.notSelected, hadd, hwf.var⟩

/-- one accepted call before the first `filter` call -/
theorem zh_PA_step {T0 : Nat} {hash : List Nat → List Nat} {s s' : State} {e : Env} {c : Call}
    {o : Out} {r : Nat} (h : zh_PA T0 s r) (hr : r ≤ e.round) (hok : EnvOK e)
    (hs : step hash s e c = .ok (s', o)) : zh_Inv T0 s' e.round := by
  obtain ⟨hnf, hnsel, hnadd, hvar⟩ := zh_PA_flags h
  have hex := g1_exposed hvar hs
  have hclaim : s.stage e ≠ .claim := by
    intro hst
    have := (v1_stage_claim hst).1
    rw [hnsel] at this; cases this
  cases c with
  | addTicketsV1 l => exact Or.inl (zh_PA_add h hr hok hs)
  | confirm n => exact Or.inl (zh_PA_confirm h hr hok hs)
  | blacklist l => exact Or.inl (zh_PA_blacklist h hr hok hs)
  | unblacklist l => exact Or.inl (zh_PA_unblacklist h hr hok hs)
  | filter =>
    obtain ⟨z', h1, h2, h3, _⟩ := zh_PA_filter h hr hs
    exact Or.inr ⟨h3, z', h1, h2⟩
  | select =>
    have := (LP.Props.C06.select_gate hash s e _ hs).2.1
    rw [hnf] at this; cases this
  | distribute =>
    have := (LP.Props.C06.additional_gate hash s e .distribute _ (Or.inl rfl) hs).2.1
    rw [hnsel] at this; cases this
  | claim =>
    rcases LP.Props.C06.claim_gate hash s e _ hs with h1 | ⟨_, h1⟩
    · exact absurd h1 hclaim
    · rw [(zh_PA_fresh h e.caller).2.2] at h1; cases h1
  | claimPayment => exact absurd (LP.Props.C06.claimPayment_gate hash s e _ hs) hclaim
  | deposit | setTicketPrice _ _ | setPerTicket _ | setConfStart _ | setSelStart _ | setClaimStart _
  | setSupport _ | pause | unpause | setSchedule1 _ _ _ _ _ => exact Or.inl (zh_PA_indep rfl h hr hok hs)
  | _ => exact absurd hex id

/-- one accepted call after the first `filter` call -/
theorem zh_PB_step {T0 : Nat} {hash : List Nat → List Nat} {s z s' : State} {e : Env} {c : Call}
    {o : Out} {r : Nat} (hst : s.flags.started = true) (hz : g1_WF T0 z r) (hsim : ZGSim s z)
    (hr : r ≤ e.round) (hok : EnvOK e)
    (hs : step hash s e c = .ok (s', o)) : zh_Inv T0 s' e.round := by
  have hvar := zh_var_of_sim hz hsim
  have hex := g1_exposed hvar hs
  have hst' : s'.flags.started = true := (step_flags_gain4 hs).1 hst
  obtain ⟨hcfg, hfl, _⟩ := hsim.fields
  have htl := hz.tlStarted (by rw [hfl]; exact hst)
  rw [hcfg] at htl
  have hearly : ¬ (s.stage e = .addTickets ∨ s.stage e = .confirm) := by
    rintro (h1 | h1)
    · have := rb_stage_addTickets h1; omega
    · have := (rb_stage_confirm h1).2; omega
  cases c with
  | addTicketsV1 l =>
    exact absurd (Or.inl (LP.Props.C06.alloc_only_in_addTickets hash s e _ _
      (Or.inr (Or.inl ⟨l, rfl⟩)) hs)) hearly
  | blacklist l =>
    exact absurd (LP.Props.C06.blacklist_only_before_selection hash s e _ _ (Or.inl ⟨l, rfl⟩) hs) hearly
  | unblacklist l =>
    exact absurd (LP.Props.C06.blacklist_only_before_selection hash s e _ _
      (Or.inr (Or.inr ⟨l, rfl⟩)) hs) hearly
  | confirm n =>
    obtain ⟨z', h1, h2, _⟩ := zh_PB_confirm hz hsim hr hok hs; exact Or.inr ⟨hst', z', h1, h2⟩
  | filter =>
    obtain ⟨z', h1, h2, _⟩ := zh_PB_filter hz hsim hr hok hs; exact Or.inr ⟨hst', z', h1, h2⟩
  | distribute =>
    obtain ⟨z', h1, h2, _⟩ := zh_PB_distribute hz hsim hr hok hs; exact Or.inr ⟨hst', z', h1, h2⟩
  | claim =>
    obtain ⟨z', h1, h2, _⟩ := zh_PB_claim hz hsim hr hok hs; exact Or.inr ⟨hst', z', h1, h2⟩
  | deposit | setTicketPrice _ _ | setPerTicket _ | setConfStart _ | setSelStart _ | setClaimStart _
  | setSupport _ | pause | unpause | select | claimPayment | setSchedule1 _ _ _ _ _ =>
    obtain ⟨z', h1, h2, _⟩ := zh_PB_indep rfl hz hsim hr hok hs; exact Or.inr ⟨hst', z', h1, h2⟩
  | _ => exact absurd hex id

theorem zh_Inv_step {T0 : Nat} {hash : List Nat → List Nat} {s s' : State} {e : Env} {c : Call}
    {o : Out} {r : Nat} (h : zh_Inv T0 s r) (hr : r ≤ e.round) (hok : EnvOK e)
    (hs : step hash s e c = .ok (s', o)) : zh_Inv T0 s' e.round := by
  rcases h with h | ⟨hst, z, hz, hsim⟩
  · exact zh_PA_step h hr hok hs
  · exact zh_PB_step hst hz hsim hr hok hs

theorem zh_Inv_wait {T0 : Nat} {s : State} {r r' : Nat} (h : zh_Inv T0 s r) (hr : r ≤ r') :
    zh_Inv T0 s r' := by
  rcases h with h | ⟨hst, z, hz, hsim⟩
  · obtain ⟨U, BU, N, TG, hwf, hU⟩ := h.sh
    exact Or.inl ⟨⟨U, BU, N, TG, g1_wait_WF hwf hr, hU⟩, h.gx, h.sum, h.hd, h.ns⟩
  · exact Or.inr ⟨hst, z, g1_wait_WF hz hr, hsim⟩

theorem zh_Inv_init {a : InitArgs} {e : Env} {s : State}
    (h : init .guarV1 a e = .ok s) : zh_Inv a.nrWinning s e.round := by
  have hwf := g1_init_WF h
  obtain ⟨h1, h2, h3, h4, h5, h6, h7, h8, h9, h10, h11, h12, h13, h14, h15, h16, h17, h18,
    h19, h20, h21, h22, h23, _⟩ := g1_init_inv h
  have hsh : zv_sh s s.uts s.blUts s.nrWinning s.totalGuaranteed = s := by
    have e1 : z_eraseR s.range = s.range := by rw [h14]; rfl
    have e2 : z_eraseB s.batch = s.batch := by rw [h15]; rfl
    have e3 : zv_K s.range s.blacklist = s.blacklist := by
      funext a
      unfold zv_K
      rw [h23]; rfl
    unfold zv_sh
    rw [e1, e2, e3, ← h20]
    rfl
  refine Or.inl ⟨⟨s.uts, s.blUts, s.nrWinning, s.totalGuaranteed, by rw [hsh]; exact hwf, ?_⟩,
    GuarInvX_initial s h20 h21 h22 h14 h23, by rw [h8, h21]; rfl, ?_, by rw [h9]⟩
  · intro u hu
    rw [h14] at hu
    cases hu
  · intro i b _ hb
    rw [h15] at hb; cases hb

/-- **SIMULATION INVARIANT**: it holds in every state reachable WITHOUT any premise on the
    allocation entries -/
theorem zh_sim {hash : List Nat → List Nat} {a0 : InitArgs}
    {s : State} {r : Nat} (h : g1_ReachFullA hash a0 s r) : zh_Inv a0.nrWinning s r := by
  induction h with
  | init e s h => exact zh_Inv_init h
  | call s r e c s' o _ h1 h2 h3 ih => exact zh_Inv_step ih h1 h2 h3
  | wait s r r' _ h1 ih => exact zh_Inv_wait ih h1

end LP

#print axioms LP.zh_sim
