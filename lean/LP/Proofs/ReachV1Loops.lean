import LP.Proofs.ReachV1Select
/-
  LP.Proofs.ReachV1Loops — the two loops of the v1 distribution step under arbitrary budgets:

  * loop 1 (`guarBody`, top-up): invariant `v1_G1` — flags only grow, stay inside `1..last`,
    their number is `nrWinning + additional`, the reserve is split as
    `leftover + additional + Σ_{work list} = totalGuaranteed`, and every holder of a positive
    guarantee is still on the work list or already honoured (`v1_HonS`);
  * loop 2 (`leftoverBody` with `v2 = false`, on the core state `LCore` of `LP/Proofs/Resume.lean`):
    invariant `v1_L2` = `LInv` (C03) + `leftover + additional = totalGuaranteed` + flags only grow;
    its stopping iteration gives `leftover = 0` or "all tickets win".
-/
namespace LP
open LP.FY

/-- the position/flag invariant of the leftover loop is monotone in the flags -/
theorem v1_PosInv_mono {last k : Nat} {st st' : Nat → Bool} {f : Nat → Nat}
    (h : PosInv last st f k) (hm : ∀ t, st t = true → st' t = true)
    (hin : ∀ t, st' t = true → 1 ≤ t ∧ t ≤ last) : PosInv last st' f k := by
  refine ⟨h.pos, h.bound, h.range, h.distinct, ?_, hin⟩
  intro t h1 h2 h3
  apply h.cover t h1 h2
  cases e : st t with
  | false => rfl
  | true => rw [hm t e] at h3; cases h3

/-- the guarantee of holder `u` (record `st`) is honoured by the flags `status` -/
def v1_HonS (s : State) (status : Nat → Bool) (u : Nat) (st : UTS) : Prop :=
  min (calcV1 st (s.confirmed u) s.minConfirmed).1 (s.confirmed u) ≤ winOf s.range status u

theorem v1_winOf_mono {range : Nat → Option Range} {st st' : Nat → Bool}
    (hm : ∀ t, st t = true → st' t = true) (a : Nat) : winOf range st a ≤ winOf range st' a := by
  unfold winOf
  cases range a with
  | none => exact Nat.le_refl _
  | some r => exact countWinning_mono _ _ _ _ (fun t _ _ ht => hm t ht)

theorem v1_HonS_mono {s : State} {st st' : Nat → Bool} (hm : ∀ t, st t = true → st' t = true)
    {u : Nat} {rc : UTS} (h : v1_HonS s st u rc) : v1_HonS s st' u rc :=
  Nat.le_trans h (v1_winOf_mono hm u)

/-! ### loop 1 -/

/-- static facts about the ticket space during the distribution: every range lies in
    `1..last` and has exactly `confirmed` tickets; addresses without range confirmed nothing -/
structure v1_RI (s : State) : Prop where
  some : ∀ u r, s.range u = some r → RangeIn s.lastTicketId r ∧ rangeLen r = s.confirmed u
  none : ∀ u, s.range u = none → s.confirmed u = 0

structure v1_G1 (s : State) (nrW tg : Nat) (x : GSt) : Prop where
  len : x.usersLeft = x.whitelist.length
  flagsIn : FlagsIn s.lastTicketId x.status
  mono : ∀ t, s.status t = true → x.status t = true
  count : countTrue x.status s.lastTicketId = nrW + x.additional
  split : x.leftover + x.additional + gSum false s.uts x.whitelist = tg
  hon : ∀ u st, s.uts u = some st → gOf false st > 0 → u ∈ x.whitelist ∨ v1_HonS s x.status u st

/-- the user processed by one iteration is honoured afterwards -/
theorem v1_guarBody_hon (s : State) (x x' : GSt) (u : Nat) (rest : List Nat) (rc : UTS)
    (hv : s.variant.isV2 = false) (hwl : x.whitelist = u :: rest) (hul : x.usersLeft ≠ 0)
    (huts : s.uts u = some rc) (hb : guarBody s x = .ok (x', true)) :
    ∀ r, s.range u = some r →
      min (calcV1 rc (s.confirmed u) s.minConfirmed).1 (rangeLen r)
        ≤ countWinning x'.status r.first (rangeLen r) := by
  obtain ⟨wl, ul, status, lo, add⟩ := x
  simp only at hwl hul
  subst hwl
  unfold guarBody at hb
  simp only [hul, if_false, huts, hv, Bool.false_eq_true] at hb
  generalize calcV1 rc (s.confirmed u) s.minConfirmed = p at hb ⊢
  obtain ⟨g, l⟩ := p
  simp only at hb ⊢
  intro r hr
  split at hb
  · rw [hr] at hb
    have hpg := C11_processGuaranteed_general status
      (processGuaranteed status (some r) g).1 r g
      (processGuaranteed status (some r) g).2.1 (processGuaranteed status (some r) g).2.2 rfl
    generalize processGuaranteed status (some r) g = q at hb hpg
    obtain ⟨st', lo', add'⟩ := q
    simp only at hb hpg
    simp only [Except.ok.injEq, Prod.mk.injEq, and_true] at hb
    subst hb
    exact hpg.2.1
  · have : g = 0 := by omega
    subst this
    simp

theorem v1_guarBody_G1 {s : State} {nrW tg : Nat} (hv : s.variant.isV2 = false) (hRI : v1_RI s)
    {x x' : GSt} (hb : guarBody s x = .ok (x', true)) (hg : v1_G1 s nrW tg x) :
    v1_G1 s nrW tg x' := by
  have h0 : x.usersLeft ≠ 0 := by
    intro h0
    rw [guarBody_stop s x h0] at hb
    simp only [Except.ok.injEq, Prod.mk.injEq] at hb
    exact absurd hb.2 (by decide)
  obtain ⟨u, rest, hwl⟩ : ∃ u rest, x.whitelist = u :: rest := by
    cases hq : x.whitelist with
    | nil => have := hg.len; rw [hq] at this; exact absurd this h0
    | cons u rest => exact ⟨u, rest, rfl⟩
  obtain ⟨x1, e1, e2, e3, e4, e5, _, e7⟩ := guarBody_step s x u rest hwl h0
  have hx1 : x1 = x' := by
    rw [e1] at hb
    simp only [Except.ok.injEq, Prod.mk.injEq, and_true] at hb
    exact hb
  subst hx1
  obtain ⟨c1, _, c3⟩ := guarBody_count s.lastTicketId s x x1 true
    (fun v rest' hv' r hr' => (hRI.some v r hr').1) e1
  have hperm := swapRemove_perm x.whitelist u
  refine ⟨?_, c3 hg.flagsIn, fun t ht => e7 t (hg.mono t ht), ?_, ?_, ?_⟩
  · rw [e4, hg.len]; omega
  · have := hg.count; omega
  · have hs := hg.split
    rw [hv] at e5
    rw [e2, gSum_perm _ _ hperm, hwl]
    rw [hwl, gSum_cons] at hs
    simp only [List.erase_cons_head]
    omega
  · intro v rc hu hpos
    rcases hg.hon v rc hu hpos with hmem | hh
    · by_cases hvu : v = u
      · subst hvu
        right
        unfold v1_HonS winOf
        cases hr : s.range v with
        | none =>
          rw [hRI.none v hr]; simp
        | some r =>
          simp only []
          have := v1_guarBody_hon s x x1 v rest rc hv hwl h0 hu e1 r hr
          rw [(hRI.some v r hr).2] at this
          rw [(hRI.some v r hr).2]
          exact this
      · left
        rw [e2, hperm.mem_iff]
        exact (List.mem_erase_of_ne hvu).mpr hmem
    · exact Or.inr (v1_HonS_mono e7 hh)

/-- loop 1 under any budget: an interrupted run ends in a state satisfying the invariant, a
    completed run moreover with an empty work list -/
theorem v1_loop1 {s : State} {nrW tg : Nat} (hv : s.variant.isV2 = false) (hRI : v1_RI s)
    {fuel : Nat} {b b' : Option Nat} {x0 x : GSt} {st : LoopStatus}
    (hrun : runWhile (guarBody s) fuel b x0 = .ok (x, b', st)) (h0 : v1_G1 s nrW tg x0) :
    (st = .interrupted → v1_G1 s nrW tg x) ∧
    (st = .completed → v1_G1 s nrW tg x ∧ x.whitelist = []) := by
  obtain ⟨h1, h2⟩ := rb_runWhile_inv (v1_G1 s nrW tg) (guarBody s)
    (fun y y' hb hy => v1_guarBody_G1 hv hRI hb hy) _ _ _ _ _ _ hrun h0
  refine ⟨h1, fun hst => ?_⟩
  obtain ⟨y, hy, hby⟩ := h2 hst
  obtain ⟨hz, rfl⟩ := guarBody_stop_iff s y x hby
  exact ⟨hy, List.eq_nil_of_length_eq_zero (by rw [← hy.len]; exact hz)⟩

/-! ### loop 2 -/

structure v1_L2 (last nrW tg : Nat) (st0 : Nat → Bool) (z : LCore) : Prop where
  inv : LInv last nrW (z.lift default)
  sum : z.leftover + z.additional = tg
  mono : ∀ t, st0 t = true → z.status t = true

theorem v1_lift_body {hash : List Nat → List Nat} {nrW last : Nat} {z z' : LCore} {c : Bool}
    (hb : leftCoreBody hash false nrW last z = .ok (z', c)) :
    leftoverBody hash false nrW last (z.lift default) = .ok (z'.lift default, c) := by
  rw [leftoverBody_lift, hb]; rfl

theorem v1_leftBody_cont {hash : List Nat → List Nat} {nrW last tg : Nat} {st0 : Nat → Bool}
    {z z' : LCore} (hb : leftCoreBody hash false nrW last z = .ok (z', true))
    (hz : v1_L2 last nrW tg st0 z) : v1_L2 last nrW tg st0 z' := by
  have hb' := v1_lift_body hb
  obtain ⟨x', hs, _⟩ := leftoverBody_spec hash false nrW last _ hz.inv
  rw [hb'] at hs
  simp only [Except.ok.injEq, Prod.mk.injEq] at hs
  have hk : lKind hash nrW last (z.lift default) ≠ .stop := by
    have := hs.2
    intro hh
    rw [hh] at this
    simp at this
  obtain ⟨y, hy, hinv, _, _, _, hsum, hmono, _⟩ := leftoverBody_cont hash false nrW last _ hz.inv hk
  rw [hb'] at hy
  simp only [Except.ok.injEq, Prod.mk.injEq, and_true] at hy
  subst hy
  refine ⟨hinv, ?_, fun t ht => hmono t (hz.mono t ht)⟩
  have : z'.leftover + z'.additional = z.leftover + z.additional := hsum
  rw [this]; exact hz.sum

/-- the stopping iteration: nothing but `leftover` changes, and either all tickets win or the
    reserve is used up -/
theorem v1_leftBody_stop {hash : List Nat → List Nat} {nrW last tg : Nat} {st0 : Nat → Bool}
    {y z : LCore} (hb : leftCoreBody hash false nrW last y = .ok (z, false))
    (hy : v1_L2 last nrW tg st0 y) :
    LInv last nrW (z.lift default) ∧ z.additional ≤ tg ∧
    (∀ t, st0 t = true → z.status t = true) ∧
    (nrW + z.additional ≥ last ∨ z.additional = tg) := by
  have hb' := v1_lift_body hb
  obtain ⟨x', hs, hinv, _, _, hstop, _⟩ := leftoverBody_spec hash false nrW last _ hy.inv
  rw [hb'] at hs
  simp only [Except.ok.injEq, Prod.mk.injEq] at hs
  obtain ⟨hs1, hs2⟩ := hs
  have hk : lKind hash nrW last (y.lift default) = .stop := by
    cases hkk : lKind hash nrW last (y.lift default) with
    | stop => rfl
    | skip => rw [hkk] at hs2; simp at hs2
    | redraw => rw [hkk] at hs2; simp at hs2
    | ok => rw [hkk] at hs2; simp at hs2
  obtain ⟨hor, hx'⟩ := hstop hk
  subst hs1
  have ha : z.additional = y.additional := by
    have := congrArg LSt.additional hx'
    exact this
  have hst : z.status = y.status := by
    have := congrArg LSt.status hx'
    exact this
  have hsum := hy.sum
  refine ⟨hinv, by omega, fun t ht => by rw [hst]; exact hy.mono t ht, ?_⟩
  rcases hor with hf | hl
  · left
    have : nrW + y.additional ≥ last := hf
    omega
  · right
    have : y.leftover = 0 := hl
    omega

/-- loop 2 under any budget -/
theorem v1_loop2 {hash : List Nat → List Nat} {nrW last tg : Nat} {st0 : Nat → Bool}
    {fuel : Nat} {b b' : Option Nat} {z0 z : LCore} {st : LoopStatus}
    (hrun : runWhile (leftCoreBody hash false nrW last) fuel b z0 = .ok (z, b', st))
    (h0 : v1_L2 last nrW tg st0 z0) :
    (st = .interrupted → v1_L2 last nrW tg st0 z) ∧
    (st = .completed → LInv last nrW (z.lift default) ∧ z.additional ≤ tg ∧
      (∀ t, st0 t = true → z.status t = true) ∧
      (nrW + z.additional ≥ last ∨ z.additional = tg)) := by
  obtain ⟨h1, h2⟩ := rb_runWhile_inv (v1_L2 last nrW tg st0) (leftCoreBody hash false nrW last)
    (fun y y' hb hy => v1_leftBody_cont hb hy) _ _ _ _ _ _ hrun h0
  refine ⟨h1, fun hst => ?_⟩
  obtain ⟨y, hy, hby⟩ := h2 hst
  exact v1_leftBody_stop hby hy

end LP
