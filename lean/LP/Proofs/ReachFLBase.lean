import LP.Proofs.Frame
/-
  LP.Proofs.ReachFLBase — the NFT fee token differs from the launchpad token, along every history.

  After the repair 4830c00 `validCost lp c` ends with `req (c.tok != .esdt lp) …`; it is called by
  `init` (variants with the NFT hook) and by `setNftCost`.  `lpTok` is never written after `init`,
  `nftCost` only by `setNftCost`.  Hence

      fl_init_fee_ne_lp   deployment of a variant with the NFT hook establishes `fl_FeeNeLp`
      fl_step_lpTok       no accepted call changes `lpTok`
      fl_step_fee_ne_lp   every accepted call keeps `fl_FeeNeLp` (ANY variant, ANY call)
      fl_run_fee_ne_lp    hence it holds after ANY history `run hash s0 h`
-/
namespace LP

/-- the NFT fee token is not the launchpad token (whatever the nonce) -/
def fl_FeeNeLp (s : State) : Prop := s.nftCost.tok ≠ .esdt s.lpTok

instance (s : State) : Decidable (fl_FeeNeLp s) := by unfold fl_FeeNeLp; infer_instance

/-- no accepted call changes the launchpad token -/
theorem fl_step_lpTok {hash : List Nat → List Nat} {s s' : State} {e : Env} {c : Call} {o : Out}
    (h : step hash s e c = .ok (s', o)) : s'.lpTok = s.lpTok := by
  rcases step_static_cases h with ⟨_, h1⟩ | ⟨_, h1⟩
  · exact terms_lpTok (static_terms h1)
  · rw [h1]
    cases c <;> rfl

/-- an accepted `setNftCost p` has checked `p.tok ≠ launchpad token` -/
theorem fl_setNftCost_checked {hash : List Nat → List Nat} {s s' : State} {e : Env} {p : Pay} {o : Out}
    (h : step hash s e (.setNftCost p) = .ok (s', o)) :
    p.tok ≠ .esdt s.lpTok ∧ s'.nftCost = p := by
  obtain ⟨m, t, _, _, _, hx, rfl, _⟩ := step_ok_inv h
  simp only [exec, requireStage, bind_ok_iff, pure_ok_iff, req_ok_iff, exists_const] at hx
  obtain ⟨_, _, hc, rfl⟩ := hx
  exact ⟨validCost_ne_lp hc, rfl⟩

/-- **one step**: every accepted call (of any variant) keeps "fee token ≠ launchpad token" -/
theorem fl_step_fee_ne_lp {hash : List Nat → List Nat} {s s' : State} {e : Env} {c : Call} {o : Out}
    (h : step hash s e c = .ok (s', o)) (hinv : fl_FeeNeLp s) : fl_FeeNeLp s' := by
  unfold fl_FeeNeLp at *
  have hl := fl_step_lpTok h
  by_cases hc : ∃ p, c = .setNftCost p
  · obtain ⟨p, rfl⟩ := hc
    obtain ⟨h1, h2⟩ := fl_setNftCost_checked h
    rw [h2, hl]; exact h1
  · rw [nftCost_frame h (fun p hp => hc ⟨p, hp⟩), hl]
    exact hinv

/-- deployment: the launchpad token is the argument; for a variant with the NFT hook the fee is the
    argument and has passed `validCost` -/
theorem fl_init_inv {v : Variant} {a : InitArgs} {e : Env} {s : State} (h : init v a e = .ok s)
    (hv : v.hasNft = true) :
    s.lpTok = a.lpTok ∧ s.nftCost = a.nftCost ∧ validCost a.lpTok a.nftCost = .ok () := by
  cases v <;> simp only [Variant.hasNft, Bool.false_eq_true] at hv
  · unfold init at h
    simp only [Variant.hasNft, Variant.v1Alloc, Variant.hasLock, Variant.noAdditionalStep, bind_ok_iff,
      req_ok_iff, pure_ok_iff, pure_bind,
      exists_const, if_true, if_false, Bool.false_eq_true, reduceCtorEq, decide_eq_true_eq,
      bne_iff_ne, ne_eq, not_false_eq_true, beq_iff_eq] at h
    obtain ⟨_, _, _, _, _, _, _, u, hc, rfl⟩ := h
    exact ⟨rfl, rfl, hc⟩
  · unfold init at h
    simp only [Variant.hasNft, Variant.v1Alloc, Variant.hasLock, Variant.noAdditionalStep, bind_ok_iff,
      req_ok_iff, pure_bind,
      exists_const, if_true, if_false, Bool.false_eq_true, decide_eq_true_eq,
      bne_iff_ne, ne_eq, beq_iff_eq] at h
    obtain ⟨_, _, _, _, _, _, _, _, h⟩ := h
    simp only [not_true_eq_false, if_false, bind_ok_iff, pure_ok_iff] at h
    obtain ⟨u, hc, rfl⟩ := h
    exact ⟨rfl, rfl, hc⟩

/-- **deployment** of a variant with the NFT hook establishes "fee token ≠ launchpad token" -/
theorem fl_init_fee_ne_lp {v : Variant} {a : InitArgs} {e : Env} {s : State}
    (h : init v a e = .ok s) (hv : v.hasNft = true) : fl_FeeNeLp s := by
  obtain ⟨h1, h2, h3⟩ := fl_init_inv h hv
  unfold fl_FeeNeLp
  rw [h1, h2]
  exact validCost_ne_lp h3

/-- along any history (rejected transactions leave the state unchanged) -/
theorem fl_run_preserves (hash : List Nat → List Nat) :
    ∀ (h : List (Env × Call)) (s : State), fl_FeeNeLp s → fl_FeeNeLp (run hash s h)
  | [], s, hs => hs
  | (e, c) :: rest, s, hs => by
    unfold run
    cases hx : step hash s e c with
    | error err => exact fl_run_preserves hash rest s hs
    | ok q =>
      obtain ⟨s', o⟩ := q
      exact fl_run_preserves hash rest s' (fl_step_fee_ne_lp hx hs)

/-- the launchpad token never changes along a history -/
theorem fl_run_lpTok (hash : List Nat → List Nat) :
    ∀ (h : List (Env × Call)) (s : State), (run hash s h).lpTok = s.lpTok
  | [], s => rfl
  | (e, c) :: rest, s => by
    unfold run
    cases hx : step hash s e c with
    | error err => exact fl_run_lpTok hash rest s
    | ok q =>
      obtain ⟨s', o⟩ := q
      show (run hash s' rest).lpTok = s.lpTok
      rw [fl_run_lpTok hash rest s', fl_step_lpTok hx]

/-- **every history** of a launchpad with the NFT hook: the fee token is never the launchpad token -/
theorem fl_run_fee_ne_lp (hash : List Nat → List Nat) {v : Variant} {a : InitArgs} {e : Env}
    {s0 : State} (hi : init v a e = .ok s0) (hv : v.hasNft = true) (h : List (Env × Call)) :
    (run hash s0 h).nftCost.tok ≠ .esdt (run hash s0 h).lpTok :=
  fl_run_preserves hash h s0 (fl_init_fee_ne_lp hi hv)

/-! ### EGLD has no nonce (first check of `validCost`) -/

/-- an EGLD fee has nonce 0 -/
def fl_FeeNonceOk (s : State) : Prop := s.nftCost.tok = .egld → s.nftCost.nonce = 0

theorem fl_validCost_egld {lp : Nat} {c : Pay} (h : validCost lp c = .ok ()) :
    c.tok = .egld → c.nonce = 0 := by
  intro ht
  unfold validCost at h
  split at h
  · simp only [bind_ok_iff, req_ok_iff, exists_const] at h
    simpa using h.1
  · rename_i hne
    simp [ht] at hne

theorem fl_setNftCost_valid {hash : List Nat → List Nat} {s s' : State} {e : Env} {p : Pay} {o : Out}
    (h : step hash s e (.setNftCost p) = .ok (s', o)) :
    validCost s.lpTok p = .ok () ∧ s'.nftCost = p := by
  obtain ⟨m, t, _, _, _, hx, rfl, _⟩ := step_ok_inv h
  simp only [exec, requireStage, bind_ok_iff, pure_ok_iff, req_ok_iff, exists_const] at hx
  obtain ⟨_, _, hc, rfl⟩ := hx
  exact ⟨hc, rfl⟩

theorem fl_step_nonceOk {hash : List Nat → List Nat} {s s' : State} {e : Env} {c : Call} {o : Out}
    (h : step hash s e c = .ok (s', o)) (hinv : fl_FeeNonceOk s) : fl_FeeNonceOk s' := by
  unfold fl_FeeNonceOk at *
  by_cases hc : ∃ p, c = .setNftCost p
  · obtain ⟨p, rfl⟩ := hc
    obtain ⟨h1, h2⟩ := fl_setNftCost_valid h
    rw [h2]; exact fl_validCost_egld h1
  · rw [nftCost_frame h (fun p hp => hc ⟨p, hp⟩)]
    exact hinv

theorem fl_init_nonceOk {v : Variant} {a : InitArgs} {e : Env} {s : State}
    (h : init v a e = .ok s) (hv : v.hasNft = true) : fl_FeeNonceOk s := by
  obtain ⟨_, h2, h3⟩ := fl_init_inv h hv
  unfold fl_FeeNonceOk
  rw [h2]
  exact fl_validCost_egld h3

theorem fl_run_nonceOk_preserves (hash : List Nat → List Nat) :
    ∀ (h : List (Env × Call)) (s : State), fl_FeeNonceOk s → fl_FeeNonceOk (run hash s h)
  | [], s, hs => hs
  | (e, c) :: rest, s, hs => by
    unfold run
    cases hx : step hash s e c with
    | error err => exact fl_run_nonceOk_preserves hash rest s hs
    | ok q =>
      obtain ⟨s', o⟩ := q
      exact fl_run_nonceOk_preserves hash rest s' (fl_step_nonceOk hx hs)

end LP

#print axioms LP.fl_step_fee_ne_lp
#print axioms LP.fl_init_fee_ne_lp
#print axioms LP.fl_run_fee_ne_lp
