import LP.Proofs.EventLedgerFrame
import LP.Proofs.Once
import LP.Proofs.ReachVVClaim
import LP.Props.C20frame
import LP.Props.C07
/-
  LP.Proofs.EventLedger — helper material for C20 at the level of histories ("the event log
  determines the observable state").  Prefix `el_`.

  * `el_namesOf`, `el_names`          which event names an accepted call of each endpoint can emit
  * `el_chain_mem`                    every entry of a log is an accepted step between two states
  * `el_fld`, `el_sum`, `el_confirmTix`, `el_refundTix`, `el_confirmPay`, `el_refundAmt`,
    `el_claimAmt`, `el_events`        reading the numeric payload of the events of a log
  * `el_index`, `el_replay`           the indexer: replays `confirmed` / `claimed` from the log
  * `el_index_step`, `el_replay_chain`   the replay is exact
  * `el_blRefunded`, `el_confirmed_sum`  sum form: confirmed + refunded = Σ confirm events
  * `el_exec_lg`, `el_step_bal`, `el_chain_bal`   the payment-token balance before the claims
  * `el_count_filter` …               the completion events
  * `el_step_userClaimed`, `el_chain_userClaimed`   v2: Σ claim events = `userClaimed`
  * `el_step_price`, `el_chain_price`  the last `setTicketPrice` event carries price and token
-/
namespace LP
open LP.Events LP.Props LP.Props.C17 LP.Props.C20

/-! ### which names an endpoint can emit -/

/-- the event names an accepted call of the endpoint can emit -/
def el_namesOf : Call → List String
  | .confirm _ => ["confirmTickets"]
  | .setTicketPrice _ _ => ["setTicketPrice"]
  | .filter => ["filterTicketsCompleted"]
  | .select => ["selectWinnersCompleted"]
  | .distribute => ["distributeGuaranteedTicketsCompleted"]
  | .addTicketsV2 _ => ["addTickets"]
  | .blacklist _ => ["refundTicketPayment", "addUsersToBlacklist"]
  | .refundUsers _ => ["refundTicketPayment"]
  | .unblacklist _ => ["removeGuaranteedUsersFromBlacklist"]
  | .setSchedule2 _ => ["setUnlockSchedule"]
  | .claim => ["refundTicketPayment", "claimLaunchpadTokens"]
  | .pause => ["pauseContract"]
  | .unpause => ["unpauseContract"]
  | _ => []

theorem el_mem_blEvent_name {s : State} {e : Env} {l : List Nat} {ev : Ev}
    (h : ev ∈ l.filterMap (blEvent s e)) : ev.name = "refundTicketPayment" := by
  obtain ⟨u, _, hu⟩ := List.mem_filterMap.mp h
  unfold blEvent at hu
  split at hu
  · injection hu with hu; subst hu; rfl
  · cases hu

/-- **event names by endpoint**: every event of an accepted call carries one of the names listed
    for its endpoint -/
theorem el_names {hash : List Nat → List Nat} {s s' : State} {e : Env} {c : Call} {o : Out}
    (h : step hash s e c = .ok (s', o)) : ∀ ev ∈ o.events, ev.name ∈ el_namesOf c := by
  intro ev hev
  cases hc : emitting c with
  | false =>
    by_cases h1 : c = .pause
    · subst h1
      rw [C20frame.pause_events hash s s' e o h] at hev
      simp only [List.mem_singleton] at hev; subst hev
      simp [el_namesOf]
    · by_cases h2 : c = .unpause
      · subst h2
        rw [C20frame.unpause_events hash s s' e o h] at hev
        simp only [List.mem_singleton] at hev; subst hev
        simp [el_namesOf]
      · rw [C20frame.no_events_of_not_emitting hash s s' e c o h hc h1 h2] at hev
        cases hev
  | true =>
    cases c <;> simp only [emitting, Bool.false_eq_true] at hc
    case confirm n =>
      obtain ⟨total, _, _, _, _, _, hE⟩ := C07.confirm_effect hash s e n s' o h
      rw [hE] at hev
      simp only [List.mem_singleton] at hev
      subst hev; simp [el_namesOf, C07.confirmEvent]
    case setTicketPrice tok a =>
      obtain ⟨hE, _⟩ := setTicketPrice_exact hash s e tok a s' o h
      rw [hE] at hev; simp only [List.mem_singleton] at hev; subst hev; simp [el_namesOf]
    case filter =>
      obtain ⟨hr, h0, h1, _⟩ := filter_event hash s e s' o h
      rcases hr with hr | hr
      · rw [(h0 hr).1] at hev; simp only [List.mem_singleton] at hev; subst hev; simp [el_namesOf]
      · rw [(h1 hr).1] at hev; cases hev
    case select =>
      obtain ⟨hr, h0, h1, _⟩ := select_event hash s e s' o h
      rcases hr with hr | hr
      · rw [(h0 hr).1] at hev; simp only [List.mem_singleton] at hev; subst hev; simp [el_namesOf]
      · rw [(h1 hr).1] at hev; cases hev
    case distribute =>
      obtain ⟨hr, h0, h1, _⟩ := distribute_event hash s e s' o h
      rcases hr with hr | hr
      · obtain ⟨add, _, _, _, hE⟩ := h0 hr
        rw [hE] at hev
        split at hev
        · simp only [List.mem_singleton] at hev; subst hev; simp [el_namesOf]
        · cases hev
      · rw [(h1 hr).1] at hev; cases hev
    case addTicketsV2 l =>
      obtain ⟨hE, _⟩ := addTicketsV2_event hash s e l s' o h
      rw [hE] at hev; simp only [List.mem_singleton] at hev; subst hev; simp [el_namesOf]
    case blacklist l =>
      obtain ⟨hE, _⟩ := blacklist_events hash s e l s' o h
      rw [hE] at hev
      rcases List.mem_append.mp hev with hev | hev
      · rw [el_mem_blEvent_name hev]; simp [el_namesOf]
      · split at hev
        · simp only [List.mem_singleton] at hev; subst hev; simp [el_namesOf]
        · cases hev
    case refundUsers l =>
      obtain ⟨hE, _⟩ := refundUsers_events hash s e l s' o h
      rw [hE] at hev
      rw [el_mem_blEvent_name hev]; simp [el_namesOf]
    case unblacklist l =>
      obtain ⟨hE, _⟩ := unblacklist_events hash s e l s' o h
      rw [hE] at hev
      split at hev
      · simp only [List.mem_singleton] at hev; subst hev; simp [el_namesOf]
      · cases hev
    case setSchedule2 ms =>
      obtain ⟨hE, _⟩ := setSchedule2_event hash s e ms s' o h
      rw [hE] at hev; simp only [List.mem_singleton] at hev; subst hev; simp [el_namesOf]
    case claim =>
      cases hv : s.variant.vested with
      | false =>
        obtain ⟨s1, redeem, rf, _, hE⟩ := claim_plain_events hash s e s' o hv h
        rw [hE] at hev
        split at hev
        · simp only [List.mem_singleton] at hev; subst hev; simp [el_namesOf]
        · cases hev
      | true =>
        obtain ⟨t, hx, rfl, rfl⟩ := step_nopay_inv (by intro m hm; simp [endpointMeta] at hm; rw [← hm]) h
        have hvest : (txOf s e).s.variant.vested = true := hv
        simp only [exec, hvest, ↓reduceIte] at hx
        cases hcl : s.claimed e.caller with
        | true =>
          obtain ⟨c, _, hE, _⟩ := LP.Events.claimVested_claimed (t := txOf s e) hcl hx
          rw [hE] at hev
          rcases List.mem_append.mp hev with hev | hev
          · cases hev
          · split at hev
            · simp only [List.mem_singleton] at hev; subst hev; simp [el_namesOf, claimEv, refundEv]
            · cases hev
        | false =>
          obtain ⟨s1, redeem, rf, t1, c, _, _, _, hE, _⟩ := LP.Events.claimVested_first (t := txOf s e) hcl hx
          rw [hE] at hev
          rcases List.mem_append.mp hev with hev | hev
          · rcases List.mem_append.mp hev with hev | hev
            · cases hev
            · split at hev
              · simp only [List.mem_singleton] at hev; subst hev; simp [el_namesOf, refundEv]
              · cases hev
          · split at hev
            · simp only [List.mem_singleton] at hev; subst hev; simp [el_namesOf, claimEv]
            · cases hev

/-- an endpoint that cannot emit the name `n` does not emit it -/
theorem el_no_name {hash : List Nat → List Nat} {s s' : State} {e : Env} {c : Call} {o : Out}
    (h : step hash s e c = .ok (s', o)) {n : String} (hn : n ∉ el_namesOf c) :
    ∀ ev ∈ o.events, ev.name ≠ n := by
  intro ev hev heq
  exact hn (heq ▸ el_names h ev hev)

/-! ### entries of a chain -/

/-- every entry of a chain is an accepted step between two states of the chain -/
theorem el_chain_mem {hash : List Nat → List Nat} {s s' : State} {l : List Entry}
    (h : LogChain hash s l s') {x : Entry} (hx : x ∈ l) :
    ∃ l1 l2 s1 s2, l = l1 ++ x :: l2 ∧ LogChain hash s l1 s1 ∧
      step hash s1 x.1 x.2.1 = .ok (s2, x.2.2) ∧ LogChain hash s2 l2 s' := by
  obtain ⟨l1, l2, rfl⟩ := List.append_of_mem hx
  obtain ⟨s1, s2, h1, h2, h3⟩ := h.split
  exact ⟨l1, l2, s1, s2, rfl, h1, h2, h3⟩

theorem el_chain_append {hash : List Nat → List Nat} {s s1 s2 : State} {l1 l2 : List Entry}
    (h1 : LogChain hash s l1 s1) (h2 : LogChain hash s1 l2 s2) : LogChain hash s (l1 ++ l2) s2 := by
  induction h1 with
  | nil s => exact h2
  | cons hst _ ih => exact .cons hst (ih h2)

theorem el_chain_variant {hash : List Nat → List Nat} {s s' : State} {l : List Entry}
    (h : LogChain hash s l s') : s'.variant = s.variant := by
  induction h with
  | nil s => rfl
  | cons hst _ ih => exact ih.trans (be_variant_step hst)

/-- **topics along a log**: every event of every entry is one of the two topic-less pause events or
    carries `[caller, round, epoch]` of the transaction that emitted it -/
theorem el_topics_chain {hash : List Nat → List Nat} {s s' : State} {l : List Entry}
    (h : LogChain hash s l s') : ∀ x ∈ l, ∀ ev ∈ x.2.2.events,
      (x.2.1 = .pause ∧ ev = ⟨"pauseContract", [], []⟩) ∨
      (x.2.1 = .unpause ∧ ev = ⟨"unpauseContract", [], []⟩) ∨
      ev.topics = [x.1.caller, x.1.round, x.1.epoch] := by
  intro x hx ev hev
  obtain ⟨_, _, s1, s2, _, _, hst, _⟩ := el_chain_mem h hx
  exact C20frame.all_events_indexed hash s1 s2 x.1 x.2.1 x.2.2 hst ev hev

/-! ### reading the payload of events -/

/-- the `i`-th numeric payload field of an event (0 when absent) -/
def el_fld (ev : Ev) (i : Nat) : Nat := ev.data.getD i 0

/-- sum of a quantity over a list of events -/
def el_sum (f : Ev → Nat) (evs : List Ev) : Nat := (evs.map f).sum

/-- all events of a log, in order -/
def el_events (l : List Entry) : List Ev := l.flatMap (fun x => x.2.2.events)

/-- tickets of a `confirmTickets` event of caller `a` (payload `[caller, round, epoch, n, total
    confirmed, allocation, token, nonce, amount]`) -/
def el_confirmTix (a : Nat) (ev : Ev) : Nat :=
  if ev.name = "confirmTickets" ∧ el_fld ev 0 = a then el_fld ev 3 else 0

/-- payment of a `confirmTickets` event in the token with code `k` -/
def el_confirmPay (k : Nat) (ev : Ev) : Nat :=
  if ev.name = "confirmTickets" ∧ el_fld ev 6 = k then el_fld ev 8 else 0

/-- tickets of a `refundTicketPayment` event (payload `[caller, round, epoch, n, token, nonce,
    amount]`) -/
def el_refundTix (ev : Ev) : Nat := if ev.name = "refundTicketPayment" then el_fld ev 3 else 0

/-- amount of a `refundTicketPayment` event in the token with code `k` -/
def el_refundAmt (k : Nat) (ev : Ev) : Nat :=
  if ev.name = "refundTicketPayment" ∧ el_fld ev 4 = k then el_fld ev 6 else 0

/-- launchpad-token amount of a `claimLaunchpadTokens` event of caller `a` (payload `[caller, round,
    epoch, token, nonce, amount]`) -/
def el_claimAmt (a : Nat) (ev : Ev) : Nat :=
  if ev.name = "claimLaunchpadTokens" ∧ el_fld ev 0 = a then el_fld ev 5 else 0

@[simp] theorem el_sum_nil (f : Ev → Nat) : el_sum f [] = 0 := rfl

theorem el_sum_cons (f : Ev → Nat) (ev : Ev) (evs : List Ev) : el_sum f (ev :: evs) = f ev + el_sum f evs := by
  simp [el_sum]

theorem el_sum_append (f : Ev → Nat) (a b : List Ev) : el_sum f (a ++ b) = el_sum f a + el_sum f b := by
  simp [el_sum]

theorem el_sum_zero {f : Ev → Nat} {evs : List Ev} (h : ∀ ev ∈ evs, f ev = 0) : el_sum f evs = 0 := by
  induction evs with
  | nil => rfl
  | cons ev rest ih =>
    rw [el_sum_cons, h ev (List.mem_cons_self ..), ih (fun x hx => h x (List.mem_cons_of_mem _ hx))]

theorem el_events_nil : el_events [] = [] := rfl

theorem el_events_cons (x : Entry) (l : List Entry) : el_events (x :: l) = x.2.2.events ++ el_events l := by
  simp [el_events]

theorem el_events_append (a b : List Entry) : el_events (a ++ b) = el_events a ++ el_events b := by
  simp [el_events]

theorem el_confirmTix_other {a : Nat} {ev : Ev} (h : ev.name ≠ "confirmTickets") : el_confirmTix a ev = 0 := by
  unfold el_confirmTix; rw [if_neg]; intro hh; exact h hh.1

theorem el_confirmPay_other {k : Nat} {ev : Ev} (h : ev.name ≠ "confirmTickets") : el_confirmPay k ev = 0 := by
  unfold el_confirmPay; rw [if_neg]; intro hh; exact h hh.1

theorem el_refundTix_other {ev : Ev} (h : ev.name ≠ "refundTicketPayment") : el_refundTix ev = 0 := by
  unfold el_refundTix; rw [if_neg h]

theorem el_refundAmt_other {k : Nat} {ev : Ev} (h : ev.name ≠ "refundTicketPayment") : el_refundAmt k ev = 0 := by
  unfold el_refundAmt; rw [if_neg]; intro hh; exact h hh.1

theorem el_claimAmt_other {a : Nat} {ev : Ev} (h : ev.name ≠ "claimLaunchpadTokens") : el_claimAmt a ev = 0 := by
  unfold el_claimAmt; rw [if_neg]; intro hh; exact h hh.1

/-- no `confirmTickets` event outside `confirm` -/
theorem el_no_confirm_events {hash : List Nat → List Nat} {s s' : State} {e : Env} {c : Call} {o : Out}
    (h : step hash s e c = .ok (s', o)) (hc : ∀ n, c ≠ .confirm n) :
    ∀ ev ∈ o.events, ev.name ≠ "confirmTickets" := by
  apply el_no_name h
  cases c <;> first | (exact absurd rfl (hc _)) | simp [el_namesOf]

/-- the one event of an accepted confirmation, read back -/
theorem el_confirm_read {hash : List Nat → List Nat} {s s' : State} {e : Env} {n : Nat} {o : Out}
    (h : step hash s e (.confirm n) = .ok (s', o)) (a k : Nat) :
    el_sum (el_confirmTix a) o.events = (if e.caller = a then n else 0) ∧
    el_sum (el_confirmPay k) o.events = (if s.payTok.code = k then s.price * n else 0) ∧
    el_sum el_refundTix o.events = 0 ∧ el_sum (el_refundAmt k) o.events = 0 := by
  obtain ⟨total, _, _, _, _, _, hE⟩ := C07.confirm_effect hash s e n s' o h
  rw [hE]
  simp [el_sum, el_confirmTix, el_confirmPay, el_refundTix, el_refundAmt, el_fld, C07.confirmEvent]

/-! ### the indexer: replaying `confirmed` and `claimed` from the log -/

/-- what the indexer keeps: confirmed tickets and who has settled -/
abbrev el_Ledger := (Nat → Nat) × (Nat → Bool)

/-- one log entry applied to the ledger.  A confirmation adds the tickets its event reports to the
    caller; blacklisting (`addUsersToBlacklist`, v2 `refundUsers`) refunds everything the listed users
    have confirmed; a first claim settles the caller (the vesting variants accept repeat claims, which
    change nothing here) -/
def el_index (v : Variant) (L : el_Ledger) (x : Entry) : el_Ledger :=
  match x.2.1 with
  | .confirm _ =>
    (upd L.1 x.1.caller (L.1 x.1.caller + el_sum (el_confirmTix x.1.caller) x.2.2.events), L.2)
  | .blacklist l | .refundUsers l => (fun a => if a ∈ l then 0 else L.1 a, L.2)
  | .claim =>
    (if v.vested && L.2 x.1.caller then L.1 else upd L.1 x.1.caller 0, upd L.2 x.1.caller true)
  | _ => L

/-- the ledger after a log -/
def el_replay (v : Variant) (L : el_Ledger) (l : List Entry) : el_Ledger := l.foldl (el_index v) L

/-- the ledger of a state -/
def el_ledgerOf (s : State) : el_Ledger := (s.confirmed, s.claimed)

/-- **one accepted transaction, replayed exactly** -/
theorem el_index_step {hash : List Nat → List Nat} {s s' : State} {e : Env} {c : Call} {o : Out}
    (h : step hash s e c = .ok (s', o)) : el_index s.variant (el_ledgerOf s) (e, c, o) = el_ledgerOf s' := by
  have h1 : s'.confirmed = (cbAfter s e c).confirmed := congrArg CB.confirmed (step_cb h)
  have hcl := step_claimed_cases h
  cases c with
  | confirm n =>
    rcases hcl with ⟨_, h2⟩ | ⟨h3, _⟩
    · have hr := (el_confirm_read h e.caller 0).1
      rw [if_pos rfl] at hr
      simp only [el_index, el_ledgerOf, hr]
      exact Prod.ext h1.symm h2.symm
    · cases h3
  | blacklist l =>
    rcases hcl with ⟨_, h2⟩ | ⟨h3, _⟩
    · exact Prod.ext h1.symm h2.symm
    · cases h3
  | refundUsers l =>
    rcases hcl with ⟨_, h2⟩ | ⟨h3, _⟩
    · exact Prod.ext h1.symm h2.symm
    · cases h3
  | claim =>
    rcases hcl with ⟨h3, _⟩ | ⟨_, h2⟩
    · exact absurd rfl h3
    · exact Prod.ext h1.symm h2.symm
  | _ =>
    rcases hcl with ⟨_, h2⟩ | ⟨h3, _⟩
    · exact Prod.ext h1.symm h2.symm
    · cases h3

/-- **the replay is exact along a chain** -/
theorem el_replay_chain {hash : List Nat → List Nat} {s s' : State} {l : List Entry}
    (h : LogChain hash s l s') : el_replay s.variant (el_ledgerOf s) l = el_ledgerOf s' := by
  induction h with
  | nil s => rfl
  | @cons s s1 s2 e c o l hst _ ih =>
    show el_replay s.variant (el_index s.variant (el_ledgerOf s) (e, c, o)) l = _
    rw [el_index_step hst, ← be_variant_step hst]
    exact ih

theorem el_replay_append (v : Variant) (L : el_Ledger) (a b : List Entry) :
    el_replay v L (a ++ b) = el_replay v (el_replay v L a) b := by
  simp [el_replay]

/-! ### sum form -/

/-- tickets refunded to `a` by the blacklistings of a log: each one refunds the whole ledger entry
    of `a` at that moment -/
def el_blRefundOf (a : Nat) (conf : Nat → Nat) : Call → Nat
  | .blacklist l | .refundUsers l => if a ∈ l then conf a else 0
  | _ => 0

def el_blRefunded (v : Variant) (a : Nat) : el_Ledger → List Entry → Nat
  | _, [] => 0
  | L, x :: rest => el_blRefundOf a L.1 x.2.1 + el_blRefunded v a (el_index v L x) rest

theorem el_claimed_mono_step {hash : List Nat → List Nat} {s s' : State} {e : Env} {c : Call} {o : Out}
    (h : step hash s e c = .ok (s', o)) {a : Nat} (ha : s.claimed a = true) : s'.claimed a = true := by
  rcases step_claimed_cases h with ⟨_, h1⟩ | ⟨_, h1⟩
  · rw [h1]; exact ha
  · rw [h1]; unfold upd; split <;> first | rfl | exact ha

theorem el_claimed_mono {hash : List Nat → List Nat} {s s' : State} {l : List Entry}
    (h : LogChain hash s l s') {a : Nat} (ha : s.claimed a = true) : s'.claimed a = true :=
  h.preserves (fun z => z.claimed a = true) (fun _ _ _ _ _ hz hst => el_claimed_mono_step hst hz) ha

/-- one step of the sum form for an address that has not settled afterwards -/
theorem el_confirmed_sum_step {hash : List Nat → List Nat} {s s' : State} {e : Env} {c : Call} {o : Out}
    (h : step hash s e c = .ok (s', o)) {a : Nat} (hcl : s'.claimed a = false) :
    s'.confirmed a + el_blRefundOf a s.confirmed c
      = s.confirmed a + el_sum (el_confirmTix a) o.events := by
  have h1 : s'.confirmed = (cbAfter s e c).confirmed := congrArg CB.confirmed (step_cb h)
  have hno : (∀ n, c ≠ .confirm n) → el_sum (el_confirmTix a) o.events = 0 := fun hc =>
    el_sum_zero (fun ev hev => el_confirmTix_other (el_no_confirm_events h hc ev hev))
  cases c with
  | confirm n =>
    rw [(el_confirm_read h a 0).1, h1]
    simp only [cbAfter, upd, el_blRefundOf]
    by_cases hq : a = e.caller
    · subst hq; simp
    · have : ¬ e.caller = a := fun hh => hq hh.symm
      simp [hq, this]
  | blacklist l =>
    rw [hno (by intro n; exact Call.noConfusion), h1]
    simp only [cbAfter, el_blRefundOf]
    split <;> simp
  | refundUsers l =>
    rw [hno (by intro n; exact Call.noConfusion), h1]
    simp only [cbAfter, el_blRefundOf]
    split <;> simp
  | claim =>
    rw [hno (by intro n; exact Call.noConfusion), h1]
    rcases step_claimed_cases h with ⟨h3, _⟩ | ⟨_, h2⟩
    · exact absurd rfl h3
    · have hne : a ≠ e.caller := by
        intro hq; subst hq
        rw [h2] at hcl; simp [upd] at hcl
      simp only [cbAfter, el_blRefundOf]
      split <;> simp [upd, hne]
  | _ =>
    rw [hno (by intro n; exact Call.noConfusion), h1]
    rfl

/-- **sum form along a chain**: for an address that has not settled at the end, what it has
    confirmed plus what the blacklistings refunded to it is what its `confirmTickets` events add up to -/
theorem el_confirmed_sum {hash : List Nat → List Nat} {s s' : State} {l : List Entry}
    (h : LogChain hash s l s') {a : Nat} (hcl : s'.claimed a = false) :
    s'.confirmed a + el_blRefunded s.variant a (el_ledgerOf s) l
      = s.confirmed a + el_sum (el_confirmTix a) (el_events l) := by
  induction h with
  | nil s => simp [el_blRefunded, el_events_nil]
  | @cons s s1 s2 e c o l hst hrest ih =>
    have hcl1 : s1.claimed a = false := by
      cases hq : s1.claimed a with
      | false => rfl
      | true => rw [el_claimed_mono hrest hq] at hcl; cases hcl
    have h1 := el_confirmed_sum_step hst hcl1
    have h2 := ih hcl
    rw [be_variant_step hst] at h2
    rw [el_events_cons, el_sum_append]
    show s2.confirmed a + (el_blRefundOf a s.confirmed c
        + el_blRefunded s.variant a (el_index s.variant (el_ledgerOf s) (e, c, o)) l) = _
    rw [el_index_step hst]
    simp only at h1 h2 ⊢
    omega

/-! ### the balances: which endpoints keep them -/

/-- the endpoints whose body neither sends nor books a vesting claim -/
def el_keepsLG : Call → Bool
  | .claim | .claimPayment | .blacklist _ | .refundUsers _ => false
  | _ => true

theorem el_GHook_lg {l : List Nat} {s s' : State} (h : Events.GHook l s s') : s'.lg = s.lg := by
  obtain ⟨⟨_, _, _, _, _, rfl⟩, _⟩ := h
  rfl

/-- **every endpoint other than the two claims and the two blacklistings**: the body keeps the
    contract's balances and the vesting ledger -/
theorem el_exec_lg {hash : List Nat → List Nat} {t t' : Tx} {e : Env} {c : Call}
    (hc : el_keepsLG c = true) (h : exec hash t e c = .ok t') : t'.s.lg = t.s.lg := by
  cases c with
  | claim => simp [el_keepsLG] at hc
  | claimPayment => simp [el_keepsLG] at hc
  | blacklist l => simp [el_keepsLG] at hc
  | refundUsers l => simp [el_keepsLG] at hc
  | confirm n => exact el_confirmTickets_lg h
  | unblacklist l =>
    obtain ⟨_, hg, _⟩ := Events.exec_unblacklist_out h
    have hh := el_GHook_lg hg
    exact hh
  | addTickets l =>
    simp only [exec, bind_ok_iff, pure_ok_iff, req_ok_iff, requireStage, exists_const] at h
    obtain ⟨_, s1, h1, rfl⟩ := h
    exact el_createMany_lg l h1
  | addTicketsV1 l =>
    simp only [exec, bind_ok_iff, pure_ok_iff] at h
    obtain ⟨s1, h1, rfl⟩ := h
    exact el_addTicketsV1_lg h1
  | addTicketsV2 l => exact el_addTicketsV2_lg h
  | deposit =>
    simp only [exec, bind_ok_iff, pure_ok_iff] at h
    obtain ⟨s1, h1, rfl⟩ := h
    exact el_depositLaunchpadTokens_lg h1
  | setTicketPrice tok amount =>
    simp only [exec, bind_ok_iff, pure_ok_iff, req_ok_iff, requireStage, exists_const] at h
    obtain ⟨_, s1, h1, rfl⟩ := h
    exact el_trySetTicketPrice_lg h1
  | setPerTicket amount =>
    simp only [exec, bind_ok_iff, pure_ok_iff, req_ok_iff, requireStage, exists_const] at h
    obtain ⟨_, _, _, rfl⟩ := h
    rfl
  | setConfStart r =>
    simp only [exec, bind_ok_iff, pure_ok_iff, req_ok_iff, exists_const] at h
    obtain ⟨_, _, _, rfl⟩ := h
    rfl
  | setSelStart r =>
    simp only [exec, bind_ok_iff, pure_ok_iff, req_ok_iff, exists_const] at h
    obtain ⟨_, _, _, rfl⟩ := h
    rfl
  | setClaimStart r =>
    simp only [exec, bind_ok_iff, pure_ok_iff, req_ok_iff, exists_const] at h
    obtain ⟨_, _, _, rfl⟩ := h
    rfl
  | setSupport a => simp only [exec, pure_ok_iff] at h; subst h; rfl
  | pause => simp only [exec, pure_ok_iff] at h; subst h; rfl
  | unpause => simp only [exec, pure_ok_iff] at h; subst h; rfl
  | filter => exact el_filterTickets_lg h
  | select => exact el_selectWinners_lg h
  | distribute => exact el_distribute_lg h
  | setSchedule1 a b c d f =>
    simp only [exec, bind_ok_iff, pure_ok_iff] at h
    obtain ⟨s1, h1, rfl⟩ := h
    exact el_setSchedule1_lg h1
  | setSchedule2 l => exact el_setSchedule2_lg h
  | confirmNft =>
    simp only [exec, bind_ok_iff, pure_ok_iff] at h
    obtain ⟨s1, h1, rfl⟩ := h
    exact el_confirmNft_lg h1
  | selectNft => exact el_selectNft_lg h
  | secondary => exact el_secondary_lg h
  | setNftCost c =>
    simp only [exec, bind_ok_iff, pure_ok_iff, req_ok_iff, requireStage, exists_const] at h
    obtain ⟨_, _, _, rfl⟩ := h
    rfl
  | issueSft =>
    simp only [exec, bind_ok_iff] at h
    obtain ⟨_, _, h⟩ := h
    cases h
  | createSfts =>
    simp only [exec, bind_ok_iff] at h
    obtain ⟨_, _, _, _, h⟩ := h
    cases h
  | setTransferRole o =>
    simp only [exec, bind_ok_iff] at h
    obtain ⟨_, _, h⟩ := h
    cases h
  | sftSetup => simp only [exec, pure_ok_iff] at h; subst h; rfl

/-- the endpoints that take a payment -/
def el_payable : Call → Bool
  | .deposit | .confirm _ | .confirmNft | .issueSft => true
  | _ => false

theorem el_nopay {v : Variant} {c : Call} {m : Meta} (hc : el_payable c = false)
    (hm : endpointMeta v c = some m) : m.payable = false := by
  cases c <;> simp only [el_payable, Bool.true_eq_false] at hc <;> simp only [endpointMeta] at hm <;>
    first
      | (injection hm with hm; rw [← hm])
      | (split at hm <;> first | (injection hm with hm; rw [← hm]) | cases hm)

/-- a call without payment that keeps the balances: the whole transaction keeps them -/
theorem el_step_lg {hash : List Nat → List Nat} {s s' : State} {e : Env} {c : Call} {o : Out}
    (h : step hash s e c = .ok (s', o)) (hk : el_keepsLG c = true) (hp : el_payable c = false) :
    s'.lg = s.lg := by
  obtain ⟨t, hx, rfl, _⟩ := step_nopay_inv (fun m hm => el_nopay hp hm) h
  exact el_exec_lg hk hx

theorem el_code_inj {a b : Token} (h : a.code = b.code) : a = b := by
  cases a <;> cases b <;> simp [Token.code] at h ⊢
  · omega

/-! ### refund events of a blacklisting -/

theorem el_bl_refund_sums (s : State) (e : Env) (k : Nat) (l : List Nat) :
    el_sum el_refundTix (l.filterMap (blEvent s e)) = blConfSum s l ∧
    el_sum (el_refundAmt k) (l.filterMap (blEvent s e))
      = (if s.payTok.code = k then s.price * blConfSum s l else 0) ∧
    el_sum (el_confirmPay k) (l.filterMap (blEvent s e)) = 0 := by
  induction l with
  | nil => simp [blConfSum]
  | cons u rest ih =>
    obtain ⟨i1, i2, i3⟩ := ih
    have hcs : blConfSum s (u :: rest) = s.confirmed u + blConfSum s rest := by simp [blConfSum]
    by_cases hu : s.confirmed u > 0
    · have hb : blEvent s e u = some (refundEv s e (s.confirmed u)) := by
        unfold blEvent; rw [if_pos hu]
      rw [List.filterMap_cons, hb]
      simp only [el_sum_cons, i1, i2, i3, hcs]
      refine ⟨by simp [el_refundTix, el_fld, refundEv], ?_, by simp [el_confirmPay, refundEv]⟩
      by_cases hk : s.payTok.code = k
      · simp [el_refundAmt, el_fld, refundEv, hk, Nat.mul_add]
      · simp [el_refundAmt, el_fld, refundEv, hk]
    · have h0 : s.confirmed u = 0 := by omega
      have hb : blEvent s e u = none := by
        unfold blEvent; rw [if_neg hu]
      rw [List.filterMap_cons, hb]
      simp only [i1, i2, i3, hcs, h0, Nat.zero_add]
      exact ⟨trivial, trivial, trivial⟩

/-- state, events of the two blacklisting endpoints in a variant without NFTs -/
theorem el_blacklist_out {hash : List Nat → List Nat} {s s' : State} {e : Env} {c : Call} {o : Out}
    {l : List Nat} (hc : c = .blacklist l ∨ c = .refundUsers l)
    (h : step hash s e c = .ok (s', o)) :
    o.events.filter (fun ev => ev.name == "refundTicketPayment") = l.filterMap (blEvent s e) ∧
    (∃ tail, o.events = l.filterMap (blEvent s e) ++ tail ∧
      ∀ ev ∈ tail, ev.name ≠ "refundTicketPayment" ∧ ev.name ≠ "confirmTickets") ∧
    s.price * blConfSum s l ≤ s.bal s.payTok 0 ∧
    s'.userClaimed = s.userClaimed ∧
    (s.variant.hasNft = false → s'.bal = s.bal.sub s.payTok 0 (s.price * blConfSum s l)) := by
  have hfil : ∀ tail : List Ev, (∀ ev ∈ tail, ev.name ≠ "refundTicketPayment") →
      (l.filterMap (blEvent s e) ++ tail).filter (fun ev => ev.name == "refundTicketPayment")
        = l.filterMap (blEvent s e) := by
    intro tail ht
    rw [List.filter_append]
    have h1 : (l.filterMap (blEvent s e)).filter (fun ev => ev.name == "refundTicketPayment")
        = l.filterMap (blEvent s e) :=
      List.filter_eq_self.2 (fun ev hev => by simp [el_mem_blEvent_name hev])
    have h2 : tail.filter (fun ev => ev.name == "refundTicketPayment") = [] :=
      List.filter_eq_nil_iff.2 (fun ev hev => by simpa using ht ev hev)
    rw [h1, h2, List.append_nil]
  rcases hc with rfl | rfl
  · obtain ⟨t, hx, rfl, rfl⟩ := step_nopay_inv (by intro m hm; simp [endpointMeta] at hm; rw [← hm]) h
    obtain ⟨hadd, hev, _, _, _, _, s1, py, bal, hg, hs, hnn⟩ := exec_blacklist_out hx
    obtain ⟨_, _, _, _, hle, _⟩ := (addUsersToBlacklist_ok_iff _ _ _ _).mp hadd
    have hev' : t.o.events = l.filterMap (blEvent s e) ++
        (if s.variant.isV2 then [blacklistEv e l] else []) := by
      rw [hev]; exact congrArg (· ++ _) (List.nil_append _)
    have htail : ∀ ev ∈ (if s.variant.isV2 then [blacklistEv e l] else []),
        ev.name ≠ "refundTicketPayment" ∧ ev.name ≠ "confirmTickets" := by
      intro ev hev2
      split at hev2
      · simp only [List.mem_singleton] at hev2; subst hev2; simp [blacklistEv]
      · cases hev2
    have hlg := el_GHook_lg hg
    refine ⟨?_, ⟨_, hev', htail⟩, hle, ?_, ?_⟩
    · rw [hev']; exact hfil _ (fun ev hh => (htail ev hh).1)
    · rw [hs]; exact congrArg EL_LG.userClaimed hlg
    · intro hn
      rw [hs, (hnn hn).2]
      exact congrArg EL_LG.bal hlg
  · obtain ⟨t, hx, rfl, rfl⟩ := step_nopay_inv (by
      intro m hm; simp only [endpointMeta] at hm; split at hm
      · injection hm with hm; rw [← hm]
      · cases hm) h
    obtain ⟨hadd, ho, _, hg⟩ := exec_refundUsers_out hx
    obtain ⟨_, _, _, _, hle, _⟩ := (addUsersToBlacklist_ok_iff _ _ _ _).mp hadd
    have hev' : t.o.events = l.filterMap (blEvent s e) ++ [] := by
      rw [ho]; simp [blTx, txOf]
    have hlg := el_GHook_lg hg
    refine ⟨?_, ⟨_, hev', fun _ hh => by cases hh⟩, hle, congrArg EL_LG.userClaimed hlg,
      fun _ => congrArg EL_LG.bal hlg⟩
    rw [hev']; exact hfil _ (fun _ hh => by cases hh)

/-! ### the payment-token balance before the claims -/

theorem el_step_lpTok {hash : List Nat → List Nat} {s s' : State} {e : Env} {c : Call} {o : Out}
    (h : step hash s e c = .ok (s', o)) : s'.lpTok = s.lpTok := by
  rcases step_static_cases h with ⟨_, h1⟩ | ⟨_, h1⟩
  · exact terms_lpTok (static_terms h1)
  · rw [h1]; cases c <;> rfl

theorem el_deposit_bal {hash : List Nat → List Nat} {s s' : State} {e : Env} {o : Out}
    (h : step hash s e .deposit = .ok (s', o)) (hok : EnvOK e) {tok : Token}
    (ht : tok ≠ .esdt s.lpTok) : s'.bal tok 0 = s.bal tok 0 := by
  obtain ⟨m, t, _, _, _, hx, rfl, _⟩ := step_ok_inv h
  simp only [exec, bind_ok_iff, pure_ok_iff] at hx
  obtain ⟨s1, h1, rfl⟩ := hx
  have hb : s1.bal = (creditPayments s e).bal := congrArg EL_LG.bal (el_depositLaunchpadTokens_lg h1)
  show s1.bal tok 0 = _
  rw [hb]
  unfold depositLaunchpadTokens at h1
  simp only [bind_ok_iff, pure_ok_iff, req_ok_iff, exists_const, Prod.exists] at h1
  obtain ⟨_, tk, amt, hsf, htk, _, _⟩ := h1
  have htk' : tk = .esdt s.lpTok := by simpa [tx0, creditPayments] using htk
  unfold singleFungible at hsf
  unfold creditPayments
  cases hes : e.esdts with
  | nil => simp [hes] at hsf
  | cons p rest =>
    cases rest with
    | cons q r => simp [hes] at hsf
    | nil =>
      simp only [hes] at hsf
      split at hsf
      · rename_i hn0
        injection hsf with hsf
        injection hsf with hp1 hp2
        have hegld : e.egld = 0 := by
          rcases hok with h0 | h0
          · exact h0
          · rw [hes] at h0; cases h0
        have hne : tok ≠ p.tok := by rw [hp1, htk']; exact ht
        simp [hegld, Bal.add, hne]
      · cases hsf

/-- **one accepted transaction other than a claim / owner withdrawal, variant without NFTs**: the
    balance in any token other than the launchpad token moves by exactly the confirm payments in and
    the refunds out that the events report -/
theorem el_step_bal {hash : List Nat → List Nat} {s s' : State} {e : Env} {c : Call} {o : Out}
    (h : step hash s e c = .ok (s', o)) (hok : EnvOK e) (hn : s.variant.hasNft = false)
    (h1 : c ≠ .claim) (h2 : c ≠ .claimPayment) {tok : Token} (ht : tok ≠ .esdt s.lpTok) :
    s'.bal tok 0 + el_sum (el_refundAmt tok.code) o.events
      = s.bal tok 0 + el_sum (el_confirmPay tok.code) o.events := by
  have hbl : ∀ l, (c = .blacklist l ∨ c = .refundUsers l) →
      s'.bal tok 0 + el_sum (el_refundAmt tok.code) o.events
        = s.bal tok 0 + el_sum (el_confirmPay tok.code) o.events := by
    intro l hc
    obtain ⟨_, ⟨tail, hev, htail⟩, hle, _, hb⟩ := el_blacklist_out hc h
    obtain ⟨_, k2, k3⟩ := el_bl_refund_sums s e tok.code l
    have z1 : el_sum (el_refundAmt tok.code) tail = 0 :=
      el_sum_zero (fun ev hev => el_refundAmt_other (htail ev hev).1)
    have z2 : el_sum (el_confirmPay tok.code) tail = 0 :=
      el_sum_zero (fun ev hev => el_confirmPay_other (htail ev hev).2)
    rw [hev, el_sum_append, el_sum_append, k2, k3, z1, z2, hb hn]
    by_cases hq : tok = s.payTok
    · subst hq
      simp only [Bal.sub, and_self, if_true]
      omega
    · have hq' : ¬ s.payTok.code = tok.code := fun hh => hq (el_code_inj hh).symm
      simp [Bal.sub, hq, hq']
  cases c with
  | claim => exact absurd rfl h1
  | claimPayment => exact absurd rfl h2
  | blacklist l => exact hbl l (Or.inl rfl)
  | refundUsers l => exact hbl l (Or.inr rfl)
  | confirm n =>
    obtain ⟨total, hacc, hs, _⟩ := C07.confirm_effect hash s e n s' o h
    have hh := C07.confirm_holdings s e n total hacc hok
    obtain ⟨_, k2, _, k4⟩ := el_confirm_read h 0 tok.code
    have hb : s'.bal = s.bal.add s.payTok 0 (s.price * n) := by rw [hs]; exact hh
    rw [k2, k4, hb]
    by_cases hq : tok = s.payTok
    · subst hq
      simp [Bal.add]
    · have hq' : ¬ s.payTok.code = tok.code := fun hh => hq (el_code_inj hh).symm
      simp [Bal.add, hq, hq']
  | deposit =>
    have z1 : el_sum (el_refundAmt tok.code) o.events = 0 :=
      el_sum_zero (fun ev hev => el_refundAmt_other (el_no_name h (by simp [el_namesOf]) ev hev))
    have z2 : el_sum (el_confirmPay tok.code) o.events = 0 :=
      el_sum_zero (fun ev hev => el_confirmPay_other (el_no_name h (by simp [el_namesOf]) ev hev))
    rw [z1, z2, el_deposit_bal h hok ht]
  | confirmNft =>
    obtain ⟨m, t, hm, _⟩ := step_ok_inv h
    simp [endpointMeta, hn] at hm
  | issueSft =>
    obtain ⟨m, t, hm, _⟩ := step_ok_inv h
    simp [endpointMeta, hn] at hm
  | _ =>
    have hlg := el_step_lg h rfl rfl
    have z1 : el_sum (el_refundAmt tok.code) o.events = 0 :=
      el_sum_zero (fun ev hev => el_refundAmt_other (el_no_name h (by simp [el_namesOf]) ev hev))
    have z2 : el_sum (el_confirmPay tok.code) o.events = 0 :=
      el_sum_zero (fun ev hev => el_confirmPay_other (el_no_name h (by simp [el_namesOf]) ev hev))
    rw [z1, z2, el_lg_bal hlg]

theorem el_isClaim_false {x : Entry} (h : x.isClaim = false) : x.2.1 ≠ .claim ∧ x.2.1 ≠ .claimPayment := by
  obtain ⟨e, c, o⟩ := x
  cases c <;> simp_all [Entry.isClaim]

/-- **balance along a chain without claims**, variant without NFTs: for every token other than the
    launchpad token, balance + Σ refund amounts = initial balance + Σ confirm payments -/
theorem el_chain_bal {hash : List Nat → List Nat} {s s' : State} {l : List Entry}
    (h : LogChain hash s l s') (hok : ∀ x ∈ l, EnvOK x.1) (hn : s.variant.hasNft = false)
    (hcl : ∀ x ∈ l, x.isClaim = false) {tok : Token} (ht : tok ≠ .esdt s.lpTok) :
    s'.bal tok 0 + el_sum (el_refundAmt tok.code) (el_events l)
      = s.bal tok 0 + el_sum (el_confirmPay tok.code) (el_events l) := by
  induction h with
  | nil s => simp [el_events_nil]
  | @cons s s1 s2 e c o l hst _ ih =>
    obtain ⟨c1, c2⟩ := el_isClaim_false (hcl _ (List.mem_cons_self ..))
    have k1 := el_step_bal hst (hok _ (List.mem_cons_self ..)) hn c1 c2 ht
    have k2 := ih (fun x hx => hok x (List.mem_cons_of_mem _ hx))
      (by rw [be_variant_step hst]; exact hn)
      (fun x hx => hcl x (List.mem_cons_of_mem _ hx)) (by rw [el_step_lpTok hst]; exact ht)
    rw [el_events_cons, el_sum_append, el_sum_append]
    simp only at k1 k2 ⊢
    omega

/-! ### completion events -/

/-- number of events with a given name -/
def el_nameCount (n : String) (evs : List Ev) : Nat := evs.countP (fun ev => ev.name == n)

theorem el_nameCount_append (n : String) (a b : List Ev) :
    el_nameCount n (a ++ b) = el_nameCount n a + el_nameCount n b := by
  simp [el_nameCount]

theorem el_nameCount_zero {hash : List Nat → List Nat} {s s' : State} {e : Env} {c : Call} {o : Out}
    (h : step hash s e c = .ok (s', o)) {n : String} (hn : n ∉ el_namesOf c) :
    el_nameCount n o.events = 0 := by
  unfold el_nameCount
  rw [List.countP_eq_zero]
  intro ev hev
  simpa using el_no_name h hn ev hev

/-- `filterTicketsCompleted` is emitted exactly by a completed `filter`, once, with the new
    `lastTicketId` -/
theorem el_filter_entry {hash : List Nat → List Nat} {s s' : State} {e : Env} {c : Call} {o : Out}
    (h : step hash s e c = .ok (s', o)) :
    el_nameCount "filterTicketsCompleted" o.events = (if Entry.doneFilter (e, c, o) = true then 1 else 0) ∧
    (Entry.doneFilter (e, c, o) = true →
      o.events = [⟨"filterTicketsCompleted", [e.caller, e.round, e.epoch],
                   [e.caller, e.round, e.epoch, s'.lastTicketId]⟩]) := by
  cases c with
  | filter =>
    obtain ⟨hr, h0, h1, _⟩ := filter_event hash s e s' o h
    rcases hr with hr | hr
    · have hd : Entry.doneFilter (e, Call.filter, o) = true := by simp [Entry.doneFilter, Out.done, hr]
      rw [(h0 hr).1]
      exact ⟨by simp [el_nameCount, hd], fun _ => rfl⟩
    · have hd : Entry.doneFilter (e, Call.filter, o) = false := by simp [Entry.doneFilter, Out.done, hr]
      rw [(h1 hr).1]
      exact ⟨by simp [el_nameCount, hd], fun hh => by rw [hd] at hh; cases hh⟩
  | _ =>
    refine ⟨?_, fun hh => by simp [Entry.doneFilter] at hh⟩
    rw [el_nameCount_zero h (by simp [el_namesOf])]
    simp [Entry.doneFilter]

/-- `selectWinnersCompleted` is emitted exactly by a completed `select`, once, with `nrWinning` -/
theorem el_select_entry {hash : List Nat → List Nat} {s s' : State} {e : Env} {c : Call} {o : Out}
    (h : step hash s e c = .ok (s', o)) :
    el_nameCount "selectWinnersCompleted" o.events = (if Entry.doneSelect (e, c, o) = true then 1 else 0) ∧
    (Entry.doneSelect (e, c, o) = true →
      o.events = [⟨"selectWinnersCompleted", [e.caller, e.round, e.epoch],
                   [e.caller, e.round, e.epoch, s'.nrWinning]⟩]) := by
  cases c with
  | select =>
    obtain ⟨hr, h0, h1, hnw, _⟩ := select_event hash s e s' o h
    rcases hr with hr | hr
    · have hd : Entry.doneSelect (e, Call.select, o) = true := by simp [Entry.doneSelect, Out.done, hr]
      rw [(h0 hr).1, hnw]
      exact ⟨by simp [el_nameCount, hd], fun _ => rfl⟩
    · have hd : Entry.doneSelect (e, Call.select, o) = false := by simp [Entry.doneSelect, Out.done, hr]
      rw [(h1 hr).1]
      exact ⟨by simp [el_nameCount, hd], fun hh => by rw [hd] at hh; cases hh⟩
  | _ =>
    refine ⟨?_, fun hh => by simp [Entry.doneSelect] at hh⟩
    rw [el_nameCount_zero h (by simp [el_namesOf])]
    simp [Entry.doneSelect]

/-- `distributeGuaranteedTicketsCompleted` is emitted only by a completed `distribute` of v2, once,
    carrying the number of additional winning tickets (`nrWinning' = nrWinning + add`) -/
theorem el_distribute_entry {hash : List Nat → List Nat} {s s' : State} {e : Env} {c : Call} {o : Out}
    (h : step hash s e c = .ok (s', o)) :
    el_nameCount "distributeGuaranteedTicketsCompleted" o.events
      = (if s.variant.isV2 = true ∧ Entry.doneAdditional (e, c, o) = true then 1 else 0) ∧
    (s.variant.isV2 = true → Entry.doneAdditional (e, c, o) = true →
      ∃ add, s'.nrWinning = s.nrWinning + add ∧
        o.events = [⟨"distributeGuaranteedTicketsCompleted", [e.caller, e.round, e.epoch],
                     [e.caller, e.round, e.epoch, add]⟩]) := by
  cases c with
  | distribute =>
    obtain ⟨hr, h0, h1, _⟩ := distribute_event hash s e s' o h
    rcases hr with hr | hr
    · have hd : Entry.doneAdditional (e, Call.distribute, o) = true := by
        simp [Entry.doneAdditional, Call.isAdditional, Out.done, hr]
      obtain ⟨add, hnw, _, _, hE⟩ := h0 hr
      rw [hE]
      cases hv : s.variant.isV2 with
      | true => exact ⟨by simp [el_nameCount, hd], fun _ _ => ⟨add, hnw, by simp⟩⟩
      | false => exact ⟨by simp [el_nameCount], fun hh => by cases hh⟩
    · have hd : Entry.doneAdditional (e, Call.distribute, o) = false := by
        simp [Entry.doneAdditional, Call.isAdditional, Out.done, hr]
      rw [(h1 hr).1]
      exact ⟨by simp [el_nameCount, hd], fun _ hh => by rw [hd] at hh; cases hh⟩
  | selectNft =>
    obtain ⟨m, t, hm, _⟩ := step_ok_inv h
    have hv : s.variant.isV2 = false := by
      cases hvv : s.variant <;> simp [endpointMeta, hvv] at hm <;> rfl
    refine ⟨?_, fun hh => by rw [hv] at hh; cases hh⟩
    rw [el_nameCount_zero h (by simp [el_namesOf])]
    simp [hv]
  | secondary =>
    obtain ⟨m, t, hm, _⟩ := step_ok_inv h
    have hv : s.variant.isV2 = false := by
      cases hvv : s.variant <;> simp [endpointMeta, hvv] at hm <;> rfl
    refine ⟨?_, fun hh => by rw [hv] at hh; cases hh⟩
    rw [el_nameCount_zero h (by simp [el_namesOf])]
    simp [hv]
  | _ =>
    refine ⟨?_, fun _ hh => by simp [Entry.doneAdditional, Call.isAdditional] at hh⟩
    rw [el_nameCount_zero h (by simp [el_namesOf])]
    simp [Entry.doneAdditional, Call.isAdditional]

theorem el_count_filter {hash : List Nat → List Nat} {s s' : State} {l : List Entry}
    (h : LogChain hash s l s') :
    el_nameCount "filterTicketsCompleted" (el_events l) = l.countP Entry.doneFilter := by
  induction h with
  | nil s => rfl
  | @cons s s1 s2 e c o l hst _ ih =>
    rw [el_events_cons, el_nameCount_append, ih, (el_filter_entry hst).1, List.countP_cons]
    omega

theorem el_count_select {hash : List Nat → List Nat} {s s' : State} {l : List Entry}
    (h : LogChain hash s l s') :
    el_nameCount "selectWinnersCompleted" (el_events l) = l.countP Entry.doneSelect := by
  induction h with
  | nil s => rfl
  | @cons s s1 s2 e c o l hst _ ih =>
    rw [el_events_cons, el_nameCount_append, ih, (el_select_entry hst).1, List.countP_cons]
    omega

theorem el_count_distribute {hash : List Nat → List Nat} {s s' : State} {l : List Entry}
    (h : LogChain hash s l s') :
    el_nameCount "distributeGuaranteedTicketsCompleted" (el_events l) ≤ l.countP Entry.doneAdditional := by
  induction h with
  | nil s => exact Nat.le_refl _
  | @cons s s1 s2 e c o l hst _ ih =>
    rw [el_events_cons, el_nameCount_append, (el_distribute_entry hst).1, List.countP_cons]
    skip
    split <;> rename_i hq
    · rw [if_pos hq.2]; omega
    · split <;> omega

/-- an interrupted selection call (`ret = [1]`) emits no event at all -/
theorem el_interrupted_silent {hash : List Nat → List Nat} {s s' : State} {e : Env} {c : Call} {o : Out}
    (h : step hash s e c = .ok (s', o)) (hc : c.isSelection = true) (hr : o.ret = [1]) :
    o.events = [] := by
  cases c <;> simp only [Call.isSelection, Bool.false_eq_true] at hc
  · exact ((filter_event hash s e s' o h).2.2.1 hr).1
  · exact ((select_event hash s e s' o h).2.2.1 hr).1
  · exact ((distribute_event hash s e s' o h).2.2.1 hr).1
  · exact C20frame.no_events_of_not_emitting hash s s' e _ o h rfl (by intro hh; cases hh) (by intro hh; cases hh)
  · exact C20frame.no_events_of_not_emitting hash s s' e _ o h rfl (by intro hh; cases hh) (by intro hh; cases hh)

/-! ### v2: the claim events add up to `userClaimed` -/

theorem el_step_uc_of_keeps {hash : List Nat → List Nat} {s s' : State} {e : Env} {c : Call} {o : Out}
    (h : step hash s e c = .ok (s', o)) (hk : el_keepsLG c = true) : s'.userClaimed = s.userClaimed := by
  obtain ⟨m, t, _, _, _, hx, rfl, _⟩ := step_ok_inv h
  exact congrArg EL_LG.userClaimed (el_exec_lg hk hx)

theorem el_step_userClaimed {hash : List Nat → List Nat} {s s' : State} {e : Env} {c : Call} {o : Out}
    (hv : s.variant = .guarV2) (h : step hash s e c = .ok (s', o)) (a : Nat) :
    s'.userClaimed a = s.userClaimed a + el_sum (el_claimAmt a) o.events := by
  have hzero : "claimLaunchpadTokens" ∉ el_namesOf c → el_sum (el_claimAmt a) o.events = 0 := fun hn =>
    el_sum_zero (fun ev hev => el_claimAmt_other (el_no_name h hn ev hev))
  obtain ⟨hvest, _, hv2, _⟩ := v2_flags hv
  cases c with
  | claim =>
    obtain ⟨t, hx, rfl, rfl⟩ := step_nopay_inv (by intro m hm; simp [endpointMeta] at hm; rw [← hm]) h
    have hvest' : (txOf s e).s.variant.vested = true := hvest
    simp only [exec, hvest', if_true] at hx
    obtain ⟨_, _, _, _, _, hoth, _⟩ := claimVested_inv hx
    obtain ⟨c, rf, k1, _, _, k4⟩ := vv_claim_out (s := s) (e := e) hv2 hx
    rw [k4, el_sum_append]
    have z1 : el_sum (el_claimAmt a) (if rf > 0 then [refundEv s e rf] else []) = 0 := by
      split <;> simp [el_sum, el_claimAmt, refundEv]
    rw [z1]
    by_cases hq : a = e.caller
    · subst hq
      rw [k1]
      by_cases hc0 : c > 0
      · simp [hc0, el_sum, el_claimAmt, claimEv, el_fld]
      · have : c = 0 := by omega
        subst this; simp
    · have hoth' := hoth a hq
      have hq' : ¬ e.caller = a := fun hh => hq hh.symm
      have z2 : el_sum (el_claimAmt a) (if c > 0 then [claimEv s e c] else []) = 0 := by
        split <;> simp [el_sum, el_claimAmt, claimEv, el_fld, hq']
      rw [z2, hoth']; rfl
  | claimPayment =>
    rw [hzero (by simp [el_namesOf])]
    obtain ⟨m, t, _, _, _, hx, rfl, _⟩ := step_ok_inv h
    have hvest' : (tx0 s e).s.variant.vested = true := hvest
    simp only [exec, hvest', if_true] at hx
    have := el_claimPaymentOwn_uc hx
    show t.s.userClaimed a = _
    rw [show t.s.userClaimed = (tx0 s e).s.userClaimed from this]; rfl
  | blacklist l =>
    rw [hzero (by simp [el_namesOf]), (el_blacklist_out (Or.inl rfl) h).2.2.2.1]; rfl
  | refundUsers l =>
    rw [hzero (by simp [el_namesOf]), (el_blacklist_out (Or.inr rfl) h).2.2.2.1]; rfl
  | _ =>
    rw [hzero (by simp [el_namesOf]), el_step_uc_of_keeps h rfl]; rfl

theorem el_chain_userClaimed {hash : List Nat → List Nat} {s s' : State} {l : List Entry}
    (h : LogChain hash s l s') (hv : s.variant = .guarV2) (a : Nat) :
    s'.userClaimed a = s.userClaimed a + el_sum (el_claimAmt a) (el_events l) := by
  induction h with
  | nil s => simp [el_events_nil]
  | @cons s s1 s2 e c o l hst _ ih =>
    have k1 := el_step_userClaimed hv hst a
    have k2 := ih ((be_variant_step hst).trans hv)
    rw [el_events_cons, el_sum_append]
    simp only at k1 k2 ⊢
    omega

/-! ### the last `setTicketPrice` event carries price and token -/

/-- the last price-change event of a list -/
def el_lastSet (evs : List Ev) : Option Ev := (evs.filter (fun ev => ev.name == "setTicketPrice")).getLast?

/-- (price, code of the payment token) after a list of events: what the last `setTicketPrice` event
    carries (payload `[caller, round, epoch, token, nonce, amount]`), else unchanged -/
def el_priceAfter (p : Nat × Nat) (evs : List Ev) : Nat × Nat :=
  match el_lastSet evs with
  | some ev => (el_fld ev 5, el_fld ev 3)
  | none => p

theorem el_priceAfter_append (p : Nat × Nat) (a b : List Ev) :
    el_priceAfter p (a ++ b) = el_priceAfter (el_priceAfter p a) b := by
  unfold el_priceAfter el_lastSet
  rw [List.filter_append, List.getLast?_append]
  cases (b.filter (fun ev => ev.name == "setTicketPrice")).getLast? <;> simp [Option.or]

theorem el_step_price {hash : List Nat → List Nat} {s s' : State} {e : Env} {c : Call} {o : Out}
    (h : step hash s e c = .ok (s', o)) :
    (s'.price, s'.payTok.code) = el_priceAfter (s.price, s.payTok.code) o.events := by
  by_cases hc : ∃ tok a, c = .setTicketPrice tok a
  · obtain ⟨tok, a, rfl⟩ := hc
    obtain ⟨hE, h1, h2, _⟩ := setTicketPrice_exact hash s e tok a s' o h
    rw [hE, h1, h2]
    simp [el_priceAfter, el_lastSet, el_fld]
  · have hnone : el_lastSet o.events = none := by
      unfold el_lastSet
      have : o.events.filter (fun ev => ev.name == "setTicketPrice") = [] := by
        rw [List.filter_eq_nil_iff]
        intro ev hev
        have := el_no_name h (n := "setTicketPrice")
          (by cases c <;> first | (exact absurd ⟨_, _, rfl⟩ hc) | simp [el_namesOf]) ev hev
        simpa using this
      rw [this]; rfl
    have hsame : s'.price = s.price ∧ s'.payTok = s.payTok := by
      rcases step_static_cases h with ⟨_, h1⟩ | ⟨_, h1⟩
      · exact ⟨terms_price (static_terms h1), terms_payTok (static_terms h1)⟩
      · rw [h1]
        cases c <;> first | exact ⟨rfl, rfl⟩ | (exact absurd ⟨_, _, rfl⟩ hc)
    unfold el_priceAfter
    rw [hnone, hsame.1, hsame.2]

theorem el_chain_price {hash : List Nat → List Nat} {s s' : State} {l : List Entry}
    (h : LogChain hash s l s') :
    (s'.price, s'.payTok.code) = el_priceAfter (s.price, s.payTok.code) (el_events l) := by
  induction h with
  | nil s => rfl
  | @cons s s1 s2 e c o l hst _ ih =>
    rw [el_events_cons, el_priceAfter_append, ← el_step_price hst]
    exact ih

/-! ### deployment -/

/-- a freshly deployed contract holds nothing, has booked no vesting claim, and has the price and the
    tokens of the deployment arguments -/
theorem el_init_ledger {v : Variant} {a : InitArgs} {e : Env} {s : State} (h : init v a e = .ok s) :
    s.bal = (fun _ _ => 0) ∧ s.userClaimed = (fun _ => 0) ∧ s.price = a.price ∧ s.payTok = a.payTok ∧
    s.lpTok = a.lpTok := by
  unfold init at h
  cases v <;>
    simp only [Variant.hasNft, Variant.v1Alloc, Variant.hasLock, bind_ok_iff, req_ok_iff, pure_ok_iff, pure_bind,
      exists_const, if_true, if_false, Bool.false_eq_true, beq_self_eq_true, reduceCtorEq, decide_eq_true_eq,
      bne_iff_ne, ne_eq, not_false_eq_true, beq_iff_eq, bne_self_eq_false] at h
  all_goals
    repeat (cases h with | intro _ h)
    subst h
    exact ⟨rfl, rfl, rfl, rfl, rfl⟩

theorem el_has_name_count {n : String} {evs : List Ev} (h : ∃ ev ∈ evs, ev.name = n) :
    0 < el_nameCount n evs := by
  obtain ⟨ev, hev, hn⟩ := h
  unfold el_nameCount
  rw [List.countP_pos_iff]
  exact ⟨ev, hev, by simp [hn]⟩

end LP

#print axioms LP.el_names
#print axioms LP.el_replay_chain
#print axioms LP.el_confirmed_sum
#print axioms LP.el_chain_bal
#print axioms LP.el_count_filter
#print axioms LP.el_chain_userClaimed
#print axioms LP.el_chain_price
