import LP.Proofs.ReachG1Claim
/-
  LP.Proofs.ReachG1Base — reachable states of `Variant.guarV1` (launchpad-guaranteed-tickets) and
  the inductive invariant `g1_WF` over them:

      g1_init_WF   (LP/Proofs/ReachG1WF.lean)   deployment establishes `g1_WF`
      g1_call_WF                                  every accepted call keeps `g1_WF`
      g1_wait_WF   (LP/Proofs/ReachG1WF.lean)   the passing of time keeps `g1_WF`
      g1_reach_WF                                 hence `g1_WF` holds in every reachable state

  RESTRICTION (explicit in the `call` constructor through `v1_CallOK`, the same as for the other
  v1 guaranteed-ticket launchpads): every entry of an `addTicketsV1` call allocates at least one
  ticket, `1 ≤ staking + energy`.  Nothing else is restricted: `distribute`, `filter` and `select`
  may be interrupted by ANY budget; `setSchedule1` may be called at any time (the contract itself
  rejects it once the confirmation period has started and a schedule is stored).
-/
namespace LP
open LP.FY

/-- the endpoints `guarV1` does not expose are rejected by the dispatcher -/
theorem g1_exposed {hash : List Nat → List Nat} {s s' : State} {e : Env} {c : Call} {o : Out}
    (hv : s.variant = .guarV1) (hs : step hash s e c = .ok (s', o)) :
    match c with
    | .addTickets _ | .addTicketsV2 _ | .refundUsers _
    | .setSchedule2 _ | .confirmNft | .selectNft | .secondary | .setNftCost _
    | .issueSft | .createSfts | .setTransferRole _ | .sftSetup => False
    | _ => True := by
  obtain ⟨m, t, hm, _⟩ := step_ok_inv hs
  rw [hv] at hm
  cases c <;> first | trivial | (simp [endpointMeta, Variant.v1Alloc, Variant.isV2, Variant.hasUnblacklist, Variant.hasGuaranteed, Variant.hasNft] at hm)

/-- **preservation**: every accepted call keeps the invariant -/
theorem g1_call_WF {T0 : Nat} {hash : List Nat → List Nat} {s s' : State} {e : Env} {c : Call}
    {o : Out} {r : Nat} (h : g1_WF T0 s r) (hr : r ≤ e.round) (hok : EnvOK e) (hc : v1_CallOK c)
    (hs : step hash s e c = .ok (s', o)) : g1_WF T0 s' e.round := by
  have hex := g1_exposed h.var hs
  cases c with
  | addTicketsV1 l => exact g1_addTicketsV1 h hr hc hs
  | deposit => exact g1_deposit h hr hok hs
  | setTicketPrice tok a => exact g1_setTicketPrice h hr hs
  | setPerTicket a => exact g1_setPerTicket h hr hs
  | setConfStart x => exact g1_setConfStart h hr hs
  | setSelStart x => exact g1_setSelStart h hr hs
  | setClaimStart x => exact g1_setClaimStart h hr hs
  | setSupport a => exact g1_setSupport h hr hs
  | pause => exact g1_pause h hr hs
  | unpause => exact g1_unpause h hr hs
  | confirm n => exact g1_confirm h hr hok hs
  | filter => exact g1_filter h hr hs
  | select => exact g1_select h hr hs
  | distribute => exact g1_distribute h hr hs
  | claim => exact g1_claim h hr hs
  | claimPayment => exact g1_claimPayment h hr hs
  | blacklist l => exact g1_blacklist h hr hs
  | unblacklist l => exact g1_unblacklist h hr hs
  | setSchedule1 a b c d f => exact g1_setSchedule1 h hr hs
  | _ => exact absurd hex id

/-! ### reachable states -/

/-- states reachable from a deployment with arguments `a0`, paired with the round of the latest
    transaction (`wait` lets rounds pass without a transaction) -/
inductive g1_ReachA (hash : List Nat → List Nat) (a0 : InitArgs) : State → Nat → Prop
  | init (e : Env) (s : State) : init .guarV1 a0 e = .ok s → g1_ReachA hash a0 s e.round
  | call (s : State) (r : Nat) (e : Env) (c : Call) (s' : State) (o : Out) :
      g1_ReachA hash a0 s r → r ≤ e.round → EnvOK e → v1_CallOK c →
      step hash s e c = .ok (s', o) → g1_ReachA hash a0 s' e.round
  | wait (s : State) (r r' : Nat) : g1_ReachA hash a0 s r → r ≤ r' → g1_ReachA hash a0 s r'

/-- states reachable by the launchpad-guaranteed-tickets contract from any deployment -/
inductive g1_Reach (hash : List Nat → List Nat) : State → Nat → Prop
  | init (a : InitArgs) (e : Env) (s : State) : init .guarV1 a e = .ok s → g1_Reach hash s e.round
  | call (s : State) (r : Nat) (e : Env) (c : Call) (s' : State) (o : Out) :
      g1_Reach hash s r → r ≤ e.round → EnvOK e → v1_CallOK c →
      step hash s e c = .ok (s', o) → g1_Reach hash s' e.round
  | wait (s : State) (r r' : Nat) : g1_Reach hash s r → r ≤ r' → g1_Reach hash s r'

theorem g1_Reach_iff {hash : List Nat → List Nat} {s : State} {r : Nat} :
    g1_Reach hash s r ↔ ∃ a0, g1_ReachA hash a0 s r := by
  constructor
  · intro h
    induction h with
    | init a e s h => exact ⟨a, .init e s h⟩
    | call s r e c s' o _ h1 h2 h3 h4 ih =>
      obtain ⟨a0, ih⟩ := ih
      exact ⟨a0, .call s r e c s' o ih h1 h2 h3 h4⟩
    | wait s r r' _ h1 ih =>
      obtain ⟨a0, ih⟩ := ih
      exact ⟨a0, .wait s r r' ih h1⟩
  · rintro ⟨a0, h⟩
    induction h with
    | init e s h => exact .init a0 e s h
    | call s r e c s' o _ h1 h2 h3 h4 ih => exact .call s r e c s' o ih h1 h2 h3 h4
    | wait s r r' _ h1 ih => exact .wait s r r' ih h1

/-- the invariant holds in every reachable state -/
theorem g1_reach_WF {hash : List Nat → List Nat} {a0 : InitArgs}
    {s : State} {r : Nat} (h : g1_ReachA hash a0 s r) : g1_WF a0.nrWinning s r := by
  induction h with
  | init e s h => exact g1_init_WF h
  | call s r e c s' o _ h1 h2 h3 h4 ih => exact g1_call_WF ih h1 h2 h3 h4
  | wait s r r' _ h1 ih => exact g1_wait_WF ih h1

/-! ### the ledger read off the invariant -/

theorem g1_WF_ledger {T0 : Nat} {s : State} {r : Nat} (h : g1_WF T0 s r) :
    ∃ L : List Nat, Covers s L ∧ (¬ AllDone s → PayEqPre s L) ∧
      (AllDone s → PayEqPost s L ∧ sumOver (winCountOf s) L = s.nrWinning ∧
        (∀ a, winCountOf s a ≤ s.confirmed a) ∧
        (∀ a rg, s.range a = some rg → a ∈ L ∧ rg.first ≤ rg.last ∧
          rg.last + 1 = rg.first + s.confirmed a)) := by
  have key : ∀ Ls : List (Nat × Nat), (Ls.map Prod.fst).Nodup →
      (∀ a, a ∉ Ls.map Prod.fst → s.confirmed a = 0) → PayPre s.core (Ls.map Prod.fst) →
      s.flags.additional = false →
      ∃ L : List Nat, Covers s L ∧ (¬ AllDone s → PayEqPre s L) ∧
        (AllDone s → PayEqPost s L ∧ sumOver (winCountOf s) L = s.nrWinning ∧
          (∀ a, winCountOf s a ≤ s.confirmed a) ∧
          (∀ a rg, s.range a = some rg → a ∈ L ∧ rg.first ≤ rg.last ∧
            rg.last + 1 = rg.first + s.confirmed a)) := by
    intro Ls hnd hout hpay hna
    refine ⟨Ls.map Prod.fst, ⟨hnd, ?_⟩, fun _ => hpay, ?_⟩
    · intro a ha
      apply Classical.byContradiction
      intro hin
      exact ha (hout a hin)
    · intro hd
      have h1 : s.flags.additional = true := hd.2
      rw [hna] at h1; cases h1
  rcases h.phase with ⟨hna, _, ⟨L0, hp, _⟩ | ⟨hC, _⟩ | hE⟩ | ⟨ha, hD⟩
  · exact key L0 hp.ok.nodup hp.outC hp.pay hna
  · obtain ⟨Ls, hnd, _, _, _, hout, hpay⟩ := hC.alloc
    exact key Ls hnd (fun a ha => (hout a ha).2) hpay hna
  · obtain ⟨Ls, hnd, _, _, _, hout, hpay⟩ := hE.alloc
    exact key Ls hnd (fun a ha => (hout a ha).2) hpay hna
  · obtain ⟨L, hnd, hsupp, hpost, hwin⟩ := hD.led
    refine ⟨L, ⟨hnd, hsupp⟩, ?_, fun _ => ⟨(rb_PayPost_iff s L).mpr hpost, hwin, ?_, ?_⟩⟩
    · intro hnd
      exact absurd ⟨hD.selected, ha⟩ hnd
    · intro a
      show winOf s.range s.status a ≤ s.confirmed a
      cases hr : s.range a with
      | none => simp [winOf, hr]
      | some rg => exact rb_winOf_le hr (hD.rngOk a rg hr).2
    · intro a rg hr
      obtain ⟨h1, h2⟩ := hD.rngOk a rg hr
      have h2' : rg.last + 1 = rg.first + s.confirmed a := h2
      exact ⟨hsupp a (by show s.confirmed a ≠ 0; omega), h1, h2'⟩

end LP

#print axioms LP.g1_init_WF
#print axioms LP.g1_call_WF
#print axioms LP.g1_wait_WF
#print axioms LP.g1_reach_WF
