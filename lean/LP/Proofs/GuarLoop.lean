import LP.Proofs.Reserve
/-
  LP.Proofs.GuarLoop — the first loop of the distribution step (`guarBody`): one iteration
  and the whole loop (B4).
-/
namespace LP

/-- facts about `processGuaranteed` for an arbitrary (possibly absent) range -/
theorem processGuaranteed_any (status : Nat → Bool) (range : Option Range) (g : Nat) :
    (processGuaranteed status range g).2.1 + (processGuaranteed status range g).2.2 = g ∧
    (∀ t, (∀ r, range = some r → t < r.first ∨ r.first + rangeLen r ≤ t) →
      (processGuaranteed status range g).1 t = status t) ∧
    (∀ t, status t = true → (processGuaranteed status range g).1 t = true) := by
  cases range with
  | none => exact ⟨rfl, fun _ _ => rfl, fun _ h => h⟩
  | some r =>
    obtain ⟨h1, _, _, _, h5, h6⟩ := processGuaranteed_some_general status r g
    exact ⟨h1, fun t ht => h5 t (ht r rfl), h6⟩

/-- one iteration of the loop that honours the guarantees -/
theorem guarBody_step (s : State) (x : GSt) (u : Nat) (rest : List Nat)
    (hwl : x.whitelist = u :: rest) (hul : x.usersLeft ≠ 0) :
    ∃ x', guarBody s x = .ok (x', true) ∧
      x'.whitelist = (swapRemove x.whitelist u).1 ∧
      x'.whitelist.length + 1 = x.whitelist.length ∧
      x'.usersLeft = x.usersLeft - 1 ∧
      x'.leftover + x'.additional =
        x.leftover + x.additional + gOf s.variant.isV2 ((s.uts u).getD {}) ∧
      (∀ t, (∀ r, s.range u = some r → t < r.first ∨ r.first + rangeLen r ≤ t) →
        x'.status t = x.status t) ∧
      (∀ t, x.status t = true → x'.status t = true) := by
  obtain ⟨wl, ul, status, lo, add⟩ := x
  simp only at hwl hul
  subst hwl
  have hlen : (swapRemove (u :: rest) u).1.length + 1 = (u :: rest).length :=
    swapRemove_length (List.mem_cons_self ..)
  unfold guarBody
  simp only [hul, if_false]
  cases huts : s.uts u with
  | none =>
    exact ⟨_, rfl, rfl, hlen, rfl, by simp, fun _ _ => rfl, fun _ h => h⟩
  | some st =>
    simp only [Option.getD_some]
    have hsum : (if s.variant.isV2 = true then calcV2 st.infos (s.confirmed u)
          else calcV1 st (s.confirmed u) s.minConfirmed).1 +
        (if s.variant.isV2 = true then calcV2 st.infos (s.confirmed u)
          else calcV1 st (s.confirmed u) s.minConfirmed).2 = gOf s.variant.isV2 st := by
      cases s.variant.isV2
      · simp only [Bool.false_eq_true, if_false, gOf_false]; exact calcV1_sum _ _ _
      · simp only [if_true, gOf_true]; exact calcV2_sum _ _
    generalize (if s.variant.isV2 = true then calcV2 st.infos (s.confirmed u)
          else calcV1 st (s.confirmed u) s.minConfirmed) = p at hsum
    obtain ⟨g, l⟩ := p
    simp only at hsum ⊢
    split
    · obtain ⟨h1, h2, h3⟩ := processGuaranteed_any status (s.range u) g
      generalize processGuaranteed status (s.range u) g = q at h1 h2 h3
      obtain ⟨st', lo', add'⟩ := q
      simp only at h1 h2 h3 ⊢
      exact ⟨_, rfl, rfl, hlen, rfl, by simp only; omega, h2, h3⟩
    · exact ⟨_, rfl, rfl, hlen, rfl, by simp only; omega, fun _ _ => rfl, fun _ h => h⟩

/-- the whole first loop, never interrupted: it completes within `whitelist.length + 1`
    iterations, empties the work list, and `leftover + additional` grows by the sum of all
    guarantees; flags change only inside the ranges of the whitelisted users -/
theorem guarLoop_total (s : State) (n : Nat) : ∀ (x : GSt) (fuel : Nat),
    x.whitelist.length = n → x.usersLeft = n → fuel ≥ n + 1 →
    ∃ x', runWhile (guarBody s) fuel none x = .ok (x', none, .completed) ∧
      x'.whitelist = [] ∧
      x'.leftover + x'.additional =
        x.leftover + x.additional + gSum s.variant.isV2 s.uts x.whitelist ∧
      (∀ t, (∀ u ∈ x.whitelist, ∀ r, s.range u = some r →
          t < r.first ∨ r.first + rangeLen r ≤ t) → x'.status t = x.status t) ∧
      (∀ t, x.status t = true → x'.status t = true) := by
  induction n with
  | zero =>
    intro x fuel hl hu hf
    obtain ⟨f, rfl⟩ : ∃ f, fuel = f + 1 := ⟨fuel - 1, by omega⟩
    have hnil : x.whitelist = [] := List.eq_nil_of_length_eq_zero hl
    refine ⟨x, ?_, hnil, by simp [hnil], fun _ _ => rfl, fun _ h => h⟩
    simp [runWhile, guarBody, hu]
  | succ n ih =>
    intro x fuel hl hu hf
    obtain ⟨f, rfl⟩ : ∃ f, fuel = f + 1 := ⟨fuel - 1, by omega⟩
    obtain ⟨u, rest, hwl⟩ : ∃ u rest, x.whitelist = u :: rest := by
      cases hq : x.whitelist with
      | nil => rw [hq] at hl; cases hl
      | cons u rest => exact ⟨u, rest, rfl⟩
    obtain ⟨x1, e1, e2, e3, e4, e5, e6, e7⟩ := guarBody_step s x u rest hwl (by omega)
    obtain ⟨x', f1, f2, f3, f4, f5⟩ := ih x1 f (by omega) (by omega) (by omega)
    refine ⟨x', ?_, f2, ?_, ?_, ?_⟩
    · simp only [runWhile, e1]; exact f1
    · rw [f3, e5, e2, gSum_perm _ _ (swapRemove_perm _ _), hwl, gSum_cons]
      simp only [List.erase_cons_head]
      omega
    · intro t ht
      rw [f4 t, e6 t]
      · intro r hr; exact ht u (by rw [hwl]; exact List.mem_cons_self ..) r hr
      · intro v hv r hr
        rw [e2, (swapRemove_perm _ _).mem_iff] at hv
        exact ht v (List.mem_of_mem_erase hv) r hr
    · intro t ht; exact f5 t (e7 t ht)

end LP
