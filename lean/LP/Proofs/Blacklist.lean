import LP.Proofs.Events
/-
  Helper lemmas for C10 (blacklisting): per-user view of the refund transfers, frames of the
  allocation loops, the invariant "blacklisted ⇒ nothing confirmed".
-/
namespace LP.Events

/-! ### per-user view of the refund transfers -/

theorem blXfer_fst {s : State} {a : Nat} {p : Nat × Pay} (h : blXfer s a = some p) : p.1 = a := by
  unfold blXfer at h
  split at h
  · injection h with h; subst h; rfl
  · cases h

/-- in a duplicate-free list the refund transfers addressed to `u` are exactly `blXfer s u` -/
theorem blXfer_filter (s : State) (u : Nat) : ∀ (l : List Nat), l.Nodup → u ∈ l →
    (l.filterMap (blXfer s)).filter (fun x => x.1 = u) = (blXfer s u).toList := by
  have hnot : ∀ (l : List Nat), u ∉ l → (l.filterMap (blXfer s)).filter (fun x => x.1 = u) = [] := by
    intro l hu
    rw [List.filter_eq_nil_iff]
    intro x hx
    obtain ⟨a, ha, hax⟩ := List.mem_filterMap.mp hx
    have := blXfer_fst hax
    simp only [decide_eq_true_eq]
    intro hxu
    exact hu (by rw [← hxu, this]; exact ha)
  intro l
  induction l with
  | nil => intro _ hu; cases hu
  | cons a rest ih =>
    intro hnd hu
    obtain ⟨ha, hnd'⟩ := List.nodup_cons.mp hnd
    rcases List.mem_cons.mp hu with rfl | hu'
    · simp only [List.filterMap_cons]
      cases hx : blXfer s u with
      | none => simpa using hnot rest ha
      | some p =>
        have hp : p.1 = u := blXfer_fst hx
        simp only [List.filter_cons, hp, decide_true, ↓reduceIte, Option.toList_some, hnot rest ha]
    · have hne : a ≠ u := fun h => ha (h ▸ hu')
      simp only [List.filterMap_cons]
      cases hx : blXfer s a with
      | none => exact ih hnd' hu'
      | some p =>
        have hp : p.1 = a := blXfer_fst hx
        simp only [List.filter_cons, hp, hne, decide_false, Bool.false_eq_true, ↓reduceIte]
        exact ih hnd' hu'

/-! ### allocation loops do not touch confirmations or the blacklist -/

theorem tryCreateTickets_frame {s s' : State} {a n : Nat} (h : tryCreateTickets s a n = .ok s') :
    ∃ r b l, s' = { s with range := r, batch := b, lastTicketId := l } := by
  unfold tryCreateTickets at h
  simp only [bind_ok_iff, pure_ok_iff, req_ok_iff, exists_const] at h
  obtain ⟨_, _, rfl⟩ := h
  exact ⟨_, _, _, rfl⟩

/-- the fields relevant to the blacklist invariant -/
def SameCB (s s' : State) : Prop := s'.confirmed = s.confirmed ∧ s'.blacklist = s.blacklist

theorem SameCB.refl (s : State) : SameCB s s := ⟨rfl, rfl⟩
theorem SameCB.trans {a b c : State} (h1 : SameCB a b) (h2 : SameCB b c) : SameCB a c :=
  ⟨h2.1.trans h1.1, h2.2.trans h1.2⟩

theorem tryCreateTickets_sameCB {s s' : State} {a n : Nat} (h : tryCreateTickets s a n = .ok s') :
    SameCB s s' := by
  obtain ⟨_, _, _, rfl⟩ := tryCreateTickets_frame h
  exact ⟨rfl, rfl⟩

theorem createMany_sameCB (l : List (Nat × Nat)) : ∀ (s s' : State), createMany l s = .ok s' → SameCB s s' := by
  induction l with
  | nil => intro s s' h; simp only [createMany] at h; injection h with h; subst h; exact SameCB.refl s
  | cons p rest ih =>
    obtain ⟨a, n⟩ := p
    intro s s' h
    rw [createMany] at h
    split at h
    · cases h
    · rename_i s1 h1
      exact (tryCreateTickets_sameCB h1).trans (ih _ _ h)

theorem addV1Many_sameCB (l : List (Nat × Nat × Nat × Bool)) : ∀ (s : State) (tw tg : Nat) (s' : State) (tw' tg' : Nat),
    addV1Many l (s, tw, tg) = .ok (s', tw', tg') → SameCB s s' := by
  induction l with
  | nil =>
    intro s tw tg s' tw' tg' h
    simp only [addV1Many] at h
    injection h with h; injection h with h1 h2; subst h1; exact SameCB.refl s
  | cons p rest ih =>
    obtain ⟨buyer, staking, energy, migrated⟩ := p
    intro s tw tg s' tw' tg' h
    rw [addV1Many] at h
    split at h; · cases h
    rename_i s1 h1
    have f1 := tryCreateTickets_sameCB h1
    simp only at h
    repeat' split at h
    all_goals first
      | (cases h; done)
      | (have h2 := ih _ _ _ _ _ _ h; exact f1.trans (SameCB.trans ⟨rfl, rfl⟩ h2))

theorem addV2Many_sameCB (e : Env) (l : List (Nat × Nat × List (Nat × Nat))) :
    ∀ (s : State) (tw tg uc ta ga : Nat) (s' : State) (tw' tg' uc' ta' ga' : Nat),
      addV2Many e l (s, tw, tg, uc, ta, ga) = .ok (s', tw', tg', uc', ta', ga') → SameCB s s' := by
  induction l with
  | nil =>
    intro s tw tg uc ta ga s' tw' tg' uc' ta' ga' h
    simp only [addV2Many] at h
    injection h with h; injection h with h1 h2; subst h1; exact SameCB.refl s
  | cons p rest ih =>
    obtain ⟨buyer, n, infos⟩ := p
    intro s tw tg uc ta ga s' tw' tg' uc' ta' ga' h
    rw [addV2Many] at h
    split at h
    · exact ih _ _ _ _ _ _ _ _ _ _ _ _ h
    · split at h; · cases h
      split at h; · cases h
      split at h; · cases h
      split at h; · cases h
      rename_i s1 hcr
      have f1 := tryCreateTickets_sameCB hcr
      split at h; · cases h
      simp only at h
      split at h
      · split at h; · cases h
        have h2 := ih _ _ _ _ _ _ _ _ _ _ _ _ h
        exact f1.trans (SameCB.trans ⟨rfl, rfl⟩ h2)
      · have h2 := ih _ _ _ _ _ _ _ _ _ _ _ _ h
        exact f1.trans (SameCB.trans ⟨rfl, rfl⟩ h2)

/-! ### the invariant: a blacklisted user has nothing confirmed -/

/-- blacklisted users have no confirmed tickets -/
def BlZero (s : State) : Prop := ∀ u, s.blacklist u = true → s.confirmed u = 0

theorem BlZero.of_sameCB {s s' : State} (h : SameCB s s') (hz : BlZero s) : BlZero s' := by
  intro u hu
  rw [h.1]; rw [h.2] at hu; exact hz u hu

theorem BlZero.blState {s : State} (hz : BlZero s) (l : List Nat) : BlZero (blState s l) := by
  intro u hu
  simp only [Events.blState] at hu ⊢
  by_cases hm : u ∈ l
  · simp [hm]
  · simp only [hm, ↓reduceIte] at hu ⊢
    exact hz u hu

theorem BlZero.unblState {s : State} (hz : BlZero s) (l : List Nat) : BlZero (unblState s l) := by
  intro u hu
  simp only [Events.unblState] at hu ⊢
  by_cases hm : u ∈ l
  · simp [hm] at hu
  · simp only [hm, ↓reduceIte] at hu
    exact hz u hu

theorem GHook.sameCB {l : List Nat} {s s' : State} (h : GHook l s s') : SameCB s s' := by
  obtain ⟨⟨_, _, _, _, _, rfl⟩, _⟩ := h
  exact ⟨rfl, rfl⟩

/-! ### `swap_remove` on a duplicate-free set -/

theorem swapRemove_not_mem {l : List Nat} {a : Nat} (h : a ∉ l) : swapRemove l a = (l, false) := by
  unfold swapRemove
  rw [List.idxOf?_eq_none_iff.mpr h]

theorem swapRemove_mem_perm {l : List Nat} {a : Nat} (h : a ∈ l) :
    (swapRemove l a).2 = true ∧ (swapRemove l a).1.Perm (l.erase a) := by
  cases hi : l.idxOf? a with
  | none => exact absurd h (List.idxOf?_eq_none_iff.mp hi)
  | some i =>
    obtain ⟨hlt, _, _⟩ := List.idxOf?_eq_some_iff.mp hi
    have her : l.erase a = l.take i ++ l.drop (i + 1) := by
      rw [List.erase_eq_eraseIdx, hi]; exact List.eraseIdx_eq_take_drop_succ l i
    cases hl : l.getLast? with
    | none =>
      have : l = [] := by simpa using hl
      subst this; cases h
    | some lastEl =>
      unfold swapRemove
      simp only [hi, hl]
      by_cases hend : i + 1 = l.length
      · simp only [hend, ↓reduceIte, true_and]
        rw [her, List.dropLast_eq_take]
        have : l.drop (i + 1) = [] := by rw [List.drop_eq_nil_iff]; omega
        rw [this, List.append_nil]
        have : l.length - 1 = i := by omega
        rw [this]
      · simp only [hend, ↓reduceIte, true_and]
        have hlt2 : i + 1 < l.length := by omega
        have hdl : (l.drop (i + 1)).getLast? = some lastEl := by
          rw [List.getLast?_drop, if_neg (by omega), hl]
        obtain ⟨ys, hys⟩ := List.getLast?_eq_some_iff.mp hdl
        rw [her, List.set_eq_take_append_cons_drop, if_pos hlt, hys]
        have : (List.take i l ++ lastEl :: (ys ++ [lastEl])).dropLast = List.take i l ++ lastEl :: ys := by
          rw [List.dropLast_append_cons]
          congr 1
          rw [← List.cons_append, List.dropLast_concat]
        rw [this]
        apply List.Perm.append_left
        have h1 : (lastEl :: ys).Perm (ys ++ [lastEl]) := by
          have := @List.perm_append_comm _ [lastEl] ys
          simpa using this
        exact h1

theorem swapRemove_spec {l : List Nat} (a : Nat) (hnd : l.Nodup) :
    ((swapRemove l a).2 = true ↔ a ∈ l) ∧ (swapRemove l a).1.Nodup ∧
    ∀ x, x ∈ (swapRemove l a).1 ↔ x ∈ l ∧ x ≠ a := by
  by_cases h : a ∈ l
  · obtain ⟨h2, hp⟩ := swapRemove_mem_perm h
    refine ⟨⟨fun _ => h, fun _ => h2⟩, hp.nodup_iff.mpr (hnd.erase a), ?_⟩
    intro x
    rw [hp.mem_iff, hnd.mem_erase_iff]
    exact ⟨fun ⟨p, q⟩ => ⟨q, p⟩, fun ⟨p, q⟩ => ⟨q, p⟩⟩
  · rw [swapRemove_not_mem h]
    refine ⟨⟨fun h' => (by cases h'), fun h' => absurd h' h⟩, hnd, ?_⟩
    intro x
    constructor
    · intro hx; exact ⟨hx, fun hxa => h (hxa ▸ hx)⟩
    · intro hx; exact hx.1

/-- **`refund_nft_cost_after_blacklist`, exact**: with duplicate-free `payers` and list, the fee is
    returned to exactly the listed users that were in `payers` (in list order), and exactly those
    are removed from `payers` -/
theorem refundNftMany_exact (l : List Nat) : ∀ (t t' : Tx), t.s.payers.Nodup → l.Nodup →
    refundNftMany l t = .ok t' →
    t'.o.xfers = t.o.xfers ++ (l.filter (fun u => decide (u ∈ t.s.payers))).map (fun u => (u, t.s.nftCost)) ∧
    t'.s.payers.Nodup ∧ (∀ x, x ∈ t'.s.payers ↔ x ∈ t.s.payers ∧ x ∉ l) ∧
    t'.s.nftCost = t.s.nftCost := by
  induction l with
  | nil =>
    intro t t' _ _ h
    simp only [refundNftMany] at h
    injection h with h; subst h
    rename_i hp _
    exact ⟨by simp, hp, by simp, rfl⟩
  | cons u rest ih =>
    intro t t' hpn hnd h
    obtain ⟨hu, hnd'⟩ := List.nodup_cons.mp hnd
    obtain ⟨hdid, hpyn, hmem⟩ := swapRemove_spec u hpn
    rw [refundNftMany] at h
    simp only at h
    split at h
    · rename_i hd
      have hup : u ∈ t.s.payers := hdid.mp hd
      split at h; · cases h
      rename_i t1 hsend
      obtain ⟨_, rfl⟩ := (send_ok_iff _ _ _ _).mp hsend
      obtain ⟨h1, h2, h3, h4⟩ := ih _ _ (by simpa [Tx.setS] using hpyn) hnd' h
      simp only [Tx.setS] at h1 h2 h3 h4
      refine ⟨?_, h2, ?_, h4⟩
      · rw [h1, List.filter_cons, if_pos (by simpa using hup)]
        simp only [List.map_cons, List.append_assoc, List.singleton_append]
        congr 3
        apply List.filter_congr
        intro x hx
        have hne : x ≠ u := fun h => hu (h ▸ hx)
        simp [hmem x, hne]
      · intro x
        rw [h3, hmem x]
        simp only [List.mem_cons, not_or]
        exact ⟨fun ⟨⟨a, b⟩, c⟩ => ⟨a, b, c⟩, fun ⟨a, b, c⟩ => ⟨⟨a, b⟩, c⟩⟩
    · rename_i hd
      have hup : u ∉ t.s.payers := fun hm => hd (hdid.mpr hm)
      obtain ⟨h1, h2, h3, h4⟩ := ih _ _ hpn hnd' h
      refine ⟨?_, h2, ?_, h4⟩
      · rw [h1]
        simp [List.filter_cons, hup]
      · intro x
        rw [h3]
        simp only [List.mem_cons, not_or]
        constructor
        · rintro ⟨a, b⟩
          exact ⟨a, fun hxu => hup (hxu ▸ a), b⟩
        · rintro ⟨a, _, b⟩
          exact ⟨a, b⟩

end LP.Events
