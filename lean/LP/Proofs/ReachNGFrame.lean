import LP.Proofs.ReachNGFinal
import LP.Proofs.FrameFlags
/-
  LP.Proofs.ReachNGFrame — frames read off the invariant `ng_WF`, used by `LP/Props/C14reachG.lean`:

  * `ng_call_frozen` / `ng_later_frozen`: once the filter has started and until the additional step
    completes, an accepted call keeps the set of NFT participants (`payers ∪ nftWinners`), their
    number, the fee and the number of NFTs; only `secondary` moves participants from `payers` to
    `nftWinners` (the structure `nf_Frozen` of `LP/Proofs/ReachNftFrame.lean` is reused);
  * `ng_proceeds_frame`: once the additional step is complete only `claimPayment` changes the
    recorded proceeds (to zero), the price is frozen, the completion flags stay set.
-/
namespace LP
open LP.FY LP.Props.C09 LP.Props.C14

theorem ng_started_of_selected {T0 : Nat} {c : Core} {g : v1_G} (h : ng_Phase T0 c g)
    (hsel : c.flags.selected = true) : c.flags.started = true := by
  rcases h with (⟨_, _, ⟨L0, hp, _⟩ | ⟨hC, _⟩ | hE⟩ | ⟨_, hD⟩) | ⟨hF, _⟩
  · rw [hp.notSelected] at hsel; cases hsel
  · rw [hC.notSelected] at hsel; cases hsel
  · exact hE.started
  · exact hD.started
  · exact hF.post.started

/-- once the filter has started (so the confirmation period is over) and until the additional step
    completes, an accepted call keeps the NFT participants -/
theorem ng_call_frozen {T0 : Nat} {hash : List Nat → List Nat} {s s' : State} {e : Env} {c : Call}
    {o : Out} {r : Nat} (h : ng_WF T0 s r) (hr : r ≤ e.round) (hstd : s.flags.started = true)
    (hadd : s.flags.additional = false) (hs : step hash s e c = .ok (s', o)) :
    nf_Frozen s s' ∧ s'.flags.started = true := by
  obtain ⟨hc1, hc2⟩ := h.tlStarted hstd
  have hex := ng_exposed h.var hs
  have hnotAdd : s.stage e ≠ .addTickets := fun hh => by have := rb_stage_addTickets hh; omega
  have hnotConf : s.stage e ≠ .confirm := fun hh => by have := (rb_stage_confirm hh).2; omega
  have hnotClaim : s.stage e ≠ .claim := fun hh => by
    have := (claim_stage_selected hh).2.1
    rw [hadd] at this; cases this
  cases c with
  | addTicketsV1 l =>
    exact absurd (LP.Props.C06.alloc_only_in_addTickets hash s e _ _ (Or.inr (Or.inl ⟨l, rfl⟩)) hs) hnotAdd
  | setTicketPrice tok a =>
    exact absurd (LP.Props.C06.terms_only_in_addTickets hash s e _ _ (Or.inl ⟨tok, a, rfl⟩) hs) hnotAdd
  | setPerTicket a =>
    exact absurd (LP.Props.C06.terms_only_in_addTickets hash s e _ _ (Or.inr (Or.inl ⟨a, rfl⟩)) hs) hnotAdd
  | setNftCost a =>
    exact absurd (LP.Props.C06.terms_only_in_addTickets hash s e _ _
      (Or.inr (Or.inr (Or.inl ⟨a, rfl⟩))) hs) hnotAdd
  | confirm n =>
    exact absurd (LP.Props.C06.confirm_only_in_confirm hash s e _ _ (Or.inl ⟨n, rfl⟩) hs) hnotConf
  | confirmNft =>
    exact absurd (LP.Props.C06.confirm_only_in_confirm hash s e _ _ (Or.inr rfl) hs) hnotConf
  | blacklist l =>
    rcases LP.Props.C06.blacklist_only_before_selection hash s e _ _ (Or.inl ⟨l, rfl⟩) hs with hh | hh
    · exact absurd hh hnotAdd
    · exact absurd hh hnotConf
  | setConfStart x =>
    obtain ⟨t, hx, rfl⟩ := rb_step_np (by intro m hm; simp [endpointMeta] at hm; rw [← hm]) hs
    have := (exec_setConfStart_s hx).2.1
    have : e.round < s.cfg.conf := this
    omega
  | setSelStart x =>
    obtain ⟨t, hx, rfl⟩ := rb_step_np (by intro m hm; simp [endpointMeta] at hm; rw [← hm]) hs
    have := (exec_setSelStart_s hx).2.1
    have : e.round < s.cfg.sel := this
    omega
  | setClaimStart x =>
    obtain ⟨t, hx, rfl⟩ := rb_step_np (by intro m hm; simp [endpointMeta] at hm; rw [← hm]) hs
    rw [(exec_setClaimStart_s hx).1]
    exact ⟨nf_Frozen.of_eq rfl rfl rfl rfl, hstd⟩
  | setSupport a =>
    obtain ⟨t, hx, rfl⟩ := rb_step_np (by intro m hm; simp [endpointMeta] at hm; rw [← hm]) hs
    simp only [exec, pure_ok_iff] at hx
    subst hx
    exact ⟨nf_Frozen.of_eq rfl rfl rfl rfl, hstd⟩
  | pause =>
    obtain ⟨t, hx, rfl⟩ := rb_step_np (by intro m hm; simp [endpointMeta] at hm; rw [← hm]) hs
    simp only [exec, pure_ok_iff] at hx
    subst hx
    exact ⟨nf_Frozen.of_eq rfl rfl rfl rfl, hstd⟩
  | unpause =>
    obtain ⟨t, hx, rfl⟩ := rb_step_np (by intro m hm; simp [endpointMeta] at hm; rw [← hm]) hs
    simp only [exec, pure_ok_iff] at hx
    subst hx
    exact ⟨nf_Frozen.of_eq rfl rfl rfl rfl, hstd⟩
  | sftSetup =>
    obtain ⟨t, hx, rfl⟩ := rb_step_np (by
      intro m hm; simp only [endpointMeta] at hm; split at hm
      · simp at hm; rw [← hm]
      · cases hm) hs
    simp only [exec, pure_ok_iff] at hx
    subst hx
    exact ⟨nf_Frozen.of_eq rfl rfl rfl rfl, hstd⟩
  | deposit =>
    obtain ⟨m, t, _, _, _, hx, rfl, _⟩ := step_ok_inv hs
    rw [(exec_deposit_s hx).2]
    exact ⟨nf_Frozen.of_eq rfl rfl rfl rfl, hstd⟩
  | filter =>
    obtain ⟨t, hx, rfl⟩ := rb_step_np (by intro m hm; simp [endpointMeta] at hm; rw [← hm]) hs
    simp only [exec] at hx
    obtain ⟨_, x, f, b, _, hcase⟩ := rb_filterTickets_cases hx
    simp only [rbTx_s] at hcase
    have hfs := filterFlags_started s x.first (Or.inr hstd)
    rcases hcase with ⟨_, hs'⟩ | ⟨_, _, hs'⟩
    · rw [hs']; exact ⟨nf_Frozen.of_eq rfl rfl rfl rfl, hfs⟩
    · rw [hs']; exact ⟨nf_Frozen.of_eq rfl rfl rfl rfl, hfs⟩
  | select =>
    obtain ⟨t, hx, rfl⟩ := rb_step_np (by intro m hm; simp [endpointMeta] at hm; rw [← hm]) hs
    simp only [exec] at hx
    obtain ⟨_, _, _, rng, pos, t0, _, x, b, st, _, hfin⟩ := rb_selectWinners_cases hx
    simp only [rbTx_s] at hfin
    rcases hfin with ⟨_, hs'⟩ | ⟨_, hs'⟩
    · rw [hs']; exact ⟨nf_Frozen.of_eq rfl rfl rfl rfl, hstd⟩
    · rw [hs']; exact ⟨nf_Frozen.of_eq rfl rfl rfl rfl, hstd⟩
  | secondary =>
    have hwf' := ng_secondary h hr hs
    obtain ⟨t, hx, rfl, rfl⟩ := ng_secondary_exec h.var hs
    obtain ⟨hsel, _, hcase⟩ := ng_secondary_split h hr hx
    have hterms := secondary_terms hx
    have hav : t.s.availNfts = s.availNfts := congrArg Terms.availNfts hterms
    have hco : t.s.nftCost = s.nftCost := congrArg Terms.nftCost hterms
    have hsel' : t.s.flags.selected = true := (step_flags_gain hs).1 hsel
    refine ⟨?_, ng_started_of_selected hwf'.phase hsel'⟩
    rcases hcase with ⟨_, _, _, _, _, hp, hw⟩ | ⟨m, t2, rng, hmid, ht2, htail, hrel⟩
    · exact nf_Frozen.of_eq hp hw hav hco
    · have hs0 := hmid.side
      obtain ⟨P, W, _, _, hlen, hun, hpre, hcase2⟩ :=
        ng_tail_shape ⟨hs0.nodupP, hs0.nodupW, hs0.disj⟩ hs0.winLe ht2 htail
      rw [hrel.payers, hrel.winners] at hlen hun
      rw [hrel.winners] at hpre
      rcases hcase2 with ⟨hs', _, _⟩ | ⟨rng', hs', _⟩
      · have e1 : t.s.payers = P := by rw [hs']; rfl
        have e2 : t.s.nftWinners = W := by rw [hs']; rfl
        exact ⟨by rw [e1, e2]; exact hun, by rw [e1, e2]; exact hlen, by rw [e2]; exact hpre, hav, hco⟩
      · have e1 : t.s.payers = P := by rw [hs']; rfl
        have e2 : t.s.nftWinners = W := by rw [hs']; rfl
        exact ⟨by rw [e1, e2]; exact hun, by rw [e1, e2]; exact hlen, by rw [e2]; exact hpre, hav, hco⟩
  | claim =>
    obtain ⟨_, hv2, _⟩ := ng_flags h.var
    obtain ⟨rg, hacc, _⟩ := nf_claim_shape hash s e s' o hv2 hs
    exact absurd hacc.2.2.1 hnotClaim
  | claimPayment =>
    obtain ⟨t, hx, rfl⟩ := rb_step_np (by intro m hm; simp [endpointMeta] at hm; rw [← hm]) hs
    exact absurd (ng_claimPayment_shape h.var h.tokNe hx).1 hnotClaim
  | _ => exact absurd hex id

/-- `ng_Later hash s r s2 r2`: `s2` (at round `r2`) is reached from `s` (at round `r`) by accepted
    calls (any calls, any budgets) and by the passing of time -/
inductive ng_Later (hash : List Nat → List Nat) (s : State) (r : Nat) : State → Nat → Prop
  | refl : ng_Later hash s r s r
  | call (s1 : State) (r1 : Nat) (e : Env) (c : Call) (s2 : State) (o : Out) :
      ng_Later hash s r s1 r1 → r1 ≤ e.round → EnvOK e → v1_CallOK c →
      step hash s1 e c = .ok (s2, o) → ng_Later hash s r s2 e.round
  | wait (s1 : State) (r1 r2 : Nat) : ng_Later hash s r s1 r1 → r1 ≤ r2 → ng_Later hash s r s1 r2

/-- from a reachable state in which the filter has started, as long as the additional step is not
    complete: whatever calls are accepted in whatever order, the NFT participants stay the same -/
theorem ng_later_frozen {hash : List Nat → List Nat} {a0 : InitArgs} {s : State} {r : Nat}
    (h : ng_ReachA hash a0 s r) (hstd : s.flags.started = true) {s2 : State} {r2 : Nat}
    (hl : ng_Later hash s r s2 r2) :
    ng_ReachA hash a0 s2 r2 ∧
    (s2.flags.additional = false → nf_Frozen s s2 ∧ s2.flags.started = true) := by
  induction hl with
  | refl => exact ⟨h, fun _ => ⟨nf_Frozen.refl s, hstd⟩⟩
  | call s1 r1 e c s2 o _ h1 h2 h3 h4 ih =>
    obtain ⟨i1, i2⟩ := ih
    refine ⟨.call s1 r1 e c s2 o i1 h1 h2 h3 h4, fun hadd2 => ?_⟩
    have hadd1 : s1.flags.additional = false := by
      cases hq : s1.flags.additional with
      | false => rfl
      | true =>
        have := (step_flags_gain h4).2 hq
        rw [hadd2] at this; cases this
    obtain ⟨j1, j2⟩ := i2 hadd1
    obtain ⟨k1, k2⟩ := ng_call_frozen (ng_reach_WF i1) h1 j2 hadd1 h4
    exact ⟨j1.trans k1, k2⟩
  | wait s1 r1 r2 _ h1 ih =>
    obtain ⟨i1, i2⟩ := ih
    exact ⟨.wait s1 r1 r2 i1 h1, i2⟩

end LP
