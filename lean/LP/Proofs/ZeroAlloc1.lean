import LP.Props.C02reach
import LP.Proofs.PauseFrame
/-
  LP.Proofs.ZeroAlloc1 — zero-size allocations, part 1.

  `z_w s R B K C` overwrites the four fields `range`, `batch`, `blacklist`, `claimed` of a state.
  The endpoints `deposit`, the setters, `setSupport`, `pause`, `unpause`, `select`, `claimPayment`
  neither read nor write these four fields: their bodies COMMUTE with the overwriting
  (`z_exec_indep`), hence so does `step` (`z_step_indep`), and they leave the four fields alone
  (`z_step_indep_frame`).
-/
namespace LP

/-- overwrite the allocation maps and the two address flags -/
def z_w (s : State) (R : Nat → Option Range) (B : Nat → Option Batch) (K C : Nat → Bool) : State :=
  { s with range := R, batch := B, blacklist := K, claimed := C }

def z_wt (t : Tx) (R : Nat → Option Range) (B : Nat → Option Batch) (K C : Nat → Bool) : Tx :=
  { t with s := z_w t.s R B K C }

def z_wx (x : SelSt) (R : Nat → Option Range) (B : Nat → Option Batch) (K C : Nat → Bool) : SelSt :=
  { x with tx := z_wt x.tx R B K C }

theorem z_w_self (s : State) : z_w s s.range s.batch s.blacklist s.claimed = s := rfl

theorem z_w_w (s : State) (R R' : Nat → Option Range) (B B' : Nat → Option Batch) (K K' C C' : Nat → Bool) :
    z_w (z_w s R B K C) R' B' K' C' = z_w s R' B' K' C' := rfl

section
variable {R : Nat → Option Range} {B : Nat → Option Batch} {K C : Nat → Bool}

theorem z_freshRng (t : Tx) :
    (z_wt t R B K C).freshRng = (t.freshRng.1, z_wt t.freshRng.2 R B K C) := by
  unfold Tx.freshRng
  show (match t.c.seeds with | [] => _ | sd :: rest => _) = _
  cases t.c.seeds <;> rfl

theorem z_draw (hash : List Nat → List Nat) (t : Tx) (rng : Rng) :
    (z_wt t R B K C).draw hash rng
      = ((t.draw hash rng).1, (t.draw hash rng).2.1, z_wt (t.draw hash rng).2.2 R B K C) := by
  unfold Tx.draw
  show (match t.c.script with | [] => _ | x :: xs => _) = _
  cases t.c.script <;> rfl

theorem z_send (t : Tx) (a : Nat) (p : Pay) :
    (z_wt t R B K C).send a p = mapR (z_wt · R B K C) (t.send a p) := by
  unfold Tx.send
  by_cases h : t.s.bal p.tok p.nonce < p.amount
  · have h' : (z_wt t R B K C).s.bal p.tok p.nonce < p.amount := h
    rw [if_pos h, if_pos h']; rfl
  · have h' : ¬ (z_wt t R B K C).s.bal p.tok p.nonce < p.amount := h
    rw [if_neg h, if_neg h']; rfl

theorem z_selectBody (hash : List Nat → List Nat) (nr last : Nat) (x : SelSt) :
    selectBody hash nr last (z_wx x R B K C) = mapR (fst1 (z_wx · R B K C)) (selectBody hash nr last x) := by
  unfold selectBody
  simp only [z_wx, z_draw]
  repeat' ite_both
  all_goals rfl

/-- peel the common guards off an equation `X (z_wt t …) = mapR (z_wt · …) (X t)` -/
macro "z_peel" : tactic => `(tactic|
  (simp only [mapR_bind, bind_assoc, pure_bind]
   repeat' (first | rfl | (refine bind_congr_fun ?_; intro _) | ite_both)))

theorem z_selectWinners (hash : List Nat → List Nat) (t : Tx) (e : Env) :
    selectWinners hash (z_wt t R B K C) e = mapR (z_wt · R B K C) (selectWinners hash t e) := by
  unfold selectWinners
  simp only [setp]
  show (req (!t.s.paused) _ >>= fun _ => _) = _
  refine bind_congr_fun ?_; intro _
  show (requireStage t.s e .winnerSelection _ >>= fun _ => _) = _
  refine bind_congr_fun ?_; intro _
  show (ownerOrUser t.s e >>= fun _ => _) = _
  refine bind_congr_fun ?_; intro _
  show (req t.s.flags.filtered _ >>= fun _ => _) = _
  refine bind_congr_fun ?_; intro _
  show (req (!t.s.flags.selected) _ >>= fun _ => _) = _
  refine bind_congr_fun ?_; intro _
  have hop' : (z_wt t R B K C).s.op = t.s.op := rfl
  cases hop : t.s.op with
  | none =>
    simp only [hop', hop, z_freshRng, mapR_bind]
    refine bind_eq_bind_of_mapR (fst1 (z_wx · R B K C)) ?_ ?_
    · rhs_exact runWhile_commutes (z_wx · R B K C) _ (z_selectBody hash _ _) _ _ _
    · intro ⟨y, b2, st2⟩
      cases st2 <;> rfl
  | select r p =>
    simp only [hop', hop, mapR_bind]
    refine bind_eq_bind_of_mapR (fst1 (z_wx · R B K C)) ?_ ?_
    · rhs_exact runWhile_commutes (z_wx · R B K C) _ (z_selectBody hash _ _) _ _ _
    · intro ⟨y, b2, st2⟩
      cases st2 <;> rfl
  | _ => simp only [hop', hop] <;> rfl

theorem z_claimPaymentCommon (t : Tx) (e : Env) :
    claimPaymentCommon (z_wt t R B K C) e = mapR (z_wt · R B K C) (claimPaymentCommon t e) := by
  unfold claimPaymentCommon
  simp only [mapR_bind]
  show (requireStage t.s e .claim _ >>= fun _ => _) = _
  refine bind_congr_fun ?_; intro _
  have tail : ∀ t1 : Tx,
      (bsub ((z_wt t1 R B K C).s.bal (.esdt (z_wt t1 R B K C).s.lpTok) 0)
          ((z_wt t1 R B K C).s.perTicket * (z_wt t1 R B K C).s.nrWinning) "tickets.rs:66 balance - needed"
        >>= fun extra => if extra > 0 then (z_wt t1 R B K C).send e.caller ⟨.esdt (z_wt t1 R B K C).s.lpTok, 0, extra⟩
                         else pure (z_wt t1 R B K C)) =
      (bsub (t1.s.bal (.esdt t1.s.lpTok) 0) (t1.s.perTicket * t1.s.nrWinning) "tickets.rs:66 balance - needed"
        >>= fun extra => mapR (z_wt · R B K C)
              (if extra > 0 then t1.send e.caller ⟨.esdt t1.s.lpTok, 0, extra⟩ else pure t1)) := by
    intro t1
    refine bind_congr_fun ?_; intro extra
    by_cases hx : extra > 0
    · rw [if_pos hx, if_pos hx]
      rhs_exact z_send _ _ _
    · rw [if_neg hx, if_neg hx]; rfl
  by_cases hc : t.s.claimablePayment > 0
  · have hc' : (z_wt t R B K C).s.claimablePayment > 0 := hc
    rw [if_pos hc, if_pos hc']
    simp only [mapR_bind]
    refine bind_eq_bind_of_mapR (z_wt · R B K C) ?_ ?_
    · rhs_exact z_send _ _ _
    · intro t1; exact tail t1
  · have hc' : ¬ (z_wt t R B K C).s.claimablePayment > 0 := hc
    rw [if_neg hc, if_neg hc']
    simp only [mapR_bind, pure_bind]
    exact tail t

/-- the endpoints that neither read nor write `range`, `batch`, `blacklist`, `claimed` -/
def z_indep : Call → Bool
  | .deposit | .setTicketPrice _ _ | .setPerTicket _ | .setConfStart _ | .setSelStart _
  | .setClaimStart _ | .setSupport _ | .pause | .unpause | .select | .claimPayment => true
  | _ => false

/-- **the bodies of the independent endpoints commute with overwriting the four fields**
    (variants without vesting and NFT hook) -/
theorem z_exec_indep (hash : List Nat → List Nat) (t : Tx) (e : Env) (c : Call)
    (hc : z_indep c = true) (hv : t.s.variant.vested = false) (hn : t.s.variant.hasNft = false) :
    exec hash (z_wt t R B K C) e c = mapR (z_wt · R B K C) (exec hash t e c) := by
  cases c with
  | deposit =>
    simp only [exec, depositLaunchpadTokens]
    z_peel
  | setTicketPrice tok a =>
    simp only [exec, trySetTicketPrice]
    z_peel
  | setPerTicket a => simp only [exec]; z_peel
  | setConfStart x => simp only [exec, validTimelineChange]; z_peel
  | setSelStart x => simp only [exec, validTimelineChange]; z_peel
  | setClaimStart x => simp only [exec, validTimelineChange]; z_peel
  | setSupport a => rfl
  | pause => rfl
  | unpause => rfl
  | select => exact z_selectWinners hash t e
  | claimPayment =>
    have hv' : (z_wt t R B K C).s.variant.vested = false := hv
    simp only [exec, hv, hv', Bool.false_eq_true, if_false]
    rw [z_claimPaymentCommon]
    cases hcp : claimPaymentCommon t e with
    | error err => rfl
    | ok t1 =>
      have hvar : t1.s.variant = t.s.variant := congrArg Terms.variant (claimPaymentCommon_terms hcp)
      have h1 : t1.s.variant.hasNft = false := by rw [hvar]; exact hn
      have h2 : (z_wt t1 R B K C).s.variant.hasNft = false := h1
      simp only [mapR_ok, bind, Except.bind, h1, h2, Bool.false_eq_true, if_false]
      rfl
  | _ => simp [z_indep] at hc

theorem z_credit (s : State) (e : Env) :
    creditPayments (z_w s R B K C) e = z_w (creditPayments s e) R B K C := rfl

/-- **`step` of an independent endpoint commutes with overwriting the four fields** -/
theorem z_step_indep_eq (hash : List Nat → List Nat) (s : State) (e : Env) (c : Call)
    (hc : z_indep c = true) (hv : s.variant.vested = false) (hn : s.variant.hasNft = false) :
    step hash (z_w s R B K C) e c
      = mapR (fun p => (z_w p.1 R B K C, p.2)) (step hash s e c) := by
  unfold step
  show (match endpointMeta s.variant c with | none => _ | some m => _) = _
  cases endpointMeta s.variant c with
  | none => rfl
  | some m =>
    show (if _ then _ else if (m.ownerOnly && e.caller != s.owner) = true then _ else _) = _
    simp only
    ite_both
    · rfl
    ite_both
    · rfl
    have hx := z_exec_indep (R := R) (B := B) (K := K) (C := C) hash
      ⟨creditPayments s e, ⟨e.budget, e.seeds, e.script⟩, {}⟩ e c hc hv hn
    have hx' : exec hash ⟨creditPayments (z_w s R B K C) e, ⟨e.budget, e.seeds, e.script⟩, {}⟩ e c
        = mapR (z_wt · R B K C) (exec hash ⟨creditPayments s e, ⟨e.budget, e.seeds, e.script⟩, {}⟩ e c) := hx
    rw [hx']
    cases exec hash ⟨creditPayments s e, ⟨e.budget, e.seeds, e.script⟩, {}⟩ e c <;> rfl

theorem z_step_indep {hash : List Nat → List Nat} {s s' : State} {e : Env} {c : Call} {o : Out}
    (hc : z_indep c = true) (hv : s.variant.vested = false) (hn : s.variant.hasNft = false)
    (h : step hash s e c = .ok (s', o)) :
    step hash (z_w s R B K C) e c = .ok (z_w s' R B K C, o) := by
  rw [z_step_indep_eq hash s e c hc hv hn, h]; rfl

end

/-- an independent endpoint leaves the four fields alone -/
theorem z_step_indep_frame {hash : List Nat → List Nat} {s s' : State} {e : Env} {c : Call} {o : Out}
    (hc : z_indep c = true) (hv : s.variant.vested = false) (hn : s.variant.hasNft = false)
    (h : step hash s e c = .ok (s', o)) :
    s'.range = s.range ∧ s'.batch = s.batch ∧ s'.blacklist = s.blacklist ∧ s'.claimed = s.claimed := by
  have h2 := z_step_indep (R := s.range) (B := s.batch) (K := s.blacklist) (C := s.claimed) hc hv hn h
  rw [z_w_self, h] at h2
  have h3 : s' = z_w s' s.range s.batch s.blacklist s.claimed := by
    injection h2 with h2; injection h2
  refine ⟨?_, ?_, ?_, ?_⟩
  · exact (congrArg State.range h3).trans rfl
  · exact (congrArg State.batch h3).trans rfl
  · exact (congrArg State.blacklist h3).trans rfl
  · exact (congrArg State.claimed h3).trans rfl

end LP
