import LP.Proofs.ReachV2Sel
/-
  LP.Proofs.ReachV2Dist — preservation of `WF2` by `distribute` (v2), for EVERY accepted call:
  a fresh or a resumed operation, interrupted in the top-up loop, interrupted in the leftover
  loop, or completed.  Uses the case analysis `distribute_ok_cases` (LP/Proofs/Resume.lean), the
  loop rule `rb_runWhile_inv`, the per-iteration facts of LP/Proofs/GuarLoop.lean /
  Distribute.lean (top-up) and LP/Proofs/Leftover2.lean (leftover re-draw).
-/
namespace LP
open LP.FY

/-! ### small facts -/

theorem PosInv.mono {last k : Nat} {st st' : Nat → Bool} {f : Nat → Nat} (h : PosInv last st f k)
    (hm : ∀ t, st t = true → st' t = true) (hin : ∀ t, st' t = true → 1 ≤ t ∧ t ≤ last) :
    PosInv last st' f k :=
  ⟨h.pos, h.bound, h.range, h.distinct, fun t a b c => h.cover t a b (by
    cases e : st t with
    | false => rfl
    | true => rw [hm t e] at c; cases c), hin⟩

/-- the projection with whitelist and flags replaced (what the top-up loop writes) -/
def gcoreWS (g : GCore) (wl : List Nat) (st : Nat → Bool) : GCore :=
  { g with whitelist := wl, core := { g.core with status := st } }

/-- every holder of a range: the range lies in `1..last` and has `confirmed` tickets -/
def RangesOK (c : Core) : Prop :=
  ∀ u r, c.range u = some r → RangeIn c.lastTicketId r ∧ rangeLen r = c.confirmed u

theorem v2_alloc_ranges {c : Core}
    (halloc : ∃ Ls : List (Nat × Nat), (Ls.map Prod.fst).Nodup ∧
      (∀ p ∈ Ls, 1 ≤ p.2 ∧ p.2 = c.confirmed p.1) ∧ Chain Ls 1 c.range c.batch ∧
      c.lastTicketId = ticketTotal Ls ∧
      (∀ a, a ∉ Ls.map Prod.fst → c.range a = none ∧ c.confirmed a = 0) ∧
      PayPre c (Ls.map Prod.fst)) : RangesOK c := by
  obtain ⟨Ls, _, hLs, hch, hlast, hout, _⟩ := halloc
  intro u r hr
  have hin : u ∈ Ls.map Prod.fst := by
    apply Classical.byContradiction
    intro hn
    rw [(hout u hn).1] at hr; cases hr
  obtain ⟨p, hp, rfl⟩ := List.mem_map.mp hin
  obtain ⟨r', hr', h1, h2, h3, h4⟩ := Chain_bounds hch (fun q hq => (hLs q hq).1) p hp
  rw [hr] at hr'
  injection hr' with hr'
  subst hr'
  have := (hLs p hp).2
  unfold RangeIn rangeLen
  refine ⟨⟨h1, by omega⟩, by omega⟩

/-! ### the top-up loop -/

theorem v2_guarBody_false {s : State} {x x' : GSt} (h : guarBody s x = .ok (x', false)) :
    x.usersLeft = 0 ∧ x' = x := by
  unfold guarBody at h
  by_cases hul : x.usersLeft = 0
  · simp only [hul, if_true, Except.ok.injEq, Prod.mk.injEq, and_true] at h
    exact ⟨hul, h.symm⟩
  · simp only [hul, if_false] at h
    split at h
    · cases h
    · split at h
      · simp at h
      · repeat' (split at h)
        all_goals simp at h

theorem v2_guarBody_hon (s : State) (x x' : GSt) (b : Bool) (u : Nat) (rest : List Nat) (st : UTS)
    (r : Range) (hv : s.variant.isV2 = true) (hwl : x.whitelist = u :: rest) (hul : x.usersLeft ≠ 0)
    (hu : s.uts u = some st) (hr : s.range u = some r) (hlen : rangeLen r = s.confirmed u)
    (hb : guarBody s x = .ok (x', b)) :
    (calcV2 st.infos (s.confirmed u)).1 ≤ countWinning x'.status r.first (rangeLen r) := by
  obtain ⟨wl, ul, status, lo, add⟩ := x
  simp only at hwl hul
  subst hwl
  unfold guarBody at hb
  simp only [hul, if_false, hu, hv, if_true, hr] at hb
  have hle := calcV2_le_conf st.infos (s.confirmed u)
  generalize calcV2 st.infos (s.confirmed u) = p at hb hle ⊢
  obtain ⟨g, l⟩ := p
  simp only at hb hle ⊢
  split at hb
  · have h4 := (processGuaranteed_some_general status r g).2.2.2.1
    generalize processGuaranteed status (some r) g = q at h4 hb
    obtain ⟨st', lo', add'⟩ := q
    try simp only at h4
    try simp only at hb
    cases hb
    try simp only
    omega
  · cases hb
    omega

/-- invariant of the top-up loop: `DInv` on the loop's whitelist/flags, plus the counter -/
structure G1 (g : GCore) (off : Nat) (x : GSt) : Prop where
  len : x.usersLeft = x.whitelist.length
  d : DInv (gcoreWS g x.whitelist x.status) x.leftover off x.additional

theorem v2_guarBody_G1 {s : State} {off : Nat} (hv : s.variant.isV2 = true) (hR : RangesOK s.core)
    {x x' : GSt} (hb : guarBody s x = .ok (x', true)) (hg : G1 s.gcore off x) : G1 s.gcore off x' := by
  have hul : x.usersLeft ≠ 0 := by
    intro hul
    unfold guarBody at hb
    simp [hul] at hb
  obtain ⟨u, rest, hwl⟩ : ∃ u rest, x.whitelist = u :: rest := by
    cases hq : x.whitelist with
    | nil => have := hg.len; rw [hq] at this; simp at this; exact absurd this hul
    | cons u rest => exact ⟨u, rest, rfl⟩
  obtain ⟨x1, e1, e2, e3, e4, e5, e6, e7⟩ := guarBody_step s x u rest hwl hul
  rw [hb] at e1
  injection e1 with e1
  simp only [Prod.mk.injEq, and_true] at e1
  subst e1
  have hru : ∀ v rest', x.whitelist = v :: rest' → ∀ r, s.range v = some r → RangeIn s.lastTicketId r :=
    fun v _ _ r hr => (hR v r hr).1
  obtain ⟨c1, c2, c3⟩ := guarBody_count s.lastTicketId s x x' true hru hb
  have hd := hg.d
  have hnd : x.whitelist.Nodup := hd.nodup
  have hmem : ∀ v, v ∈ x'.whitelist ↔ v ≠ u ∧ v ∈ x.whitelist := by
    intro v; rw [e2]; exact mem_swapRemove hnd
  have hin' : FlagsIn s.lastTicketId x'.status := c3 hd.pinv.inside
  refine ⟨by rw [e4, hg.len]; omega, ⟨?_, ?_, ?_, ?_, ?_⟩⟩
  · show x'.whitelist.Nodup
    rw [e2]; exact swapRemove_nodup u hnd
  · show x'.leftover + x'.additional + gSum true s.uts x'.whitelist = s.totalGuaranteed
    have ht : x.leftover + x.additional + gSum true s.uts x.whitelist = s.totalGuaranteed := hd.total
    have hp : gSum true s.uts x'.whitelist = gSum true s.uts rest := by
      rw [e2]
      have := gSum_perm true s.uts (swapRemove_perm x.whitelist u)
      rw [this, hwl]; simp
    rw [hwl, gSum_cons] at ht
    rw [hv] at e5
    rw [hp]; omega
  · exact PosInv.mono hd.pinv e7 hin'
  · show countTrue x'.status s.lastTicketId = s.nrWinning + x'.additional
    have : countTrue x.status s.lastTicketId = s.nrWinning + x.additional := hd.count
    omega
  · intro v st r hv1 hv2 hv3
    have hv2' : v ∉ x'.whitelist := hv2
    have hv1' : s.uts v = some st := hv1
    have hv3' : s.range v = some r := hv3
    show (calcV2 st.infos (s.confirmed v)).1 ≤ countWinning x'.status r.first (rangeLen r)
    by_cases hvu : v = u
    · subst hvu
      exact v2_guarBody_hon s x x' true v rest st r hv hwl hul hv1' hv3' (hR v r hv3').2 hb
    · have hnw : v ∉ x.whitelist := fun hm => hv2' ((hmem v).mpr ⟨hvu, hm⟩)
      have := hd.hon v st r hv1 hnw hv3
      exact Nat.le_trans this (countWinning_mono _ _ _ _ (fun t _ _ ht => e7 t ht))

/-! ### the leftover loop on the core state -/

/-- invariant of the leftover loop (core state): `LInv`, the conserved reserve, and flags only
    gained since the top-up finished with flags `st0` -/
structure L2 (last nrW tg : Nat) (st0 : Nat → Bool) (z : LCore) : Prop where
  pinv : PosInv last z.status z.posToId (nrW + z.offset)
  count : countTrue z.status last = nrW + z.additional
  total : z.leftover + z.additional = tg
  mono : ∀ t, st0 t = true → z.status t = true

theorem v2_leftCore_step {hash : List Nat → List Nat} {nrW last tg : Nat} {st0 : Nat → Bool}
    {z z' : LCore} {c : Bool} (hb : leftCoreBody hash true nrW last z = .ok (z', c))
    (h : L2 last nrW tg st0 z) :
    (c = true → L2 last nrW tg st0 z') ∧
    (c = false → z'.status = z.status ∧ z'.posToId = z.posToId ∧ z'.offset = z.offset ∧
      z'.additional = z.additional ∧ z'.rng = z.rng ∧ z'.leftover = 0 ∧
      (nrW + z.additional ≥ last ∨ z.leftover = 0)) := by
  have hx : leftoverBody hash true nrW last (LCore.lift default z) = .ok (LCore.lift default z', c) := by
    rw [leftoverBody_lift, hb]; rfl
  have hL : LInv last nrW (LCore.lift default z) := ⟨h.pinv, h.count⟩
  constructor
  · intro hc
    subst hc
    have hk : lKind hash nrW last (LCore.lift default z) ≠ .stop := by
      intro hk
      obtain ⟨x', hb', _⟩ := leftoverBody_spec hash true nrW last _ hL
      rw [hk, hx] at hb'
      simp at hb'
    obtain ⟨x'', hb'', hinv, _, _, _, hsum, hmono, _⟩ := leftoverBody_cont hash true nrW last _ hL hk
    rw [hx] at hb''
    injection hb'' with hb''
    simp only [Prod.mk.injEq, and_true] at hb''
    subst hb''
    refine ⟨hinv.pinv, hinv.count, ?_, fun t ht => hmono t (h.mono t ht)⟩
    have e1 : z'.leftover + z'.additional = z.leftover + z.additional := hsum
    rw [e1]; exact h.total
  · intro hc
    subst hc
    obtain ⟨x', hb', _, _, _, k1, _⟩ := leftoverBody_spec hash true nrW last _ hL
    rw [hx] at hb'
    injection hb' with hb'
    simp only [Prod.mk.injEq] at hb'
    obtain ⟨e1, e2⟩ := hb'
    have hk : lKind hash nrW last (LCore.lift default z) = .stop := by
      cases hq : lKind hash nrW last (LCore.lift default z) with
      | stop => rfl
      | _ => rw [hq] at e2; simp at e2
    obtain ⟨k2, k3⟩ := k1 hk
    rw [← e1] at k3
    refine ⟨congrArg LSt.status k3, congrArg LSt.posToId k3, congrArg LSt.offset k3,
      congrArg LSt.additional k3, congrArg LSt.rng k3, congrArg LSt.leftover k3, ?_⟩
    exact k2

/-! ### hand-over at the completion of the distribution -/

theorem v2_handover {c : Core}
    (halloc : ∃ Ls : List (Nat × Nat), (Ls.map Prod.fst).Nodup ∧
      (∀ p ∈ Ls, 1 ≤ p.2 ∧ p.2 = c.confirmed p.1) ∧ Chain Ls 1 c.range c.batch ∧
      c.lastTicketId = ticketTotal Ls ∧
      (∀ a, a ∉ Ls.map Prod.fst → c.range a = none ∧ c.confirmed a = 0) ∧
      PayPre c (Ls.map Prod.fst))
    (hstd : c.flags.started = true) (hfil : c.flags.filtered = true) (hsel : c.flags.selected = true)
    {st' : Nat → Bool} {pi' : Nat → Nat} {W cl : Nat}
    (hcount : countTrue st' c.lastTicketId = W) (hcl : cl = c.price * W) :
    PhD { c with status := st', posToId := pi', op := .none,
                 flags := { c.flags with additional := true },
                 claimable := cl, nrWinning := W } := by
  obtain ⟨Ls, hnd, hLs, hch, hlast, hout, hpay⟩ := halloc
  have hpos : ∀ p ∈ Ls, 1 ≤ p.2 := fun p hp => (hLs p hp).1
  have hcc := rb_chain_count st' hch (Nat.le_refl 1)
  simp only [Nat.sub_self, Nat.zero_add, countTrue] at hcc
  rw [← hlast, hcount] at hcc
  have hmem : ∀ a r, c.range a = some r → ∃ p ∈ Ls, p.1 = a := by
    intro a r hr
    apply Classical.byContradiction
    intro hn
    have : a ∉ Ls.map Prod.fst := by
      intro hin
      obtain ⟨p, hp, hpa⟩ := List.mem_map.mp hin
      exact hn ⟨p, hp, hpa⟩
    rw [(hout a this).1] at hr; cases hr
  have hrngOk : ∀ a r, c.range a = some r → r.first ≤ r.last ∧ r.last + 1 = r.first + c.confirmed a := by
    intro a r hr
    obtain ⟨p, hp, rfl⟩ := hmem a r hr
    obtain ⟨r', hr', _, h2, _, h4⟩ := Chain_bounds hch hpos p hp
    rw [hr] at hr'
    injection hr' with hr'
    subst hr'
    exact ⟨h2, by rw [h4, (hLs p hp).2]⟩
  have hrngNone : ∀ a, c.range a = none → c.confirmed a = 0 := by
    intro a hr
    by_cases hin : a ∈ Ls.map Prod.fst
    · obtain ⟨rr, hrr⟩ := rb_Chain_range_some hch hin
      rw [hr] at hrr; cases hrr
    · exact (hout a hin).2
  refine ⟨hstd, hfil, hsel, rfl, hrngOk, hrngNone, ?_, ?_⟩
  · intro a b ra rb hab hra hrb
    obtain ⟨p, hp, rfl⟩ := hmem a ra hra
    obtain ⟨q, hq, rfl⟩ := hmem b rb hrb
    exact Chain_disjoint hch hpos p hp q hq hab ra rb hra hrb
  · refine ⟨Ls.map Prod.fst, hnd, ?_, ?_, hcc⟩
    · intro a ha
      apply Classical.byContradiction
      intro hin
      exact ha (hout a hin).2
    · apply rb_pre_to_post
      · exact hpay
      · show cl = c.price * sumOver (winOf c.range st') (Ls.map Prod.fst)
        rw [hcc, hcl]
      · intro a _
        show winOf c.range st' a ≤ c.confirmed a
        cases hr : c.range a with
        | none => simp [winOf, hr]
        | some r => exact rb_winOf_le hr (hrngOk a r hr).2
      · intro a _ hr
        exact hrngNone a hr

theorem v2_PhD_nrw_zero {c : Core} (hD : PhD c) (hz : ∀ a, c.confirmed a = 0) : c.nrWinning = 0 := by
  obtain ⟨L, _, _, _, hwin⟩ := hD.led
  rw [← hwin]
  apply sumOver_zero
  intro a _
  cases hr : c.range a with
  | none => simp [winOf, hr]
  | some r =>
    have := rb_winOf_le (status := c.status) hr (hD.rngOk a r hr).2
    rw [hz a] at this
    omega

/-! ### the endpoint -/

/-- every accepted `distribute` call keeps the invariant; the call that completes the step
    hands out exactly `min totalGuaranteed (last - nrWinning)` additional tickets -/
theorem v2_distribute_full {T0 : Nat} {hash : List Nat → List Nat} {s s' : State} {e : Env} {o : Out}
    {r : Nat} (h : WF2 T0 s r) (hs : step hash s e .distribute = .ok (s', o)) :
    WF2 T0 s' e.round ∧ s.flags.additional = false ∧ s.flags.selected = true ∧
    s.nrWinning = min (T0 - s.totalGuaranteed) s.lastTicketId ∧
    s'.lastTicketId = s.lastTicketId ∧ s'.totalGuaranteed = s.totalGuaranteed ∧
    (s'.flags.additional = true →
      s'.nrWinning = s.nrWinning + min s.totalGuaranteed (s.lastTicketId - s.nrWinning) ∧
      countTrue s'.status s'.lastTicketId = s'.nrWinning ∧
      s'.claimablePayment = s'.price * s'.nrWinning) := by
  obtain ⟨t, hx, rfl⟩ := rb_step_np (by
    intro m hm; simp only [endpointMeta] at hm; split at hm
    · simp at hm; rw [← hm]
    · cases hm) hs
  simp only [exec] at hx
  obtain ⟨hpre, g, x, b1, hg, _, hcase⟩ := distribute_ok_cases hash _ _ _ hx
  simp only [rbTx_s] at hpre hcase
  have hE : PhE (T0 - s.totalGuaranteed) s.gcore := v2_phase_E h.phase hpre.selected hpre.notDone
  obtain ⟨hc1, hc2⟩ := rb_stage_winnerSelection hpre.stage
  have hv2 : s.variant.isV2 = true := (v2_flags h.var).2.2.1
  simp only [hv2] at hcase
  have hRanges : RangesOK s.core := v2_alloc_ranges hE.alloc
  have hstd : s.flags.started = true := hE.started
  have hnrw : s.nrWinning = min (T0 - s.totalGuaranteed) s.lastTicketId := hE.nrw
  have hclm : s.claimablePayment = s.price * s.nrWinning := hE.claimable
  obtain ⟨lo, off, add, hD, hop⟩ := hE.dist
  have hgv : g.leftover = lo ∧ g.offset = off ∧ g.additional = add := by
    rcases hop with ⟨hop, rfl, rfl, rfl⟩ | ⟨rng, hop⟩
    · have hop' : s.op = .none := hop
      simp only [guarOpOf, rbTx_s, hop', Option.some.injEq] at hg
      subst hg; exact ⟨rfl, rfl, rfl⟩
    · have hop' : s.op = .additional (.guar ⟨rng, lo, off, add⟩) := hop
      simp only [guarOpOf, rbTx_s, hop', Option.some.injEq] at hg
      subst hg; exact ⟨rfl, rfl, rfl⟩
  obtain ⟨hg1, hg2, hg3⟩ := hgv
  have hG0 : G1 s.gcore off (guarX s g) := by
    refine ⟨rfl, ?_⟩
    show DInv (gcoreWS s.gcore s.whitelist s.status) g.leftover off g.additional
    rw [hg1, hg3]; exact hD
  have hloop1 := fun st (hrun : runWhile (guarBody s) (s.whitelist.length + 2) (rbTx s e).c.budget
      (guarX s g) = .ok (x, b1, st)) =>
    rb_runWhile_inv (G1 s.gcore off) (guarBody s)
      (fun y y' hb hp => v2_guarBody_G1 hv2 hRanges hb hp) _ _ _ _ _ _ hrun hG0
  -- common part of the three outcomes
  have hbase : ∀ s1 : State, s1.variant = s.variant → s1.price = s.price → s1.payTok = s.payTok →
      s1.lpTok = s.lpTok → s1.bal = s.bal → s1.cfg = s.cfg → s1.totalGuaranteed = s.totalGuaranteed →
      s1.flags.started = true → Phase2 T0 s1.gcore → LPI s1.gcore s1.lproj → WF2 T0 s1 e.round := by
    intro s1 e1 e2 e3 e4 e5 e6 e7 e8 hph hlp
    refine ⟨by rw [e1]; exact h.var, by rw [e2]; exact h.pricePos, by rw [e3, e4]; exact h.tokNe,
      by rw [e3, e4, e5]; exact h.balOther, ?_, ?_, by rw [e7]; exact h.tgLe, ?_, hph, hlp⟩
    · intro hlt; exfalso; rw [e6] at hlt; omega
    · intro _; rw [e6]; exact ⟨hc1, hc2⟩
    · intro hq; rw [e8] at hq; cases hq
  rcases hcase with ⟨hrun, hs', _⟩ | ⟨hrun, z, b2, hcase2⟩
  · -- interrupted in the top-up loop
    have hGx : G1 s.gcore off x := (hloop1 _ hrun).1 rfl
    rw [hs']
    refine ⟨hbase _ rfl rfl rfl rfl rfl rfl rfl hstd (Or.inr (Or.inl ?_))
      (LPI.early h.lp hpre.notDone hpre.notDone (Nat.le_refl _) (fun hq => (h.lp.nodep hq).1)),
      hpre.notDone, hpre.selected, hnrw, rfl, rfl, ?_⟩
    · refine ⟨hE.started, hE.filtered, hE.selected, hE.notAdd, hE.nrw, hE.alloc, hE.claimable,
        x.leftover, off, x.additional,
        ⟨hGx.d.nodup, hGx.d.total, hGx.d.pinv, hGx.d.count, hGx.d.hon⟩, Or.inr ⟨g.rng, ?_⟩⟩
      show Op.additional (.guar (guarG1 g x)) = _
      simp only [guarG1, hg2]
    · intro hq
      have : s.flags.additional = true := hq
      rw [hpre.notDone] at this; cases this
  · -- the top-up loop completed
    obtain ⟨y, hGy, hby⟩ := (hloop1 _ hrun).2 rfl
    obtain ⟨hy0, hxy⟩ := v2_guarBody_false hby
    subst hxy
    have hxw : x.whitelist = [] := by
      have := hGy.len; rw [hy0] at this
      exact List.eq_nil_of_length_eq_zero this.symm
    have hd := hGy.d
    have htot : x.leftover + x.additional = s.totalGuaranteed := by
      have : x.leftover + x.additional + gSum true s.uts x.whitelist = s.totalGuaranteed := hd.total
      rw [hxw] at this; simpa using this
    have hL0 : L2 s.lastTicketId s.nrWinning s.totalGuaranteed x.status
        (leftZ (guarS1 s x) (guarG1 g x) (rbTx s e).dctx) := by
      refine ⟨?_, hd.count, htot, fun _ ht => ht⟩
      show PosInv s.lastTicketId x.status s.posToId (s.nrWinning + g.offset)
      rw [hg2]; exact hd.pinv
    have hloop2 := fun st (hrun2 : runWhile (leftCoreBody hash true s.nrWinning s.lastTicketId)
        (leftFuel s) b1 (leftZ (guarS1 s x) (guarG1 g x) (rbTx s e).dctx) = .ok (z, b2, st)) =>
      rb_runWhile_inv (L2 s.lastTicketId s.nrWinning s.totalGuaranteed x.status)
        (leftCoreBody hash true s.nrWinning s.lastTicketId)
        (fun y y' hb hp => (v2_leftCore_step hb hp).1 rfl) _ _ _ _ _ _ hrun2 hL0
    have hhon : ∀ (st2 : Nat → Bool), (∀ t, x.status t = true → st2 t = true) →
        ∀ u st r, s.uts u = some st → s.range u = some r →
        (calcV2 st.infos (s.confirmed u)).1 ≤ countWinning st2 r.first (rangeLen r) := by
      intro st2 hm u st r hu hr
      have := hd.hon u st r hu (by show u ∉ x.whitelist; rw [hxw]; simp) hr
      exact Nat.le_trans this (countWinning_mono _ _ _ _ (fun t _ _ ht => hm t ht))
    rcases hcase2 with ⟨hrun2, hs', _⟩ | ⟨hrun2, hs', _⟩
    · -- interrupted in the leftover loop
      have hLz := (hloop2 _ hrun2).1 rfl
      rw [hs']
      refine ⟨hbase _ rfl rfl rfl rfl rfl rfl rfl hstd (Or.inr (Or.inl ?_))
        (LPI.early h.lp hpre.notDone hpre.notDone (Nat.le_refl _) (fun hq => (h.lp.nodep hq).1)),
        hpre.notDone, hpre.selected, hnrw, rfl, rfl, ?_⟩
      · refine ⟨hE.started, hE.filtered, hE.selected, hE.notAdd, hE.nrw, hE.alloc, hE.claimable,
          z.leftover, z.offset, z.additional,
          ⟨?_, ?_, hLz.pinv, hLz.count, ?_⟩, Or.inr ⟨z.rng, rfl⟩⟩
        · show x.whitelist.Nodup
          rw [hxw]; exact List.nodup_nil
        · show z.leftover + z.additional + gSum true s.uts x.whitelist = s.totalGuaranteed
          rw [hxw]; simpa using hLz.total
        · intro u st r hu _ hr
          exact hhon z.status hLz.mono u st r hu hr
      · intro hq
        have : s.flags.additional = true := hq
        rw [hpre.notDone] at this; cases this
    · -- completed
      obtain ⟨y2, hLy, hby2⟩ := (hloop2 _ hrun2).2 rfl
      obtain ⟨k1, k2, k3, k4, _, k6, k7⟩ := (v2_leftCore_step hby2 hLy).2 rfl
      have hle : s.nrWinning + y2.additional ≤ s.lastTicketId :=
        LInv.le_last (x := LCore.lift default y2) ⟨hLy.pinv, hLy.count⟩
      have hadd : z.additional = min s.totalGuaranteed (s.lastTicketId - s.nrWinning) := by
        have := hLy.total
        rw [k4]
        rcases k7 with k7 | k7 <;> omega
      have hcnt : countTrue z.status s.lastTicketId = s.nrWinning + z.additional := by
        rw [k1, k4]; exact hLy.count
      have hD' := v2_handover (c := s.core) hE.alloc hE.started hE.filtered hE.selected
        (st' := z.status) (pi' := z.posToId) (W := s.nrWinning + z.additional)
        (cl := s.claimablePayment + s.price * z.additional) hcnt (by
          show s.claimablePayment + s.price * z.additional = s.price * (s.nrWinning + z.additional)
          rw [hclm, Nat.mul_add])
      have hLP : LPI (distDone s x z).gcore (distDone s x z).lproj := by
        have hl := h.lp
        have hpr := hl.pre hpre.notDone
        have hcf : ∀ a, s.userTotal a = 0 ∧ s.userClaimed a = 0 ∧ s.claimed a = false := hpr.fresh
        have hnz : s.deposited = false → s.nrWinning + z.additional = 0 := fun hq =>
          v2_PhD_nrw_zero hD' (hl.nodep hq).1
        refine ⟨hl.sched, fun hq => ?_, (fun hq => by have : true = false := hq; cases this), fun _ => ⟨⟨[], List.nodup_nil,
          fun a _ => ⟨(hcf a).1, (hcf a).2.1⟩, Or.inl ⟨?_, s.nrWinning + z.additional, ?_, ?_, ?_⟩⟩,
          fun a => ?_, fun a _ => (hcf a).1⟩⟩
        · obtain ⟨q1, q2, q3, q4, _⟩ := hl.nodep hq
          exact ⟨q1, q2, q3, q4, fun _ => hnz hq⟩
        · show s.bal (.esdt s.lpTok) 0 + 0 = s.totalDeposited
          cases hdp : s.deposited with
          | true =>
            have h1 : s.bal (.esdt s.lpTok) 0 = s.totalDeposited := (hpr.dep hdp).1
            rw [h1]; rfl
          | false =>
            obtain ⟨_, q2, q3, _⟩ := hl.nodep hdp
            have q2' : s.bal (.esdt s.lpTok) 0 = 0 := q2
            have q3' : s.totalDeposited = 0 := q3
            rw [q2', q3']
        · show s.claimablePayment + s.price * z.additional = s.price * (s.nrWinning + z.additional)
          rw [hclm, Nat.mul_add]
        · show (s.nrWinning + z.additional) * s.perTicket
            = s.perTicket * (s.nrWinning + z.additional) + 0
          rw [Nat.mul_comm]; rfl
        · show (s.nrWinning + z.additional) * s.perTicket ≤ s.totalDeposited
          cases hdp : s.deposited with
          | true =>
            have h2 : s.perTicket * (s.nrWinning + s.totalGuaranteed) ≤ s.totalDeposited := (hpr.dep hdp).2
            have h3 : s.nrWinning + z.additional ≤ s.nrWinning + s.totalGuaranteed := by omega
            rw [Nat.mul_comm]
            exact Nat.le_trans (Nat.mul_le_mul_left _ h3) h2
          | false => rw [hnz hdp]; simp
        · show s.userClaimed a ≤ s.userTotal a
          rw [(hcf a).1, (hcf a).2.1]; exact Nat.le_refl _
      rw [hs']
      refine ⟨hbase _ rfl rfl rfl rfl rfl rfl rfl hstd (Or.inr (Or.inr ⟨hD', rfl, ?_, ?_⟩)) hLP,
        hpre.notDone, hpre.selected, hnrw, rfl, rfl, ?_⟩
      · show FlagsIn s.lastTicketId z.status
        intro t ht
        rw [k1] at ht
        exact hLy.pinv.inside t ht
      · intro u st r hu hr
        exact hhon z.status (fun t ht => by rw [k1]; exact hLy.mono t ht) u st r hu hr
      · intro _
        refine ⟨?_, hcnt, ?_⟩
        · show s.nrWinning + z.additional = _
          rw [hadd]
        · show s.claimablePayment + s.price * z.additional = s.price * (s.nrWinning + z.additional)
          rw [hclm, Nat.mul_add]

theorem v2_distribute {T0 : Nat} {hash : List Nat → List Nat} {s s' : State} {e : Env} {o : Out}
    {r : Nat} (h : WF2 T0 s r) (_hr : r ≤ e.round)
    (hs : step hash s e .distribute = .ok (s', o)) : WF2 T0 s' e.round :=
  (v2_distribute_full h hs).1

end LP
