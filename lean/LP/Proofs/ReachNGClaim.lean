import LP.Proofs.ReachNGSec
/-
  LP.Proofs.ReachNGClaim — preservation of `ng_WF` by a participant's settlement (`claim` = common
  claim + `claimNft`) and by the owner's withdrawal (`claimPayment` = common withdrawal +
  `claimNftPayment`) of `Variant.nftGuar`.  The fee / ticket-payment part is that of
  `LP/Proofs/ReachNftClaim.lean` (whose shape lemmas are stated for every variant with the NFT
  hook); new is the launchpad-token coverage (`lp`), which uses that the fee slot is not the
  launchpad-token slot (`ng_LpSep`).
-/
namespace LP
open LP.FY LP.Props.C09 LP.Props.C14

theorem ng_claim {T0 : Nat} {hash : List Nat → List Nat} {s s' : State} {e : Env} {o : Out}
    {r : Nat} (h : ng_WF T0 s r) (_hr : r ≤ e.round)
    (hs : step hash s e .claim = .ok (s', o)) : ng_WF T0 s' e.round := by
  obtain ⟨_, hv2, _⟩ := ng_flags h.var
  obtain ⟨rg, hacc, hdle, rfl⟩ := nf_claim_shape hash s e s' o hv2 hs
  obtain ⟨_, _, hst, hncl, hrg, hnw, hwle, hXb, hlpb⟩ := hacc
  obtain ⟨hsel, hc1, hc2⟩ := rb_stage_claim hst
  have hadd : s.flags.additional = true := (claim_stage_selected hst).2.1
  have hD : PhD (nf_core s) := ng_phase_D h.phase hadd
  have hs0 := h.side
  have hok : NftOk s := ⟨hs0.nodupP, hs0.nodupW, hs0.disj⟩
  have hcatP : nftCategory s e.caller = 2 ↔ e.caller ∈ s.payers := (nftCategory_iff s e.caller hok).2.1
  obtain ⟨l1, l2, l3, l4, l5, l6, l7⟩ :=
    nf_claim_lists (P := s.payers) (W := s.nftWinners) e.caller hs0.nodupP hs0.nodupW
      (nftCategory s e.caller = 2) hcatP
  -- abbreviations
  obtain ⟨P', hP'⟩ : ∃ P', P' = (if nftCategory s e.caller = 2 then (swapRemove s.payers e.caller).1
    else s.payers) := ⟨_, rfl⟩
  obtain ⟨W', hW'⟩ : ∃ W', W' = (swapRemove s.nftWinners e.caller).1 := ⟨_, rfl⟩
  obtain ⟨δ, hδ⟩ : ∃ δ, δ = nf_delta s e.caller := ⟨_, rfl⟩
  obtain ⟨X, hX⟩ : ∃ X, X = s.price * (s.confirmed e.caller - winCount s e.caller) := ⟨_, rfl⟩
  rw [← hP'] at l1 l3 l6 l7
  rw [← hW'] at l2 l4 l5
  rw [← hP', ← hW', ← hδ]
  rw [← hδ] at hdle
  rw [← hX] at hXb
  have hw : winCount s e.caller = countWinning s.status rg.first (rangeLen rg) := winCount_of_range hrg
  -- the balances after the common part
  have hBApay : (balAfterClaim s e.caller) s.payTok 0 = s.bal s.payTok 0 - X := by
    rw [hX]; unfold balAfterClaim
    simp [Bal.sub, h.tokNe]
  have hBAoth : ∀ k n, ¬ (k = s.payTok ∧ n = 0) → ¬ (k = .esdt s.lpTok ∧ n = 0) →
      (balAfterClaim s e.caller) k n = s.bal k n := by
    intro k n b1 b2
    simp only [balAfterClaim, Bal.sub, b1, b2, if_false]
  -- the fee liability drops by the refund
  have hheld : (nf_side s).held = s.claimableNft + s.nftCost.amount * s.payers.length := by
    simp [nf_Side.held, nf_side, hadd]
  obtain ⟨B', hB'⟩ : ∃ B', B' = (balAfterClaim s e.caller).sub s.nftCost.tok s.nftCost.nonce δ := ⟨_, rfl⟩
  rw [← hB']
  have hheld' : (nf_side (nf_claimState s e.caller rg P' W' B')).held + δ = (nf_side s).held := by
    rw [hheld]
    have e1 : (nf_side (nf_claimState s e.caller rg P' W' B')).held
        = s.claimableNft + s.nftCost.amount * P'.length := by
      simp [nf_Side.held, nf_side, nf_claimState, settledState, hadd]
    rw [e1, hδ]
    unfold nf_delta
    by_cases h2c : nftCategory s e.caller = 2
    · rw [if_pos h2c, ← l6 h2c, Nat.mul_add]; omega
    · rw [if_neg h2c, l7 h2c]; omega
  have hsame : (nf_side (nf_claimState s e.caller rg P' W' B')).same ↔ (nf_side s).same := Iff.rfl
  have hisLp : (nf_side (nf_claimState s e.caller rg P' W' B')).isLp ↔ (nf_side s).isLp := Iff.rfl
  -- the refund is covered by the ticket part
  have hpost : (nf_side s).tix = s.claimablePayment + sumOver (dueC (nf_core s)) hD.led.choose :=
    hD.led.choose_spec.2.2.1
  have hXle : X ≤ (nf_side s).tix := by
    obtain ⟨L, hnd, hsupp, hpost, _⟩ := hD.led
    have hpost' : (nf_side s).tix = s.claimablePayment + sumOver (dueC (nf_core s)) L := hpost
    by_cases hc0 : s.confirmed e.caller = 0
    · rw [hX, hc0]; simp
    · have haL : e.caller ∈ L := hsupp e.caller hc0
      have hle := rb_le_sumOver (dueC (nf_core s)) L e.caller haL
      have hdue : dueC (nf_core s) e.caller = X := by
        have hwo : winOf (nf_core s).range (nf_core s).status e.caller
            = countWinning s.status rg.first (rangeLen rg) := by
          show winOf s.range s.status e.caller = _
          simp only [winOf, hrg]
        have : (nf_core s).range e.caller = some rg := hrg
        simp only [dueC, this]
        rw [hwo, hX, hw]
        rfl
      omega
  have hfl := nf_feeIn_le hs0
  have hfl' : (nf_side s).feeIn ≤ s.bal s.payTok 0 := hfl
  have htixadd := nf_tix_add hs0
  have htixadd' : (nf_side s).tix + (nf_side s).feeIn = s.bal s.payTok 0 := htixadd
  have hB'pay_same : (nf_side s).same → B' s.payTok 0 = s.bal s.payTok 0 - X - δ := by
    intro hsm
    have hsm' : s.nftCost.tok = s.payTok ∧ s.nftCost.nonce = 0 := hsm
    rw [hB', hsm'.1, hsm'.2]
    simp only [Bal.sub, and_self, if_true]
    rw [← hBApay]
  have hB'pay_ns : ¬ (nf_side s).same → B' s.payTok 0 = s.bal s.payTok 0 - X := by
    intro hsm
    have hsm' : ¬ (s.payTok = s.nftCost.tok ∧ 0 = s.nftCost.nonce) := by
      intro hh; exact hsm ⟨hh.1.symm, hh.2.symm⟩
    rw [hB']
    simp only [Bal.sub, hsm', if_false]
    rw [← hBApay]
  have hkey : (nf_side (nf_claimState s e.caller rg P' W' B')).tix = (nf_side s).tix - X ∧
      ((nf_side s).same → (nf_side (nf_claimState s e.caller rg P' W' B')).held ≤ B' s.payTok 0) := by
    by_cases hsm : (nf_side s).same
    · have hsm' : s.nftCost.tok = s.payTok ∧ s.nftCost.nonce = 0 := hsm
      have hfi : (nf_side s).feeIn = (nf_side s).held := by unfold nf_Side.feeIn; rw [if_pos hsm]
      have hdle' : δ ≤ s.bal s.payTok 0 - X := by
        rw [hsm'.1, hsm'.2, hBApay] at hdle; exact hdle
      have hbp := hB'pay_same hsm
      refine ⟨?_, fun _ => by omega⟩
      unfold nf_Side.tix
      have hfi' : (nf_side (nf_claimState s e.caller rg P' W' B')).feeIn
          = (nf_side (nf_claimState s e.caller rg P' W' B')).held := by
        unfold nf_Side.feeIn; rw [if_pos (hsame.mpr hsm)]
      rw [hfi']
      show B' s.payTok 0 - _ = s.bal s.payTok 0 - (nf_side s).feeIn - X
      omega
    · refine ⟨?_, fun hh => absurd hh hsm⟩
      have hfi : (nf_side s).feeIn = 0 := by unfold nf_Side.feeIn; rw [if_neg hsm]
      have hbp := hB'pay_ns hsm
      unfold nf_Side.tix
      have hfi' : (nf_side (nf_claimState s e.caller rg P' W' B')).feeIn = 0 := by
        unfold nf_Side.feeIn; rw [if_neg (fun hh => hsm (hsame.mp hh))]
      rw [hfi']
      show B' s.payTok 0 - 0 = s.bal s.payTok 0 - (nf_side s).feeIn - X
      omega
  obtain ⟨htix, hcover⟩ := hkey
  -- the phase
  have hcw := (rb_clearRange_spec (nf_core s).status (nf_core s).posToId rg.first (rangeLen rg)).2.2
  have hD' := rb_claim_phase (c := nf_core s) hD (a := e.caller) (r := rg) hrg
    (bt := upd s.batch rg.first none) (pb := (nf_side s).tix - X) (by
      rw [hcw, hX, hw]; rfl)
  unfold claimCore at hD'
  rw [hcw] at hD'
  refine ng_WF_build (nf_side (nf_claimState s e.caller rg P' W' B')) rfl ?_ h.var h.pricePos h.tokNe
    h.static ?_ ?_ ?_ ?_ ?_
  · refine ⟨?_, ?_, ?_, l1, l2, ?_, Nat.le_trans l5 hs0.winLe, ?_, ?_, ?_, ?_⟩
    · intro t k b1 b2 b3
      show B' t k = 0
      have b3' : ¬ (t = s.nftCost.tok ∧ k = s.nftCost.nonce) := b3
      rw [hB']
      simp only [Bal.sub, b3', if_false]
      rw [hBAoth t k b1 b2]
      exact hs0.balOther t k b1 b2 b3
    · intro hsm; exact hcover (hsame.mp hsm)
    · intro b1 b2
      have b1' : ¬ (nf_side s).same := fun hh => b1 (hsame.mpr hh)
      have b2' : ¬ (nf_side s).isLp := fun hh => b2 (hisLp.mpr hh)
      have := hs0.feeEq b1' b2'
      have this' : s.bal s.nftCost.tok s.nftCost.nonce = (nf_side s).held := this
      show B' s.nftCost.tok s.nftCost.nonce = _
      have hBc : B' s.nftCost.tok s.nftCost.nonce
          = (balAfterClaim s e.caller) s.nftCost.tok s.nftCost.nonce - δ := by
        rw [hB']; simp [Bal.sub]
      rw [hBc, hBAoth s.nftCost.tok s.nftCost.nonce b1' b2', this']
      omega
    · intro a ha
      have ha' : a ∈ P' := ha
      show a ∉ W'
      intro hw'
      exact hs0.disj a ((l3 a).mp ha').1 ((l4 a).mp hw').1
    · intro a ha
      have ha' : a ∈ P' ∨ a ∈ W' := ha
      show 0 < upd s.confirmed e.caller 0 a
      have hne : a ≠ e.caller := by
        rcases ha' with h1 | h1
        · exact ((l3 a).mp h1).2
        · exact ((l4 a).mp h1).2
      rw [upd_other _ _ _ _ hne]
      rcases ha' with h1 | h1
      · exact hs0.conf a (Or.inl ((l3 a).mp h1).1)
      · exact hs0.conf a (Or.inr ((l4 a).mp h1).1)
    · intro hq
      have hq' : s.flags.additional = false := hq
      rw [hadd] at hq'; cases hq'
    · intro a hcl
      have hcl' : upd s.claimed e.caller true a = true := hcl
      show a ∉ P' ∧ a ∉ W'
      by_cases hae : a = e.caller
      · subst hae
        exact ⟨fun hh => ((l3 _).mp hh).2 rfl, fun hh => ((l4 _).mp hh).2 rfl⟩
      · rw [upd_other _ _ _ _ hae] at hcl'
        obtain ⟨c1, c2⟩ := hs0.claimedOut a hcl'
        exact ⟨fun hh => c1 ((l3 a).mp hh).1, fun hh => c2 ((l4 a).mp hh).1⟩
    · intro hq
      have hq' : s.flags.selected = false := hq
      rw [hsel] at hq'; cases hq'
  · intro hlt; exfalso; have : e.round < s.cfg.conf := hlt; omega
  · intro _; exact ⟨hc1, hc2⟩
  · intro hq hd
    have hnl : ¬ (nf_side s).isLp := by
      rcases hq with hq | hq
      · exact hq
      · exfalso; have : e.round < s.cfg.conf := hq; omega
    have hnl' : ¬ (Token.esdt s.lpTok = s.nftCost.tok ∧ 0 = s.nftCost.nonce) := by
      intro hh; exact hnl ⟨hh.1.symm, hh.2.symm⟩
    have hopn : ∀ rg, s.op ≠ .additional (.nft rg) := by
      intro rg; have : s.op = .none := hD.op; rw [this]; nofun
    have h0 := h.lp (Or.inl hnl) hd
    rw [ng_owed_of_not hopn] at h0
    have e0 : v1_owed s = s.nrWinning := by
      unfold v1_owed; rw [hadd]; simp
    rw [e0] at h0
    have hne : Token.esdt s.lpTok ≠ s.payTok := fun hh => h.tokNe hh.symm
    have hBlp : B' (.esdt s.lpTok) 0 = s.bal (.esdt s.lpTok) 0 - winCount s e.caller * s.perTicket := by
      rw [hB']
      simp only [Bal.sub, hnl', if_false]
      unfold balAfterClaim
      simp only [Bal.sub, and_self, if_true, hne, false_and, if_false]
    show s.perTicket * ((s.nrWinning - countWinning s.status rg.first (rangeLen rg)) +
        if s.flags.additional = true then 0 else s.totalGuaranteed) ≤ B' (.esdt s.lpTok) 0
    rw [hadd, hBlp, ← hw]
    simp only [if_true, Nat.add_zero]
    exact (LP.Props.C02.cover_after_payout s.perTicket s.nrWinning _ _ hnw h0).2
  · intro hq
    have hq' : s.flags.additional = false := hq
    rw [hadd] at hq'; cases hq'
  · left; right
    rw [htix]
    exact ⟨hadd, hD'⟩

/-! ### the owner's withdrawal -/

theorem ng_claimPayment_shape {hash : List Nat → List Nat} {s : State} {e : Env} {t : Tx}
    (hv : s.variant = .nftGuar) (hne : s.payTok ≠ .esdt s.lpTok)
    (hx : exec hash (rbTx s e) e .claimPayment = .ok t) :
    s.stage e = .claim ∧ s.claimablePayment ≤ s.bal s.payTok 0 ∧
    ∃ (b B : Bal) (cp cn : Nat), t.s = nf_cpState s B cp cn ∧ cp = 0 ∧ cn = 0 ∧
      b s.payTok 0 = s.bal s.payTok 0 - s.claimablePayment ∧
      (∀ k n, ¬ (k = s.payTok ∧ n = 0) → ¬ (k = .esdt s.lpTok ∧ n = 0) → b k n = s.bal k n) ∧
      s.claimableNft ≤ b s.nftCost.tok s.nftCost.nonce ∧
      B = b.sub s.nftCost.tok s.nftCost.nonce s.claimableNft ∧
      b (.esdt s.lpTok) 0 = s.perTicket * s.nrWinning := by
  obtain ⟨hv1, hv2, _⟩ := ng_flags hv
  simp only [exec, rbTx_s, hv1, Bool.false_eq_true, if_false, bind_ok_iff] at hx
  obtain ⟨t1, h1, hfin⟩ := hx
  obtain ⟨hst, hle, b, cp, hs1, hcp, hbp, hbo⟩ := nf_cpc_exact h1 hne
  simp only [rbTx_s] at hst hle hs1 hbp hbo
  have hvar : t1.s.variant = s.variant := by rw [hs1]
  rw [hvar, hv2] at hfin
  simp only [if_true] at hfin
  rw [claimNftPayment_ok_iff] at hfin
  obtain ⟨_, hle2, rfl⟩ := hfin
  have hcn1 : t1.s.claimableNft = s.claimableNft := by rw [hs1]
  have hco1 : t1.s.nftCost = s.nftCost := by rw [hs1]
  have hb1 : t1.s.bal = b := by rw [hs1]
  obtain ⟨_, hsur, _⟩ := LP.Props.C02.owner_gets_only_surplus (rbTx s e) t1 e hne h1
  simp only [rbTx_s] at hsur
  rw [hb1] at hsur
  rw [hcn1, hco1, hb1] at hle2
  refine ⟨hst, hle, b, b.sub s.nftCost.tok s.nftCost.nonce s.claimableNft, cp, 0, ?_, hcp, rfl, hbp,
    hbo, hle2, rfl, hsur⟩
  by_cases hc0 : t1.s.claimableNft > 0
  · rw [if_pos hc0]
    show ({ t1.s with claimableNft := 0, bal := t1.s.bal.sub t1.s.nftCost.tok t1.s.nftCost.nonce t1.s.claimableNft } : State) = _
    rw [hcn1, hco1, hb1, hs1]
    rfl
  · rw [if_neg hc0]
    have hz : s.claimableNft = 0 := by rw [hcn1] at hc0; omega
    rw [hs1, hz, Bal.sub_zero]
    rfl

theorem ng_claimPayment {T0 : Nat} {hash : List Nat → List Nat} {s s' : State} {e : Env} {o : Out}
    {r : Nat} (h : ng_WF T0 s r) (_hr : r ≤ e.round)
    (hs : step hash s e .claimPayment = .ok (s', o)) : ng_WF T0 s' e.round := by
  obtain ⟨t, hx, rfl⟩ := rb_step_np (by intro m hm; simp [endpointMeta] at hm; rw [← hm]) hs
  obtain ⟨hst, hcple, b, B, cp, cn, hs', hcp, hcn, hbp, hbo, hcnle, hB, hsur⟩ :=
    ng_claimPayment_shape h.var h.tokNe hx
  subst hcp hcn
  obtain ⟨hsel, hc1, hc2⟩ := rb_stage_claim hst
  have hadd : s.flags.additional = true := (claim_stage_selected hst).2.1
  have hD : PhD (nf_core s) := ng_phase_D h.phase hadd
  have hs0 := h.side
  obtain ⟨L, hnd, hsupp, hpost, hwin⟩ := hD.led
  have hpost' : (nf_side s).tix = s.claimablePayment + sumOver (dueC (nf_core s)) L := hpost
  have hheld : (nf_side s).held = s.claimableNft + s.nftCost.amount * s.payers.length := by
    simp [nf_Side.held, nf_side, hadd]
  have hheld' : (nf_side (nf_cpState s B 0 0)).held + s.claimableNft = (nf_side s).held := by
    rw [hheld]
    have e1 : (nf_side (nf_cpState s B 0 0)).held = 0 + s.nftCost.amount * s.payers.length := by
      simp [nf_Side.held, nf_side, nf_cpState, hadd]
    rw [e1]; omega
  have hsame : (nf_side (nf_cpState s B 0 0)).same ↔ (nf_side s).same := Iff.rfl
  have hisLp : (nf_side (nf_cpState s B 0 0)).isLp ↔ (nf_side s).isLp := Iff.rfl
  have htixadd := nf_tix_add hs0
  have htixadd' : (nf_side s).tix + (nf_side s).feeIn = s.bal s.payTok 0 := htixadd
  have hkey : (nf_side (nf_cpState s B 0 0)).tix = (nf_side s).tix - s.claimablePayment ∧
      ((nf_side s).same → (nf_side (nf_cpState s B 0 0)).held ≤ B s.payTok 0) := by
    by_cases hsm : (nf_side s).same
    · have hsm' : s.nftCost.tok = s.payTok ∧ s.nftCost.nonce = 0 := hsm
      have hfi : (nf_side s).feeIn = (nf_side s).held := by unfold nf_Side.feeIn; rw [if_pos hsm]
      have hBp : B s.payTok 0 = s.bal s.payTok 0 - s.claimablePayment - s.claimableNft := by
        rw [hB, hsm'.1, hsm'.2]
        simp only [Bal.sub, and_self, if_true]
        rw [hbp]
      rw [hsm'.1, hsm'.2, hbp] at hcnle
      refine ⟨?_, fun _ => by omega⟩
      unfold nf_Side.tix
      have hfi' : (nf_side (nf_cpState s B 0 0)).feeIn = (nf_side (nf_cpState s B 0 0)).held := by
        unfold nf_Side.feeIn; rw [if_pos (hsame.mpr hsm)]
      rw [hfi']
      show B s.payTok 0 - _ = s.bal s.payTok 0 - (nf_side s).feeIn - s.claimablePayment
      omega
    · refine ⟨?_, fun hh => absurd hh hsm⟩
      have hsm' : ¬ (s.payTok = s.nftCost.tok ∧ 0 = s.nftCost.nonce) := by
        intro hh; exact hsm ⟨hh.1.symm, hh.2.symm⟩
      have hfi : (nf_side s).feeIn = 0 := by unfold nf_Side.feeIn; rw [if_neg hsm]
      have hBp : B s.payTok 0 = s.bal s.payTok 0 - s.claimablePayment := by
        rw [hB]
        simp only [Bal.sub, hsm', if_false]
        exact hbp
      unfold nf_Side.tix
      have hfi' : (nf_side (nf_cpState s B 0 0)).feeIn = 0 := by
        unfold nf_Side.feeIn; rw [if_neg (fun hh => hsm (hsame.mp hh))]
      rw [hfi']
      show B s.payTok 0 - 0 = s.bal s.payTok 0 - (nf_side s).feeIn - s.claimablePayment
      omega
  obtain ⟨htix, hcover⟩ := hkey
  rw [hs']
  refine ng_WF_build (nf_side (nf_cpState s B 0 0)) rfl ?_ h.var h.pricePos h.tokNe h.static ?_ ?_ ?_ ?_ ?_
  · refine ⟨?_, ?_, ?_, hs0.nodupP, hs0.nodupW, hs0.disj, hs0.winLe, hs0.conf, hs0.fresh,
      hs0.claimedOut, hs0.noWin⟩
    · intro t k b1 b2 b3
      show B t k = 0
      have b3' : ¬ (t = s.nftCost.tok ∧ k = s.nftCost.nonce) := b3
      rw [hB]
      simp only [Bal.sub, b3', if_false]
      rw [hbo t k b1 b2]
      exact hs0.balOther t k b1 b2 b3
    · intro hsm; exact hcover (hsame.mp hsm)
    · intro b1 b2
      have b1' : ¬ (nf_side s).same := fun hh => b1 (hsame.mpr hh)
      have b2' : ¬ (nf_side s).isLp := fun hh => b2 (hisLp.mpr hh)
      have := hs0.feeEq b1' b2'
      have this' : s.bal s.nftCost.tok s.nftCost.nonce = (nf_side s).held := this
      show B s.nftCost.tok s.nftCost.nonce = _
      have hBc : B s.nftCost.tok s.nftCost.nonce = b s.nftCost.tok s.nftCost.nonce - s.claimableNft := by
        rw [hB]; simp [Bal.sub]
      rw [hBc, hbo s.nftCost.tok s.nftCost.nonce b1' b2', this']
      omega
  · intro hlt; exfalso; have : e.round < s.cfg.conf := hlt; omega
  · intro _; exact ⟨hc1, hc2⟩
  · intro hq _
    have hnl : ¬ (nf_side s).isLp := by
      rcases hq with hq | hq
      · exact hq
      · exfalso; have : e.round < s.cfg.conf := hq; omega
    have hnl' : ¬ (Token.esdt s.lpTok = s.nftCost.tok ∧ 0 = s.nftCost.nonce) := by
      intro hh; exact hnl ⟨hh.1.symm, hh.2.symm⟩
    show s.perTicket * (s.nrWinning + if s.flags.additional = true then 0 else s.totalGuaranteed)
      ≤ B (.esdt s.lpTok) 0
    have hBlp : B (.esdt s.lpTok) 0 = s.perTicket * s.nrWinning := by
      rw [hB]
      simp only [Bal.sub, hnl', if_false]
      exact hsur
    rw [hadd, hBlp]
    simp
  · intro hq
    have hq' : s.flags.additional = false := hq
    rw [hadd] at hq'; cases hq'
  · left; right
    rw [htix]
    refine ⟨hadd, hD.started, hD.filtered, hD.selected, hD.op, hD.rngOk, hD.rngNone, hD.disj,
      L, hnd, hsupp, ?_, hwin⟩
    show (nf_side s).tix - s.claimablePayment = 0 + sumOver (dueC (nf_core s)) L
    omega

end LP
