import LP.Proofs.ZeroAllocNG1
/-
  LP.Proofs.ZeroAllocNG2 — zero-size allocations in `Variant.nftGuar`, part 2: the simulation
  relation `ZSimG` and the simulation of the bodies of `addTicketsV1`, `confirm`, `blacklist`
  (three loops), `claim`, `filter`.

  A zero-size entry `(a, 0, 0, false)` of `addTicketsV1` creates the EMPTY range `[last+1, last]`,
  a zero-size batch at `last+1`, and — `minConfirmed > 0`, so the staking test fails — the
  guarantee record `{a := 0, b := 0, c := 0, d := 0}`; whitelist and reserve are not touched.  The
  erased state has neither the range, nor the batch, nor the record.
  (A zero-size entry `(a, 0, 0, true)` DOES reserve a ticket; see LP/Props/C14zeroG.lean.)
-/
namespace LP
open LP.FY

/-- the zero-size entries allowed here carry no migration guarantee -/
def zc_CallOK : Call → Prop
  | .addTicketsV1 l => ∀ q ∈ l, 1 ≤ q.2.1 + q.2.2.1 ∨ q.2.2.2 = false
  | _ => True

/-- `z` is `s` with the empty ranges, (until the filter has completed) the zero-size batches and
    the guarantee records of the zero-size entries removed; the two address flags of `z` are below
    those of `s`.  A removed record carries no guarantee and its holder is not whitelisted. -/
structure ZSimG (s z : State) : Prop where
  rest : z = zc_w s z.range z.batch z.blacklist z.claimed z.uts
  range : z.range = z_eraseR s.range
  batch : s.flags.filtered = false → z.batch = z_eraseB s.batch
  bl : ∀ a, z.blacklist a = true → s.blacklist a = true
  cl : ∀ a, z.claimed a = true → s.claimed a = true
  uts : ∀ a, z.uts a = s.uts a ∨
    (z.uts a = none ∧ a ∉ s.whitelist ∧ ∃ st, s.uts a = some st ∧ st.c = 0 ∧ st.d = 0)

/-- the relation between the records of the erased state (`U`) and those of the original -/
def zc_UOK (U : Nat → Option UTS) (s : State) : Prop :=
  ∀ a, U a = s.uts a ∨ (U a = none ∧ a ∉ s.whitelist ∧ ∃ st, s.uts a = some st ∧ st.c = 0 ∧ st.d = 0)

theorem ZSimG.eq {s z : State} (h : ZSimG s z) :
    z = zc_w s (z_eraseR s.range) z.batch z.blacklist z.claimed z.uts := by
  have := h.rest
  rw [h.range] at this
  exact this

theorem ZSimG.fields {s z : State} (h : ZSimG s z) :
    z.cfg = s.cfg ∧ z.flags = s.flags ∧ z.variant = s.variant ∧ z.owner = s.owner ∧
    z.confirmed = s.confirmed ∧ z.op = s.op ∧ z.lastTicketId = s.lastTicketId ∧
    z.whitelist = s.whitelist ∧ z.payers = s.payers ∧ z.nftWinners = s.nftWinners ∧
    z.minConfirmed = s.minConfirmed := by
  have := h.rest
  refine ⟨?_, ?_, ?_, ?_, ?_, ?_, ?_, ?_, ?_, ?_, ?_⟩
  · have := congrArg State.cfg this; exact this
  · have := congrArg State.flags this; exact this
  · have := congrArg State.variant this; exact this
  · have := congrArg State.owner this; exact this
  · have := congrArg State.confirmed this; exact this
  · have := congrArg State.op this; exact this
  · have := congrArg State.lastTicketId this; exact this
  · have := congrArg State.whitelist this; exact this
  · have := congrArg State.payers this; exact this
  · have := congrArg State.nftWinners this; exact this
  · have := congrArg State.minConfirmed this; exact this

theorem ZSimG.shape' {s z : State} (h : ZSimG s z) : ∃ R B K C U, z = zc_w s R B K C U :=
  ⟨_, _, _, _, _, h.rest⟩

/-! ### allocation -/

open LP.Props.C18 in
/-- an allocation of at least one ticket is matched by the same allocation on the erased state -/
theorem zc_tryCreate_pos {s s' : State} {a n : Nat} (K C : Nat → Bool) (U : Nat → Option UTS)
    (hn : 1 ≤ n) (h : tryCreateTickets s a n = .ok s') (hd : z_Hd s) :
    tryCreateTickets (zc_w s (z_eraseR s.range) (z_eraseB s.batch) K C U) a n
      = .ok (zc_w s' (z_eraseR s'.range) (z_eraseB s'.batch) K C U) ∧ z_Hd s' := by
  rw [tryCreateTickets_ok_iff] at h
  obtain ⟨h1, h2, rfl⟩ := h
  constructor
  · rw [tryCreateTickets_ok_iff]
    refine ⟨z_eraseR_of_none h1, h2, ?_⟩
    have e1 : z_eraseR (upd s.range a (some ⟨s.lastTicketId + 1, s.lastTicketId + 1 + n - 1⟩))
        = upd (z_eraseR s.range) a (some ⟨s.lastTicketId + 1, s.lastTicketId + 1 + n - 1⟩) :=
      z_eraseR_upd_ne _ _ _ (by show s.lastTicketId + 1 ≤ s.lastTicketId + 1 + n - 1; omega)
    have e2 : z_eraseB (upd s.batch (s.lastTicketId + 1) (some ⟨a, n⟩))
        = upd (z_eraseB s.batch) (s.lastTicketId + 1) (some ⟨a, n⟩) :=
      z_eraseB_upd_pos _ _ _ (by show n ≠ 0; omega)
    show zc_w _ (z_eraseR (upd s.range a _)) (z_eraseB (upd s.batch _ _)) K C U = _
    rw [e1, e2]; rfl
  · intro i b hi hb
    have hi' : s.lastTicketId + 1 + n - 1 < i := hi
    have hb' : upd s.batch (s.lastTicketId + 1) (some ⟨a, n⟩) i = some b := hb
    rw [upd_other _ _ _ _ (by omega)] at hb'
    exact hd i b (by omega) hb'

open LP.Props.C18 in
/-- a zero-size allocation is invisible on the erased state -/
theorem zc_tryCreate_zero {s s' : State} {a : Nat} (K C : Nat → Bool) (U : Nat → Option UTS)
    (h : tryCreateTickets s a 0 = .ok s') (hd : z_Hd s) :
    zc_w s' (z_eraseR s'.range) (z_eraseB s'.batch) K C U
      = zc_w s (z_eraseR s.range) (z_eraseB s.batch) K C U ∧ z_Hd s' ∧
    s.range a = none ∧ s'.whitelist = s.whitelist ∧ s'.uts = s.uts ∧
    s'.minConfirmed = s.minConfirmed := by
  rw [tryCreateTickets_ok_iff] at h
  obtain ⟨h1, h2, rfl⟩ := h
  have hl : s.lastTicketId + 1 + 0 - 1 = s.lastTicketId := by omega
  refine ⟨?_, ?_, h1, rfl, rfl, rfl⟩
  · have e1 : z_eraseR (upd s.range a (some ⟨s.lastTicketId + 1, s.lastTicketId + 1 + 0 - 1⟩))
        = z_eraseR s.range := by
      rw [z_eraseR_upd_empty _ _ _ (by show ¬ s.lastTicketId + 1 ≤ s.lastTicketId + 1 + 0 - 1; omega)]
      exact z_upd_none_self _ _ (z_eraseR_of_none h1)
    have e2 : z_eraseB (upd s.batch (s.lastTicketId + 1) (some ⟨a, 0⟩)) = z_eraseB s.batch := by
      rw [z_eraseB_upd_zero _ _ _ rfl]
      apply z_upd_none_self
      cases hb : z_eraseB s.batch (s.lastTicketId + 1) with
      | none => rfl
      | some b =>
        obtain ⟨k1, k2⟩ := z_eraseB_some.mp hb
        exact absurd (hd _ b (by omega) k1) k2
    show zc_w _ (z_eraseR (upd s.range a _)) (z_eraseB (upd s.batch _ _)) K C U = _
    rw [e1, e2]
    show ({ s with lastTicketId := s.lastTicketId + 1 + 0 - 1, range := _, batch := _, blacklist := K,
                   claimed := C, uts := U } : State) = _
    rw [hl]; rfl
  · intro i b hi hb
    have hi' : s.lastTicketId + 1 + 0 - 1 < i := hi
    have hb' : upd s.batch (s.lastTicketId + 1) (some ⟨a, 0⟩) i = some b := hb
    by_cases hx : i = s.lastTicketId + 1
    · rw [hx, upd_same] at hb'
      injection hb' with hb'; rw [← hb']
    · rw [upd_other _ _ _ _ hx] at hb'
      exact hd i b (by omega) hb'

open LP.Props.C18 in
theorem zc_tryCreate_frame {s s' : State} {a n : Nat} (h : tryCreateTickets s a n = .ok s') :
    s'.blacklist = s.blacklist ∧ s'.claimed = s.claimed ∧ s'.flags = s.flags ∧
    s'.whitelist = s.whitelist ∧ s'.uts = s.uts ∧ s'.minConfirmed = s.minConfirmed ∧
    s.range a = none ∧ ∀ b, b ≠ a → s'.range b = s.range b := by
  rw [tryCreateTickets_ok_iff] at h
  obtain ⟨h1, _, rfl⟩ := h
  exact ⟨rfl, rfl, rfl, rfl, rfl, rfl, h1, fun b hb => upd_other _ _ _ _ hb⟩

/-- the reserve part of one v1 allocation entry: new whitelist, record, counters -/
def zc_one (mc : Nat) (wl0 : List Nat) (buyer staking energy : Nat) (migrated : Bool) (tw tg : Nat) :
    Res (List Nat × UTS × Nat × Nat) :=
  if (decide (staking ≥ mc) && tw == 0) = true then .error (.user "Too many users with guaranteed ticket") else
  let p : List Nat × Nat × Nat × Nat :=
    if decide (staking ≥ mc) = true then ((setInsert wl0 buyer).1, tw - 1, tg + 1, 1) else (wl0, tw, tg, 0)
  if (migrated && p.2.1 == 0) = true then .error (.user "Too many users with guaranteed ticket") else
  let q : List Nat × Nat × Nat × Nat :=
    if migrated = true then ((setInsert p.1 buyer).1, p.2.1 - 1, p.2.2.1 + 1, 1) else (p.1, p.2.1, p.2.2.1, 0)
  .ok (q.1, { a := staking, b := energy, c := p.2.2.2, d := q.2.2.2 }, q.2.1, q.2.2.1)

theorem zc_addV1Many_cons (buyer staking energy : Nat) (migrated : Bool)
    (rest : List (Nat × Nat × Nat × Bool)) (s : State) (tw tg : Nat) :
    addV1Many ((buyer, staking, energy, migrated) :: rest) (s, tw, tg) =
      match tryCreateTickets s buyer (staking + energy) with
      | .error e => .error e
      | .ok s1 =>
        match zc_one s1.minConfirmed s1.whitelist buyer staking energy migrated tw tg with
        | .error e => .error e
        | .ok (wl, rc, tw', tg') =>
          addV1Many rest ({ s1 with whitelist := wl, uts := upd s1.uts buyer (some rc) }, tw', tg') := by
  rw [addV1Many]
  cases tryCreateTickets s buyer (staking + energy) with
  | error e => rfl
  | ok s1 =>
    simp only [zc_one]
    by_cases h1 : staking ≥ s1.minConfirmed <;> by_cases h2 : tw = 0 <;> cases migrated <;>
      simp [h1, h2]
    all_goals (split <;> simp_all)


theorem zc_setInsert_mem {l : List Nat} {b a : Nat} (h : a ∈ (setInsert l b).1) : a ∈ l ∨ a = b := by
  unfold setInsert at h
  split at h
  · exact Or.inl h
  · simp only [List.mem_append, List.mem_singleton] at h
    exact h

theorem zc_one_zero {mc : Nat} (h : 0 < mc) (wl0 : List Nat) (buyer tw tg : Nat) :
    zc_one mc wl0 buyer 0 0 false tw tg = .ok (wl0, { a := 0, b := 0, c := 0, d := 0 }, tw, tg) := by
  have : ¬ (0 ≥ mc) := by omega
  simp [zc_one, this]

theorem zc_one_mem {mc : Nat} {wl0 wl : List Nat} {buyer staking energy : Nat} {migrated : Bool}
    {tw tg tw' tg' : Nat} {rc : UTS}
    (h : zc_one mc wl0 buyer staking energy migrated tw tg = .ok (wl, rc, tw', tg')) :
    ∀ a, a ∈ wl → a ∈ wl0 ∨ a = buyer := by
  intro a ha
  unfold zc_one at h
  by_cases h1 : staking ≥ mc <;> cases migrated <;> simp [h1] at h
  all_goals (repeat' (split at h))
  all_goals (first | (cases h; done) | skip)
  all_goals (try simp only [Except.ok.injEq, Prod.mk.injEq] at h)
  all_goals (obtain ⟨rfl, _⟩ := h)
  · exact zc_setInsert_mem ha
  · rcases zc_setInsert_mem ha with ha | ha
    · exact zc_setInsert_mem ha
    · exact Or.inr ha
  · exact Or.inl ha
  · exact zc_setInsert_mem ha

/-- **`addV1Many l` on `s` is matched by `addV1Many (l without the zero-size entries)` on the
    erased state** -/
theorem zc_addV1Many (K C : Nat → Bool) : ∀ (l : List (Nat × Nat × Nat × Bool)) {s s' : State}
    {tw tg tw' tg' : Nat} (U : Nat → Option UTS),
    addV1Many l (s, tw, tg) = .ok (s', tw', tg') → z_Hd s → 0 < s.minConfirmed →
    (∀ q ∈ l, 1 ≤ q.2.1 + q.2.2.1 ∨ q.2.2.2 = false) →
    (∀ a, z_eraseR s.range a = none → U a = none ∧ a ∉ s.whitelist) →
    zc_UOK U s →
    ∃ U', addV1Many (l.filter (fun q => decide (1 ≤ q.2.1 + q.2.2.1)))
          (zc_w s (z_eraseR s.range) (z_eraseB s.batch) K C U, tw, tg)
        = .ok (zc_w s' (z_eraseR s'.range) (z_eraseB s'.batch) K C U', tw', tg') ∧ z_Hd s' ∧
      s'.blacklist = s.blacklist ∧ s'.claimed = s.claimed ∧ s'.flags = s.flags ∧ zc_UOK U' s'
  | [], s, s', tw, tg, tw', tg', U, h, hd, _, _, _, hU => by
    simp only [addV1Many, Except.ok.injEq, Prod.mk.injEq] at h
    obtain ⟨rfl, rfl, rfl⟩ := h
    exact ⟨U, rfl, hd, rfl, rfl, rfl, hU⟩
  | (buyer, staking, energy, migrated) :: rest, s, s', tw, tg, tw', tg', U, h, hd, hmc, hq, hI, hU => by
    rw [zc_addV1Many_cons] at h
    cases h1 : tryCreateTickets s buyer (staking + energy) with
    | error err => rw [h1] at h; cases h
    | ok s1 =>
      rw [h1] at h
      simp only at h
      obtain ⟨f1, f2, f3, f4, f5, f6, f7, f8⟩ := zc_tryCreate_frame h1
      cases h2 : zc_one s1.minConfirmed s1.whitelist buyer staking energy migrated tw tg with
      | error err => rw [h2] at h; cases h
      | ok r =>
        obtain ⟨wl, rc, tw2, tg2⟩ := r
        rw [h2] at h
        simp only at h
        have hwl : ∀ a, a ∈ wl → a ∈ s.whitelist ∨ a = buyer := by
          intro a ha
          have := zc_one_mem h2 a ha
          rw [f4] at this
          exact this
        by_cases hn : 1 ≤ staking + energy
        · obtain ⟨k1, k2⟩ := zc_tryCreate_pos K C U hn h1 hd
          have hne : z_eraseR s1.range buyer ≠ none := by
            obtain ⟨_, _, rfl⟩ := (LP.Props.C18.tryCreateTickets_ok_iff _ _ _ _).mp h1
            show z_eraseR (upd s.range buyer _) buyer ≠ none
            rw [z_eraseR_upd_ne _ _ _ (by show s.lastTicketId + 1 ≤ s.lastTicketId + 1 + (staking + energy) - 1; omega)]
            simp
          obtain ⟨U', i1, i2, i3, i4, i5, i6⟩ := zc_addV1Many K C rest (upd U buyer (some rc)) h k2
            (by show 0 < s1.minConfirmed; rw [f6]; exact hmc)
            (fun q hq' => hq q (List.mem_cons_of_mem _ hq'))
            (by
              intro a ha
              have ha' : z_eraseR s1.range a = none := ha
              by_cases hab : a = buyer
              · subst hab; exact absurd ha' hne
              · have h3 : z_eraseR s.range a = none := by
                  unfold z_eraseR at ha' ⊢
                  rw [f8 a hab] at ha'
                  exact ha'
                obtain ⟨u1, u2⟩ := hI a h3
                refine ⟨by rw [upd_other _ _ _ _ hab]; exact u1, ?_⟩
                intro hm
                rcases hwl a hm with hm | hm
                · exact u2 hm
                · exact hab hm)
            (by
              intro a
              by_cases hab : a = buyer
              · subst hab
                left
                show upd U a (some rc) a = upd s1.uts a (some rc) a
                rw [upd_same, upd_same]
              · have hu2 : upd U buyer (some rc) a = U a := upd_other _ _ _ _ hab
                have hs2 : upd s1.uts buyer (some rc) a = s.uts a := by
                  rw [upd_other _ _ _ _ hab, f5]
                rcases hU a with hl | ⟨u1, u2, u3⟩
                · left
                  show upd U buyer (some rc) a = upd s1.uts buyer (some rc) a
                  rw [hu2, hs2]; exact hl
                · right
                  refine ⟨by rw [hu2]; exact u1, ?_, ?_⟩
                  · intro hm
                    rcases hwl a hm with hm | hm
                    · exact u2 hm
                    · exact hab hm
                  · show ∃ st, upd s1.uts buyer (some rc) a = some st ∧ _
                    rw [hs2]; exact u3)
          refine ⟨U', ?_, i2, i3.trans f1, i4.trans f2, i5.trans f3, i6⟩
          rw [List.filter_cons_of_pos (by simpa using hn), zc_addV1Many_cons, k1]
          simp only
          have h2' : zc_one (zc_w s1 (z_eraseR s1.range) (z_eraseB s1.batch) K C U).minConfirmed
              (zc_w s1 (z_eraseR s1.range) (z_eraseB s1.batch) K C U).whitelist buyer staking energy
              migrated tw tg = .ok (wl, rc, tw2, tg2) := h2
          rw [h2']
          exact i1
        · have hst : staking = 0 := by omega
          have hen : energy = 0 := by omega
          have hmg : migrated = false := by
            rcases hq _ (List.mem_cons_self ..) with hh | hh
            · exact absurd hh hn
            · exact hh
          subst hst hen hmg
          obtain ⟨k1, k2, k3, _⟩ := zc_tryCreate_zero K C U h1 hd
          rw [zc_one_zero (by rw [f6]; exact hmc)] at h2
          simp only [Except.ok.injEq, Prod.mk.injEq] at h2
          obtain ⟨rfl, rfl, rfl, rfl⟩ := h2
          have hb0 : z_eraseR s.range buyer = none := z_eraseR_of_none f7
          obtain ⟨ub1, ub2⟩ := hI buyer hb0
          have hE1 : ∀ a, a ≠ buyer → z_eraseR s1.range a = z_eraseR s.range a := by
            intro a hab
            unfold z_eraseR
            rw [f8 a hab]
          obtain ⟨U', i1, i2, i3, i4, i5, i6⟩ := zc_addV1Many K C rest U h k2
            (by show 0 < s1.minConfirmed; rw [f6]; exact hmc)
            (fun q hq' => hq q (List.mem_cons_of_mem _ hq'))
            (by
              intro a ha
              have ha' : z_eraseR s1.range a = none := ha
              show U a = none ∧ a ∉ s1.whitelist
              rw [f4]
              by_cases hab : a = buyer
              · subst hab; exact ⟨ub1, ub2⟩
              · rw [hE1 a hab] at ha'
                exact hI a ha')
            (by
              intro a
              show U a = upd s1.uts buyer (some _) a ∨ (U a = none ∧ a ∉ s1.whitelist ∧
                ∃ st, upd s1.uts buyer (some _) a = some st ∧ _)
              rw [f4]
              by_cases hab : a = buyer
              · subst hab
                right
                exact ⟨ub1, ub2, _, upd_same _ _ _, rfl, rfl⟩
              · rw [upd_other _ _ _ _ hab, f5]
                exact hU a)
          refine ⟨U', ?_, i2, i3.trans f1, i4.trans f2, i5.trans f3, i6⟩
          rw [List.filter_cons_of_neg (by simp)]
          rw [← k1]
          exact i1

/-- the body of `addTicketsV1` -/
theorem zc_exec_addTicketsV1 {hash : List Nat → List Nat} {t t' : Tx} {e : Env}
    {l : List (Nat × Nat × Nat × Bool)} (K C : Nat → Bool) (U : Nat → Option UTS)
    (h : exec hash t e (.addTicketsV1 l) = .ok t') (hd : z_Hd t.s) (hmc : 0 < t.s.minConfirmed)
    (hq : ∀ q ∈ l, 1 ≤ q.2.1 + q.2.2.1 ∨ q.2.2.2 = false)
    (hI : ∀ a, z_eraseR t.s.range a = none → U a = none ∧ a ∉ t.s.whitelist)
    (hU : zc_UOK U t.s) :
    ∃ U', exec hash (zc_wt t (z_eraseR t.s.range) (z_eraseB t.s.batch) K C U) e
        (.addTicketsV1 (l.filter (fun q => decide (1 ≤ q.2.1 + q.2.2.1))))
      = .ok (zc_wt t' (z_eraseR t'.s.range) (z_eraseB t'.s.batch) K C U') ∧ z_Hd t'.s ∧
    t'.s.blacklist = t.s.blacklist ∧ t'.s.claimed = t.s.claimed ∧ t'.s.flags = t.s.flags ∧
    t'.o = t.o ∧ zc_UOK U' t'.s := by
  simp only [exec, addTicketsV1, bind_ok_iff, pure_ok_iff, requireStage, req_ok_iff, exists_const,
    Prod.exists] at h ⊢
  obtain ⟨s1, ⟨hst, s2, tw, tg, hcm, rfl⟩, rfl⟩ := h
  obtain ⟨U', i1, i2, i3, i4, i5, i6⟩ := zc_addV1Many K C l U hcm hd hmc hq hI hU
  exact ⟨U', ⟨_, ⟨hst, _, _, _, i1, rfl⟩, rfl⟩, i2, i3, i4, i5, rfl, i6⟩

end LP
