import LP.Proofs.ReachG1Frame
/-
  LP.Proofs.ReachG1Ledger — the launchpad-token ledger of `Variant.guarV1` in closed form: once
  every selection step is complete the contract's launchpad-token balance is EXACTLY

      (owner's not yet withdrawn surplus) + perTicket × (winning tickets of the unsettled)
        + Σ over the settled (userTotal − userClaimed),

  read off cases A / B of `LPost`.
-/
namespace LP
open LP.FY

theorem g1_sumOver_sub {f g : Nat → Nat} (hle : ∀ a, g a ≤ f a) (L : List Nat) :
    sumOver (fun a => f a - g a) L + sumOver g L = sumOver f L := by
  induction L with
  | nil => rfl
  | cons a rest ih =>
    simp only [sumOver]
    have := hle a
    omega

/-- the ledger list may be assumed to contain a given address -/
theorem g1_lp_exact_with {T0 : Nat} {s : State} {r : Nat} (h : g1_WF T0 s r) (hd : AllDone s)
    (a : Nat) :
    ∃ L : List Nat, a ∈ L ∧ L.Nodup ∧ (∀ x, x ∉ L → s.userTotal x = 0 ∧ s.userClaimed x = 0) ∧
      s.bal (.esdt s.lpTok) 0 = ownSurplus s + s.perTicket * s.nrWinning
        + sumOver (fun x => s.userTotal x - s.userClaimed x) L := by
  have hp := h.vs.lp.post hd.2
  obtain ⟨L, haL, hnd, hout, hAB⟩ := v2_LPost_with hp a
  have hgap := g1_sumOver_sub (f := s.userTotal) (g := s.userClaimed) hp.le L
  refine ⟨L, haL, hnd, hout, ?_⟩
  unfold ownSurplus
  rcases hAB with ⟨a1, W, w1, w2, w3⟩ | ⟨b1, _, b3⟩
  · have a1' : s.bal (.esdt s.lpTok) 0 + sumOver s.userClaimed L = s.totalDeposited := a1
    have w1' : s.claimablePayment = s.price * W := w1
    have w2' : W * s.perTicket = s.perTicket * s.nrWinning + sumOver s.userTotal L := w2
    have w3' : W * s.perTicket ≤ s.totalDeposited := w3
    have hdiv : s.claimablePayment / s.price = W := by
      rw [w1']; exact Nat.mul_div_cancel_left W h.pricePos
    rw [hdiv]
    split <;> omega
  · have b1' : s.totalDeposited = 0 := b1
    have b3' : s.bal (.esdt s.lpTok) 0 + sumOver s.userClaimed L
        = s.perTicket * s.nrWinning + sumOver s.userTotal L := b3
    rw [if_pos b1']
    omega

theorem g1_lp_exact {T0 : Nat} {s : State} {r : Nat} (h : g1_WF T0 s r) (hd : AllDone s) :
    ∃ L : List Nat, L.Nodup ∧ (∀ x, x ∉ L → s.userTotal x = 0 ∧ s.userClaimed x = 0) ∧
      s.bal (.esdt s.lpTok) 0 = ownSurplus s + s.perTicket * s.nrWinning
        + sumOver (fun x => s.userTotal x - s.userClaimed x) L := by
  obtain ⟨L, _, h2, h3, h4⟩ := g1_lp_exact_with h hd 0
  exact ⟨L, h2, h3, h4⟩

end LP
