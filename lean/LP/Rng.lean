import LP.Basic
/-
  LP.Rng — model of `launchpad-common/src/random.rs`.
  A seed is a list of bytes (32 of them in every reachable state); `hash` is a parameter
  (SHA-256 in the driver, arbitrary in the theorems).
-/
namespace LP

def USIZE_BYTES : Nat := 4
def HASH_LEN : Nat := 32

structure Rng where
  seed : List Nat
  index : Nat
  deriving Repr, DecidableEq, Inhabited

/-- big-endian 4-byte word starting at byte offset `i` -/
def beWord (bs : List Nat) (i : Nat) : Nat :=
  ((bs.getD i 0 * 256 + bs.getD (i+1) 0) * 256 + bs.getD (i+2) 0) * 256 + bs.getD (i+3) 0

/-- `Random::next_usize` (random.rs:35-49): re-hash when fewer than 4 bytes remain. -/
def Rng.next (hash : List Nat → List Nat) (r : Rng) : Nat × Rng :=
  let r' : Rng := if r.index + USIZE_BYTES > HASH_LEN then { seed := hash r.seed, index := 0 } else r
  (beWord r'.seed r'.index, { r' with index := r'.index + USIZE_BYTES })

/-- `Random::next_usize_in_range` given the raw value (random.rs:52-60): range is [min,max). -/
def inRange (raw min max : Nat) : Nat :=
  if min ≥ max then min else min + raw % (max - min)

end LP
