import LP.Vesting
import LP.Nft
/-
  LP.Step — deployment, per-variant endpoint table (who may call, payable) and `step`.
-/
namespace LP

structure Meta where
  ownerOnly : Bool
  payable : Bool
  deriving Repr, DecidableEq

/-- which endpoints a variant exposes, with their `#[only_owner]` / `#[payable]` annotations -/
def endpointMeta (v : Variant) : Call → Option Meta
  | .addTickets _ => if !v.hasGuaranteed then some ⟨true, false⟩ else none
  | .addTicketsV1 _ => if v.v1Alloc then some ⟨true, false⟩ else none
  | .addTicketsV2 _ => if v.isV2 then some ⟨true, false⟩ else none
  | .deposit => some ⟨true, true⟩
  | .setTicketPrice _ _ | .setPerTicket _ | .setConfStart _ | .setSelStart _ | .setClaimStart _
  | .setSupport _ | .pause | .unpause => some ⟨true, false⟩
  | .confirm _ => some ⟨false, true⟩
  | .filter | .select | .claim | .blacklist _ => some ⟨false, false⟩
  | .claimPayment => some ⟨true, false⟩
  | .refundUsers _ => if v.isV2 then some ⟨false, false⟩ else none
  | .unblacklist _ => if v.hasUnblacklist then some ⟨false, false⟩ else none
  | .distribute => if v.hasGuaranteed && v != .nftGuar then some ⟨false, false⟩ else none
  | .setSchedule1 .. => if v == .guarV1 then some ⟨true, false⟩ else none
  | .setSchedule2 _ => if v.isV2 then some ⟨true, false⟩ else none
  | .confirmNft => if v.hasNft then some ⟨false, true⟩ else none
  | .selectNft => if v == .nft then some ⟨false, false⟩ else none
  | .secondary => if v == .nftGuar then some ⟨false, false⟩ else none
  | .setNftCost _ => if v.hasNft then some ⟨true, false⟩ else none
  | .issueSft => if v.hasNft then some ⟨false, true⟩ else none
  | .createSfts | .setTransferRole _ => if v.hasNft then some ⟨false, false⟩ else none
  | .sftSetup => if v.hasNft then some ⟨false, false⟩ else none

/-- deployment (`init` of each crate; `init_base`, launchpad-common lib.rs:39-75) -/
def init (v : Variant) (a : InitArgs) (e : Env) : Res State := do
  if v.hasNft then req (a.availNfts > 0) "Invalid total_available_nfts"
  if v == .nftGuar then
    req (a.minConfirmed > 0) "Invalid minimum tickets confirmed for guaranteed winning ticket"
  req (a.payTok != .esdt a.lpTok) "Launchpad token must be different from ticket payment token"
  req (a.perTicket > 0) "Launchpad tokens per winning ticket cannot be set to zero"
  req a.payTok.valid "Invalid token ID"
  req (a.price > 0) "Ticket price must be higher than 0"
  req (a.nrWinning > 0) "Cannot set number of winning tickets to zero"
  req (validPeriods ⟨a.conf, a.sel, a.claim⟩)
    "Winner selection start round must be after confirm start round"
  let s : State := {
    variant := v, owner := e.caller, lpTok := a.lpTok, perTicket := a.perTicket,
    payTok := a.payTok, price := a.price, nrWinning := a.nrWinning,
    cfg := ⟨a.conf, a.sel, a.claim⟩,
    flags := { additional := v.noAdditionalStep }, support := e.caller }
  let s ← if v.v1Alloc then do
      if v != .nftGuar then
        req (a.minConfirmed > 0) "Invalid minimum tickets confirmed for guaranteed winning ticket"
      pure { s with minConfirmed := a.minConfirmed }
    else pure s
  let s ← if v.hasLock then do
      req (a.lockPct > 0 && a.lockPct ≤ 10000) "Invalid lock percentage"
      req (a.unlockEpoch > e.epoch) "Invalid unlock epoch"
      req (a.lockAddr != 0 && e.isContract a.lockAddr) "Invalid SC address"
      pure { s with lockPct := a.lockPct, unlockEpoch := a.unlockEpoch, lockAddr := a.lockAddr }
    else pure s
  if v.hasNft then do
    validCost a.lpTok a.nftCost
    pure { s with nftCost := a.nftCost, availNfts := a.availNfts }
  else pure s

/-- launchpad tokens reserved for guarantees in the deposit computation
    (crates 7 and 8 after the D2 repair use the ticket total, like 4-6) -/
def reservedForDeposit (s : State) : Nat :=
  if s.variant.hasGuaranteed then s.totalGuaranteed else 0

/-- `claim_ticket_payment` (tickets.rs:40-71) -/
def claimPaymentCommon (t : Tx) (e : Env) : Res Tx := do
  requireStage t.s e .claim "Not in claim period"
  let claimable := t.s.claimablePayment
  let t ← if claimable > 0 then
      (t.setS { t.s with claimablePayment := 0 }).send e.caller ⟨t.s.payTok, 0, claimable⟩
    else pure t
  let balance := t.s.bal (.esdt t.s.lpTok) 0
  let needed := t.s.perTicket * t.s.nrWinning
  let extra ← bsub balance needed "tickets.rs:66 balance - needed"
  if extra > 0 then t.send e.caller ⟨.esdt t.s.lpTok, 0, extra⟩ else pure t

/-- the endpoint bodies -/
def exec (hash : List Nat → List Nat) (t : Tx) (e : Env) : Call → Res Tx
  | .addTickets l => do
    requireStage t.s e .addTickets "Add tickets period has passed"
    let s ← createMany l t.s
    pure (t.setS s)
  | .addTicketsV1 l => do let s ← addTicketsV1 t.s e l; pure (t.setS s)
  | .addTicketsV2 l => addTicketsV2 t e l
  | .deposit => do
    let s ← depositLaunchpadTokens t.s e (t.s.nrWinning + reservedForDeposit t.s)
    pure (t.setS s)
  | .setTicketPrice tok amount => do
    requireStage t.s e .addTickets "Add tickets period has passed"
    let s ← trySetTicketPrice t.s tok amount
    pure ((t.setS s).emit ⟨"setTicketPrice", topics e, [e.caller, e.round, e.epoch, tok.code, 0, amount]⟩)
  | .setPerTicket amount => do
    requireStage t.s e .addTickets "Add tickets period has passed"
    req (!t.s.deposited) "Tokens already deposited"
    req (amount > 0) "Launchpad tokens per winning ticket cannot be set to zero"
    pure (t.setS { t.s with perTicket := amount })
  | .setConfStart r => do
    validTimelineChange e.round t.s.cfg.conf r
    let c := { t.s.cfg with conf := r }
    req (validPeriods c) "invalid time periods"
    pure (t.setS { t.s with cfg := c })
  | .setSelStart r => do
    validTimelineChange e.round t.s.cfg.sel r
    let c := { t.s.cfg with sel := r }
    req (validPeriods c) "invalid time periods"
    pure (t.setS { t.s with cfg := c })
  | .setClaimStart r => do
    validTimelineChange e.round t.s.cfg.claim r
    let c := { t.s.cfg with claim := r }
    req (validPeriods c) "invalid time periods"
    pure (t.setS { t.s with cfg := c })
  | .setSupport a => pure (t.setS { t.s with support := a })
  | .pause => pure ((t.setS { t.s with paused := true }).emit ⟨"pauseContract", [], []⟩)
  | .unpause => pure ((t.setS { t.s with paused := false }).emit ⟨"unpauseContract", [], []⟩)
  | .confirm n => confirmTickets t e n
  | .filter => filterTickets t e
  | .select => selectWinners hash t e
  | .claim =>
    if t.s.variant.vested then claimVested t e else do
      let (s, redeem, refund) ← settle t.s e
      let t ← (t.setS s).refund e e.caller refund
      let t ← t.sendLaunchpadTokens e e.caller redeem
      if t.s.variant.hasNft then claimNft t e else pure t
  | .claimPayment =>
    if t.s.variant.vested then claimPaymentOwn t e else do
      let t ← claimPaymentCommon t e
      if t.s.variant.hasNft then claimNftPayment t e else pure t
  | .blacklist l => do
    let t ← addUsersToBlacklist t e l
    let t ← if t.s.variant.isV2 then do let s ← clearGuaranteedV2 t.s l; pure (t.setS s)
            else if t.s.variant.v1Alloc then do let s ← clearGuaranteedV1 t.s l; pure (t.setS s)
            else pure t
    let t ← if t.s.variant.hasNft then refundNftMany l t else pure t
    if t.s.variant.isV2 then
      pure (t.emit ⟨"addUsersToBlacklist", topics e, [e.caller, e.round, e.epoch, l.length] ++ l⟩)
    else pure t
  | .refundUsers l => do
    let t ← addUsersToBlacklist t e l
    let s ← clearGuaranteedV2 t.s l
    pure (t.setS s)
  | .unblacklist l => do
    let s ← removeUsersFromBlacklist t.s e l
    if s.variant.isV2 then do
      let s ← restoreGuaranteedV2 s l
      pure ((t.setS s).emit ⟨"removeGuaranteedUsersFromBlacklist", topics e,
        [e.caller, e.round, e.epoch, l.length] ++ l⟩)
    else do
      let s ← restoreGuaranteedV1 s l
      pure (t.setS s)
  | .distribute => distribute hash t e
  | .setSchedule1 a b c d f => do let s ← setSchedule1 t.s e a b c d f; pure (t.setS s)
  | .setSchedule2 l => setSchedule2 t e l
  | .confirmNft => do let s ← confirmNft t.s e; pure (t.setS s)
  | .selectNft => selectNft hash t e
  | .secondary => secondary hash t e
  | .setNftCost c => do
    requireStage t.s e .addTickets "Add tickets period has passed"
    validCost t.s.lpTok c
    pure (t.setS { t.s with nftCost := c })
  | .issueSft => do extendedPermissions t.s e; .error (.vm "async call to the system SC is not modelled")
  | .createSfts => do
    extendedPermissions t.s e
    req (!t.s.sftCreated) "Initial SFTs already created"
    .error (.vm "ESDTNFTCreate needs the collection; not modelled")
  | .setTransferRole _ => do
    extendedPermissions t.s e
    .error (.vm "async call to the system SC is not modelled")
  | .sftSetup =>
    pure (t.setS { t.s with sftToken := true, sftCreated := true, sftIssuedFlag := true, sftRole := true })

/-- One transaction: dispatcher checks (endpoint exists, payable, `#[only_owner]`), the
    call value is credited, the body runs; any error leaves no trace (the caller keeps the
    old state). -/
def step (hash : List Nat → List Nat) (s : State) (e : Env) (c : Call) : Res (State × Out) :=
  match endpointMeta s.variant c with
  | none => .error (.vm "invalid function (not found)")
  | some m =>
    if !m.payable && (e.egld > 0 || !e.esdts.isEmpty) then .error (.vm "function does not accept payment")
    else if m.ownerOnly && e.caller != s.owner then .error (.user "Endpoint can only be called by owner")
    else
      match exec hash ⟨creditPayments s e, ⟨e.budget, e.seeds, e.script⟩, {}⟩ e c with
      | .error err => .error err
      | .ok t => .ok (t.s, t.o)

/-- a history: rejected transactions leave the state unchanged (atomicity) -/
def run (hash : List Nat → List Nat) : State → List (Env × Call) → State
  | s, [] => s
  | s, (e, c) :: rest =>
    match step hash s e c with
    | .ok (s', _) => run hash s' rest
    | .error _ => run hash s rest

end LP
