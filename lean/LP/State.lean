import LP.Basic
import LP.Rng
import LP.Loop
/-
  LP.State — storage, environment, calls and outputs of the eight launchpad contracts.
-/
namespace LP

inductive Variant where
  | base        -- launchpad
  | locked      -- launchpad-locked-tokens
  | nft         -- launchpad-with-nft
  | guarV1      -- launchpad-guaranteed-tickets
  | guarV2      -- launchpad-guaranteed-tickets-v2
  | migration   -- launchpad-migration-guaranteed-tickets
  | lockedGuar  -- launchpad-locked-tokens-and-guaranteed-tickets
  | nftGuar     -- launchpad-nft-and-guaranteed-tickets
  deriving Repr, DecidableEq, Inhabited

namespace Variant
/-- allocation tuple is (addr, staking, energy, migrated) -/
def v1Alloc : Variant → Bool
  | guarV1 | migration | lockedGuar | nftGuar => true
  | _ => false
def isV2 : Variant → Bool
  | guarV2 => true
  | _ => false
def hasGuaranteed (v : Variant) : Bool := v.v1Alloc || v.isV2
def hasNft : Variant → Bool
  | nft | nftGuar => true
  | _ => false
def hasLock : Variant → Bool
  | locked | lockedGuar => true
  | _ => false
/-- vesting claim path + own owner withdrawal (crates 4 and 5) -/
def vested : Variant → Bool
  | guarV1 | guarV2 => true
  | _ => false
def hasUnblacklist : Variant → Bool
  | guarV1 | guarV2 | migration => true
  | _ => false
/-- the additional-step flag is preset at deployment (no additional step) -/
def noAdditionalStep : Variant → Bool
  | base | locked => true
  | _ => false
end Variant

structure Flags where
  started : Bool := false
  filtered : Bool := false
  selected : Bool := false
  additional : Bool := false
  deriving Repr, DecidableEq, Inhabited

structure Cfg where
  conf : Nat
  sel : Nat
  claim : Nat
  deriving Repr, DecidableEq, Inhabited

structure Range where
  first : Nat
  last : Nat
  deriving Repr, DecidableEq, Inhabited

structure Batch where
  addr : Nat
  n : Nat
  deriving Repr, DecidableEq, Inhabited

/-- `GuaranteedTicketsSelectionOperation` (v1 and v2 share the layout). -/
structure GuarOp where
  rng : Rng
  leftover : Nat := 0
  offset : Nat := 1
  additional : Nat := 0
  deriving Repr, DecidableEq, Inhabited

inductive AddData where
  | guar (g : GuarOp)
  | nft (r : Rng)
  deriving Repr, DecidableEq, Inhabited

/-- `OngoingOperationType` -/
inductive Op where
  | none
  | filter (first removed : Nat)
  | select (rng : Rng) (pos : Nat)
  | additional (d : AddData)
  deriving Repr, DecidableEq, Inhabited

/-- `UserTicketsStatus`: v1 uses (a,b,c,d) = (staking allowance, energy allowance,
    staking guaranteed, migration guaranteed); v2 uses a = allowance and `infos`. -/
structure UTS where
  a : Nat := 0
  b : Nat := 0
  c : Nat := 0
  d : Nat := 0
  infos : List (Nat × Nat) := []
  deriving Repr, DecidableEq, Inhabited

structure Sched1 where
  start : Nat
  initial : Nat
  times : Nat
  pct : Nat
  period : Nat
  deriving Repr, DecidableEq, Inhabited

inductive Stage where
  | addTickets | confirm | winnerSelection | claim
  deriving Repr, DecidableEq, Inhabited

def Stage.toNat : Stage → Nat
  | .addTickets => 0 | .confirm => 1 | .winnerSelection => 2 | .claim => 3

structure State where
  variant : Variant
  owner : Nat
  lpTok : Nat
  perTicket : Nat
  payTok : Token
  price : Nat
  nrWinning : Nat
  cfg : Cfg
  flags : Flags
  support : Nat
  paused : Bool := false
  deposited : Bool := false
  totalDeposited : Nat := 0
  claimablePayment : Nat := 0
  lastTicketId : Nat := 0
  range : Nat → Option Range := fun _ => none
  batch : Nat → Option Batch := fun _ => none
  confirmed : Nat → Nat := fun _ => 0
  status : Nat → Bool := fun _ => false
  posToId : Nat → Nat := fun _ => 0
  blacklist : Nat → Bool := fun _ => false
  claimed : Nat → Bool := fun _ => false
  op : Op := .none
  bal : Bal := fun _ _ => 0
  -- guaranteed tickets
  minConfirmed : Nat := 0
  whitelist : List Nat := []
  totalGuaranteed : Nat := 0
  uts : Nat → Option UTS := fun _ => none
  blUts : Nat → Option UTS := fun _ => none
  -- vesting
  sched1 : Option Sched1 := none
  sched2 : Option (List (Nat × Nat)) := none
  userTotal : Nat → Nat := fun _ => 0
  userClaimed : Nat → Nat := fun _ => 0
  -- nft
  nftCost : Pay := ⟨.egld, 0, 0⟩
  availNfts : Nat := 0
  payers : List Nat := []
  nftWinners : List Nat := []
  claimableNft : Nat := 0
  sftToken : Bool := false
  sftCreated : Bool := false
  sftIssuedFlag : Bool := false
  sftRole : Bool := false
  -- locked
  lockPct : Nat := 0
  unlockEpoch : Nat := 0
  lockAddr : Nat := 0
  deriving Inhabited

/-- What a transaction sees of the chain. -/
structure Env where
  caller : Nat
  round : Nat
  epoch : Nat := 0
  egld : Nat := 0
  esdts : List Pay := []
  callerIsContract : Bool := false
  isContract : Nat → Bool := fun _ => false
  /-- fresh 32-byte seeds handed to successive `Random::default()` calls -/
  seeds : List (List Nat) := []
  /-- scripted raw draws (hook); empty = draws come from the seed -/
  script : List Nat := []
  /-- iteration budget for this call (`none` = never interrupted) -/
  budget : Option Nat := none
  deriving Inhabited

structure Ev where
  name : String
  /-- topics after the identifier: caller, round, epoch (empty for pause events) -/
  topics : List Nat
  /-- payload fields, numbers only (tokens as `Token`-codes, lists flattened with a length prefix) -/
  data : List Nat
  deriving Repr, DecidableEq, Inhabited

def Token.code : Token → Nat
  | .egld => 0
  | .esdt id => id + 1

structure Out where
  ret : List Nat := []
  events : List Ev := []
  /-- transfers out of the contract: (recipient, payment), in order -/
  xfers : List (Nat × Pay) := []
  /-- calls to the lock contract: (unlock epoch, destination, amount) -/
  locks : List (Nat × Nat × Nat) := []
  /-- SFT hand-outs: (recipient, nonce) -/
  sfts : List (Nat × Nat) := []
  /-- raw draws consumed, in order -/
  draws : List Nat := []
  deriving Repr, Inhabited

structure InitArgs where
  lpTok : Nat
  perTicket : Nat
  payTok : Token
  price : Nat
  nrWinning : Nat
  conf : Nat
  sel : Nat
  claim : Nat
  -- extras (ignored where the variant has none)
  minConfirmed : Nat := 1
  lockPct : Nat := 0
  unlockEpoch : Nat := 0
  lockAddr : Nat := 0
  nftCost : Pay := ⟨.egld, 0, 0⟩
  availNfts : Nat := 0
  deriving Inhabited

inductive Call where
  | addTickets (l : List (Nat × Nat))
  | addTicketsV1 (l : List (Nat × Nat × Nat × Bool))
  | addTicketsV2 (l : List (Nat × Nat × List (Nat × Nat)))
  | deposit
  | setTicketPrice (tok : Token) (amount : Nat)
  | setPerTicket (amount : Nat)
  | setConfStart (r : Nat)
  | setSelStart (r : Nat)
  | setClaimStart (r : Nat)
  | setSupport (a : Nat)
  | pause
  | unpause
  | confirm (n : Nat)
  | filter
  | select
  | claim
  | claimPayment
  | blacklist (l : List Nat)
  | refundUsers (l : List Nat)
  | unblacklist (l : List Nat)
  | distribute
  | setSchedule1 (start initial times pct period : Nat)
  | setSchedule2 (l : List (Nat × Nat))
  | confirmNft
  | selectNft
  | secondary
  | setNftCost (c : Pay)
  | issueSft
  | createSfts
  | setTransferRole (other : Option Nat)
  /-- harness-only environment action: the SFT collection exists and all set-up steps are done -/
  | sftSetup
  deriving Repr, Inhabited

end LP
