import LP.Basic
/-
  LP.Loop — model of `run_while_it_has_gas` (ongoing_operation.rs:33-61).

  The closure runs at least once.  After every iteration that returned CONTINUE the
  contract asks `can_continue_operation`; the model replaces the gas reading by an
  explicit budget: `none` = never interrupted, `some k` = exactly `k` further
  iterations are allowed.  `fuel` only makes the function total; every use site passes
  a bound that is proved (or, for the v1 leftover loop, assumed) sufficient.
  A failing body (Rust panic / `require!`) aborts the whole transaction.
-/
namespace LP

inductive LoopStatus where
  | completed
  | interrupted
  | outOfFuel
  deriving Repr, DecidableEq, Inhabited

/-- `body s = ok (s', cont)`; `cont = true` is CONTINUE_OP, `false` is STOP_OP. -/
def runWhile {σ : Type} (body : σ → Res (σ × Bool)) :
    Nat → Option Nat → σ → Res (σ × Option Nat × LoopStatus)
  | 0, b, s => .ok (s, b, .outOfFuel)
  | fuel+1, b, s =>
    match body s with
    | .error e => .error e
    | .ok (s', false) => .ok (s', b, .completed)
    | .ok (s', true) =>
      match b with
      | none => runWhile body fuel none s'
      | some 0 => .ok (s', some 0, .interrupted)
      | some (k+1) => runWhile body fuel (some k) s'

end LP
